package main

import (
	"fmt"
	"golang.org/x/tools/go/packages"
)

func main() {
	cfg := &packages.Config{Mode: packages.LoadAllSyntax, Dir: "/repo"}
	pkgs, err := packages.Load(cfg, "./...")
	fmt.Println(len(pkgs), err)
}
