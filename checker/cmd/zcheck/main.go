// zcheck decides structural clauses of the zoekt properties from /repo's
// current source. Nothing in /repo is executed.
package main

import (
	"encoding/json"
	"flag"
	"fmt"
	"os"
	"path/filepath"
	"runtime/debug"
	"strconv"
	"time"

	"zverif/checker/an"
	"zverif/checker/props"
)

func main() {
	prop := flag.String("property", "", "property id (C04, ...)")
	tier := flag.String("tier", "", "quick|thorough (default $VERIF_TIER or quick)")
	repo := flag.String("repo", "/repo", "repository working tree to analyse")
	verif := flag.String("verif", "", "verif directory (evidence/, known_findings.json); default: parent of the binary's directory")
	list := flag.Bool("list", false, "list implemented properties")
	nomut := flag.Bool("no-selftest", false, "thorough: skip the mutant self-test")
	onlymut := flag.Bool("selftest-only", false, "only replay the stored mutants of the property and print the results")
	all := flag.Bool("all", false, "run every implemented property on one load of the tree (evidence goes to -verif; exit 1 if any fails)")
	flag.Parse()
	if *list {
		for _, id := range props.IDs() {
			fmt.Println(id)
		}
		return
	}
	if *tier == "" {
		*tier = os.Getenv("VERIF_TIER")
	}
	if *tier != "thorough" {
		*tier = "quick"
	}
	if *verif == "" {
		exe, _ := os.Executable()
		*verif = filepath.Dir(filepath.Dir(exe))
	}
	seed, _ := strconv.Atoi(os.Getenv("VERIF_SEED"))
	if *all {
		os.Exit(runAll(*repo, *verif, *tier, seed))
	}
	check := props.Get(*prop)
	if check == nil {
		fmt.Fprintf(os.Stderr, "unknown property %q\n", *prop)
		os.Exit(2)
	}
	if *onlymut {
		res := runMutants(*prop, *repo, *verif, seed, an.NewR(nil, *prop))
		b, _ := json.MarshalIndent(res, "", " ")
		fmt.Println(string(b))
		return
	}
	start := time.Now()
	findings, err := an.LoadFindings(filepath.Join(*verif, "known_findings.json"))
	if err != nil {
		fmt.Fprintf(os.Stderr, "known_findings.json: %v\n", err)
		os.Exit(2)
	}
	archs := []string{""}
	if *tier == "thorough" {
		archs = append(archs, "386")
	}
	var rs []*an.R
	extra := map[string]any{}
	for _, arch := range archs {
		rs = append(rs, runOne(*repo, arch, *prop, *tier, check))
	}
	if *tier == "thorough" && !*nomut {
		extra["selftest"] = selfTest(*prop, *repo, *verif, seed, rs[0])
	}
	os.Exit(an.Finish(*prop, *tier, seed, rs, findings, *verif, start, extra))
}

func runOne(repo, arch, prop, tier string, check props.Check) (r *an.R) {
	p, err := an.Load(repo, arch)
	if err != nil {
		r = an.NewR(nil, prop)
		r.Und("load", "packages("+arch+")", 0, err.Error())
		return r
	}
	r = an.NewR(p, prop)
	defer func() {
		if e := recover(); e != nil {
			r.Und("analyser-panic", fmt.Sprint(e), 0, string(debug.Stack()))
		}
	}()
	check(p, r, tier)
	return r
}

func runAll(repo, verif, tier string, seed int) int {
	findings, err := an.LoadFindings(filepath.Join(verif, "known_findings.json"))
	if err != nil {
		fmt.Fprintf(os.Stderr, "known_findings.json: %v\n", err)
		return 2
	}
	p, err := an.Load(repo, "")
	if err != nil {
		fmt.Printf("LOAD FAILED: %v\n", err)
		return 1
	}
	code := 0
	for _, id := range props.IDs() {
		start := time.Now()
		r := an.NewR(p, id)
		func() {
			defer func() {
				if e := recover(); e != nil {
					r.Und("analyser-panic", fmt.Sprint(e), 0, string(debug.Stack()))
				}
			}()
			props.Get(id)(p, r, tier)
		}()
		if an.Finish(id, tier, seed, []*an.R{r}, findings, verif, start, nil) != 0 {
			code = 1
		}
	}
	return code
}
