package main

import (
	"encoding/json"
	"fmt"
	"os"
	"os/exec"
	"path/filepath"
	"sort"
	"strings"

	"zverif/checker/an"
)

type mutantMeta struct {
	Property string `json:"property"`
	Expect   string `json:"expect"` // substring that must occur in a VIOLATED/UNDECIDED report line
	Note     string `json:"note"`
}

// runMutants applies each /verif/checker/mutants/<prop>-*.patch to a scratch
// copy of repo, runs the quick check on it in a separate process and requires
// the rule to fire naming the expected construct. A mutant whose patch no
// longer applies is recorded as skipped. A mutant that is not detected says
// the checker (not the repository) is weak: it is printed and recorded in the
// evidence but does not change the property's verdict.
func runMutants(prop, repo, verif string, seed int, r *an.R) any {
	dir := filepath.Join(verif, "checker", "mutants")
	patches, _ := filepath.Glob(filepath.Join(dir, prop+"-*.patch"))
	sort.Strings(patches)
	type res struct {
		Mutant string `json:"mutant"`
		Result string `json:"result"`
		Expect string `json:"expect,omitempty"`
	}
	var out []res
	exe, _ := os.Executable()
	for _, pf := range patches {
		name := filepath.Base(pf)
		var meta mutantMeta
		if b, err := os.ReadFile(strings.TrimSuffix(pf, ".patch") + ".json"); err == nil {
			json.Unmarshal(b, &meta)
		}
		scratch, err := os.MkdirTemp("", "zv-mut-")
		if err != nil {
			out = append(out, res{name, "skipped: " + err.Error(), meta.Expect})
			continue
		}
		func() {
			defer os.RemoveAll(scratch)
			src := filepath.Join(scratch, "repo")
			vdir := filepath.Join(scratch, "verif")
			os.MkdirAll(filepath.Join(vdir, "evidence"), 0o755)
			if b, err := exec.Command("rsync", "-a", "--exclude", ".git", repo+"/", src+"/").CombinedOutput(); err != nil {
				out = append(out, res{name, "skipped: copy failed: " + string(b), meta.Expect})
				return
			}
			if b, err := os.ReadFile(filepath.Join(verif, "known_findings.json")); err == nil {
				os.WriteFile(filepath.Join(vdir, "known_findings.json"), b, 0o644)
			}
			ap := exec.Command("patch", "-p1", "-s", "-f", "--no-backup-if-mismatch", "-i", pf)
			ap.Dir = src
			if b, err := ap.CombinedOutput(); err != nil {
				out = append(out, res{name, "skipped: patch does not apply: " + firstLine(string(b)), meta.Expect})
				return
			}
			c := exec.Command(exe, "-property", prop, "-tier", "quick", "-repo", src, "-verif", vdir)
			b, err := c.CombinedOutput()
			txt := string(b)
			fired := err != nil && strings.Contains(txt, "VIOLATION property="+prop)
			named := meta.Expect == "" || lineWith(txt, meta.Expect)
			switch {
			case fired && named:
				out = append(out, res{name, "detected", meta.Expect})
			case fired:
				out = append(out, res{name, "fired-but-not-named", meta.Expect})
				fmt.Printf("SELFTEST-WEAK: %s made the check fail but the report does not name %q\n", name, meta.Expect)
			default:
				out = append(out, res{name, "MISSED", meta.Expect})
				fmt.Printf("SELFTEST-MISSED: %s is not detected by the current rules (%s)\n", name, meta.Note)
			}
		}()
	}
	// neutral variants: behaviour-preserving rewrites of the constructs the rules look at; the check must stay silent
	neutrals, _ := filepath.Glob(filepath.Join(verif, "checker", "neutral", prop+"-*.patch"))
	sort.Strings(neutrals)
	nNeutral := 0
	for _, pf := range neutrals {
		name := filepath.Base(pf)
		nNeutral++
		scratch, err := os.MkdirTemp("", "zv-neu-")
		if err != nil {
			out = append(out, res{name, "skipped: " + err.Error(), "silent"})
			continue
		}
		func() {
			defer os.RemoveAll(scratch)
			src := filepath.Join(scratch, "repo")
			vdir := filepath.Join(scratch, "verif")
			os.MkdirAll(filepath.Join(vdir, "evidence"), 0o755)
			if b, err := exec.Command("rsync", "-a", "--exclude", ".git", repo+"/", src+"/").CombinedOutput(); err != nil {
				out = append(out, res{name, "skipped: copy failed: " + string(b), "silent"})
				return
			}
			if b, err := os.ReadFile(filepath.Join(verif, "known_findings.json")); err == nil {
				os.WriteFile(filepath.Join(vdir, "known_findings.json"), b, 0o644)
			}
			ap := exec.Command("patch", "-p1", "-s", "-f", "--no-backup-if-mismatch", "-i", pf)
			ap.Dir = src
			if b, err := ap.CombinedOutput(); err != nil {
				out = append(out, res{name, "skipped: patch does not apply: " + firstLine(string(b)), "silent"})
				return
			}
			c := exec.Command(exe, "-property", prop, "-tier", "quick", "-repo", src, "-verif", vdir)
			b, err := c.CombinedOutput()
			if err == nil && !strings.Contains(string(b), "VIOLATION property=") {
				out = append(out, res{name, "silent (as required)", "silent"})
				return
			}
			out = append(out, res{name, "FALSE-ALARM", "silent"})
			fmt.Printf("SELFTEST-FALSE-ALARM: %s is a behaviour-preserving variant but the check reports: %s\n", name, firstViolation(string(b)))
		}()
	}
	fmt.Printf("selftest: %d mutants, %d neutral variants\n", len(out)-nNeutral, nNeutral)
	return out
}

func firstViolation(txt string) string {
	for _, l := range strings.Split(txt, "\n") {
		if strings.Contains(l, "VIOLATED") || strings.Contains(l, "UNDECIDED") {
			return strings.TrimSpace(l)
		}
	}
	return firstLine(txt)
}

func firstLine(s string) string {
	if i := strings.IndexByte(s, '\n'); i >= 0 {
		return s[:i]
	}
	return s
}

func lineWith(txt, sub string) bool {
	for _, l := range strings.Split(txt, "\n") {
		if (strings.Contains(l, "VIOLATED") || strings.Contains(l, "UNDECIDED")) && strings.Contains(l, sub) {
			return true
		}
	}
	return false
}
