package main

import "zverif/checker/an"

// selfTest replays the stored mutants of a property against a scratch copy of
// the current tree (thorough tier). Implemented in selftest_run.go.
func selfTest(prop, repo, verif string, seed int, r *an.R) any {
	return runMutants(prop, repo, verif, seed, r)
}
