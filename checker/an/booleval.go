package an

import (
	"fmt"
	"go/ast"
	"go/token"
	"go/types"
)

// BoolEval evaluates the body of a function that returns one bool over all
// assignments of truth values to a finite set of atomic conditions. It is an
// abstract evaluation of the source (nothing is executed): atom maps an
// expression to the name of an atomic condition (and whether the expression
// is its negation); everything else must be built from !, &&, ||, bool
// constants, bool locals, if/else, tagless switch and return. Statements
// that do not influence control flow (assignments of non-bool values,
// expression statements, declarations) are skipped. It returns, per world,
// the value returned; err is non-empty when a construct outside this
// fragment is met (the caller reports undecided).
func BoolEval(info *types.Info, body *ast.BlockStmt, atoms []string, atom func(e ast.Expr) (name string, negated bool, ok bool)) (results map[string]bool, err string) {
	type env map[types.Object]bool
	var evalExpr func(e ast.Expr, w map[string]bool, en env) (bool, bool)
	evalExpr = func(e ast.Expr, w map[string]bool, en env) (bool, bool) {
		e = ast.Unparen(e)
		if name, neg, ok := atom(e); ok {
			return w[name] != neg, true
		}
		switch x := e.(type) {
		case *ast.Ident:
			if tv := info.Types[x]; tv.Value != nil {
				switch tv.Value.String() {
				case "true":
					return true, true
				case "false":
					return false, true
				}
			}
			if v, ok := en[info.ObjectOf(x)]; ok {
				return v, true
			}
		case *ast.UnaryExpr:
			if x.Op == token.NOT {
				v, ok := evalExpr(x.X, w, en)
				return !v, ok
			}
		case *ast.BinaryExpr:
			switch x.Op {
			case token.LAND, token.LOR:
				a, okA := evalExpr(x.X, w, en)
				if !okA {
					return false, false
				}
				if x.Op == token.LAND && !a {
					return false, true
				}
				if x.Op == token.LOR && a {
					return true, true
				}
				return evalExpr(x.Y, w, en)
			case token.EQL, token.NEQ:
				a, okA := evalExpr(x.X, w, en)
				b, okB := evalExpr(x.Y, w, en)
				if okA && okB {
					return (a == b) == (x.Op == token.EQL), true
				}
			}
		}
		if err == "" {
			err = "expression outside the boolean fragment: " + types.ExprString(e)
		}
		return false, false
	}
	isBool := func(e ast.Expr) bool {
		t := info.TypeOf(e)
		if t == nil {
			return false
		}
		b, ok := t.Underlying().(*types.Basic)
		return ok && b.Kind() == types.Bool
	}
	// returns (value, returned, ok)
	var evalStmts func(list []ast.Stmt, w map[string]bool, en env) (bool, bool, bool)
	evalStmts = func(list []ast.Stmt, w map[string]bool, en env) (bool, bool, bool) {
		for _, st := range list {
			switch x := st.(type) {
			case *ast.ReturnStmt:
				if len(x.Results) != 1 {
					err = "return without a single result"
					return false, false, false
				}
				v, ok := evalExpr(x.Results[0], w, en)
				return v, true, ok
			case *ast.AssignStmt:
				for i, lh := range x.Lhs {
					id, isID := lh.(*ast.Ident)
					if !isID || !isBool(lh) || len(x.Lhs) != len(x.Rhs) {
						continue // not a bool local: does not steer control flow directly
					}
					v, ok := evalExpr(x.Rhs[i], w, en)
					if !ok {
						return false, false, false
					}
					en[info.ObjectOf(id)] = v
				}
			case *ast.DeclStmt, *ast.ExprStmt, *ast.EmptyStmt, *ast.IncDecStmt:
			case *ast.BlockStmt:
				if v, ret, ok := evalStmts(x.List, w, en); !ok || ret {
					return v, ret, ok
				}
			case *ast.IfStmt:
				if x.Init != nil {
					if _, _, ok := evalStmts([]ast.Stmt{x.Init}, w, en); !ok {
						return false, false, false
					}
				}
				c, ok := evalExpr(x.Cond, w, en)
				if !ok {
					return false, false, false
				}
				if c {
					if v, ret, ok := evalStmts(x.Body.List, w, en); !ok || ret {
						return v, ret, ok
					}
				} else if x.Else != nil {
					if v, ret, ok := evalStmts([]ast.Stmt{x.Else}, w, en); !ok || ret {
						return v, ret, ok
					}
				}
			case *ast.SwitchStmt:
				if x.Tag != nil || x.Init != nil {
					err = "switch with a tag"
					return false, false, false
				}
				var deflt *ast.CaseClause
				taken := false
				for _, cs := range x.Body.List {
					cc := cs.(*ast.CaseClause)
					if cc.List == nil {
						deflt = cc
						continue
					}
					hit := false
					for _, ce := range cc.List {
						v, ok := evalExpr(ce, w, en)
						if !ok {
							return false, false, false
						}
						if v {
							hit = true
						}
					}
					if hit {
						taken = true
						if v, ret, ok := evalStmts(cc.Body, w, en); !ok || ret {
							return v, ret, ok
						}
						break
					}
				}
				if !taken && deflt != nil {
					if v, ret, ok := evalStmts(deflt.Body, w, en); !ok || ret {
						return v, ret, ok
					}
				}
			default:
				err = fmt.Sprintf("statement outside the boolean fragment: %T", st)
				return false, false, false
			}
		}
		return false, false, true
	}
	results = map[string]bool{}
	n := len(atoms)
	for mask := 0; mask < 1<<n; mask++ {
		w := map[string]bool{}
		key := ""
		for i, a := range atoms {
			w[a] = mask&(1<<i) != 0
			if w[a] {
				key += a + "=1 "
			} else {
				key += a + "=0 "
			}
		}
		v, ret, ok := evalStmts(body.List, w, env{})
		if !ok || !ret {
			if err == "" {
				err = "a path does not end in a return"
			}
			return nil, err
		}
		results[key] = v
	}
	return results, ""
}
