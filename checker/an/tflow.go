package an

import (
	"go/token"
	"go/types"

	"golang.org/x/tools/go/ssa"
)

// TypeFlow computes, for interface-typed SSA values, an under-approximation of
// the set of concrete dynamic types the value may hold: only values whose
// origin is visible (MakeInterface, phi, results of static calls into
// functions with bodies, locals) contribute; parameters, loads from fields
// and slices and dynamic calls are "unknown" and contribute nothing.
type TypeFlow struct {
	memo    map[ssa.Value]map[string]bool
	busy    map[ssa.Value]bool
	retMemo map[*ssa.Function]map[int]map[string]bool
	retBusy map[*ssa.Function]bool
	// Label, if non-nil, may refine the name of a concrete value converted to
	// an interface (e.g. mark a node literal whose child field stays nil).
	Label func(mi *ssa.MakeInterface) string
}

func NewTypeFlow() *TypeFlow {
	return &TypeFlow{memo: map[ssa.Value]map[string]bool{}, busy: map[ssa.Value]bool{},
		retMemo: map[*ssa.Function]map[int]map[string]bool{}, retBusy: map[*ssa.Function]bool{}}
}

func (tf *TypeFlow) Of(v ssa.Value) map[string]bool {
	if m, ok := tf.memo[v]; ok {
		return m
	}
	if tf.busy[v] {
		return nil
	}
	tf.busy[v] = true
	defer delete(tf.busy, v)
	out := map[string]bool{}
	add := func(m map[string]bool) {
		for k := range m {
			out[k] = true
		}
	}
	switch x := v.(type) {
	case *ssa.MakeInterface:
		name := TypeName(x.X.Type())
		if tf.Label != nil {
			if l := tf.Label(x); l != "" {
				name = l
			}
		}
		out[name] = true
	case *ssa.Phi:
		for _, e := range x.Edges {
			add(tf.Of(e))
		}
	case *ssa.ChangeInterface:
		add(tf.Of(x.X))
	case *ssa.TypeAssert:
		if !x.CommaOk {
			if _, isI := x.AssertedType.Underlying().(*types.Interface); isI {
				add(tf.Of(x.X))
			}
		}
	case *ssa.Extract:
		switch t := x.Tuple.(type) {
		case *ssa.Call:
			add(tf.ofCall(t, x.Index))
		case *ssa.TypeAssert:
			if x.Index == 0 {
				if _, isI := t.AssertedType.Underlying().(*types.Interface); isI {
					add(tf.Of(t.X))
				}
			}
		}
	case *ssa.Call:
		add(tf.ofCall(x, 0))
	case *ssa.UnOp:
		if x.Op == token.MUL {
			if al, ok := x.X.(*ssa.Alloc); ok {
				// local variable spilled to memory: union of what is stored
				okAll := true
				var stored []ssa.Value
				for _, r := range *al.Referrers() {
					switch ri := r.(type) {
					case *ssa.Store:
						if ri.Addr == al {
							stored = append(stored, ri.Val)
						} else {
							okAll = false
						}
					case *ssa.UnOp, *ssa.DebugRef:
					default:
						okAll = false
					}
				}
				if okAll {
					for _, s := range stored {
						add(tf.Of(s))
					}
				}
			}
		}
	}
	if len(tf.busy) == 1 && len(tf.retBusy) == 0 {
		// only top-level results are complete (inner ones may have been cut by
		// the cycle guard)
		tf.memo[v] = out
	}
	return out
}

func (tf *TypeFlow) ofCall(c *ssa.Call, idx int) map[string]bool {
	f := c.Common().StaticCallee()
	if f == nil || f.Blocks == nil {
		return nil
	}
	return tf.Returns(f)[idx]
}

// Returns computes the flow sets of each result of f.
func (tf *TypeFlow) Returns(f *ssa.Function) map[int]map[string]bool {
	if m, ok := tf.retMemo[f]; ok {
		return m
	}
	if tf.retBusy[f] {
		return nil
	}
	tf.retBusy[f] = true
	out := map[int]map[string]bool{}
	for _, b := range f.Blocks {
		for _, in := range b.Instrs {
			ret, ok := in.(*ssa.Return)
			if !ok {
				continue
			}
			for i, r := range ret.Results {
				if _, isI := r.Type().Underlying().(*types.Interface); !isI {
					continue
				}
				if out[i] == nil {
					out[i] = map[string]bool{}
				}
				for k := range tf.Of(r) {
					out[i][k] = true
				}
			}
		}
	}
	delete(tf.retBusy, f)
	if len(tf.busy) == 0 && len(tf.retBusy) == 0 {
		tf.retMemo[f] = out
	}
	return out
}

// ExcludedAt returns the concrete types that v cannot hold in block b because
// b is dominated by the false edge of a comma-ok type assertion on v (this is
// how `if _, ok := v.(*T); ok { return ... }` and the clauses of a type switch
// look in SSA).
func ExcludedAt(v ssa.Value, b *ssa.BasicBlock) map[string]bool {
	out := map[string]bool{}
	if v.Referrers() == nil {
		return out
	}
	for _, r := range *v.Referrers() {
		ta, ok := r.(*ssa.TypeAssert)
		if !ok || !ta.CommaOk || ta.X != v {
			continue
		}
		for _, r2 := range *ta.Referrers() {
			ex, ok := r2.(*ssa.Extract)
			if !ok || ex.Index != 1 {
				continue
			}
			for _, r3 := range *ex.Referrers() {
				iff, ok := r3.(*ssa.If)
				if !ok || iff.Cond != ex {
					continue
				}
				fb := iff.Block().Succs[1]
				if len(fb.Preds) == 1 && fb.Dominates(b) {
					out[TypeName(ta.AssertedType)] = true
				}
			}
		}
	}
	return out
}
