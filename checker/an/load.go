// Package an holds the shared machinery of zcheck: loading /repo's current
// working tree, resolving anchors, CFG/dominator helpers, the obligation model,
// evidence and known-findings handling.
package an

import (
	"fmt"
	"go/ast"
	"go/token"
	"go/types"
	"os"
	"path/filepath"
	"sort"
	"strings"

	"golang.org/x/tools/go/callgraph"
	"golang.org/x/tools/go/callgraph/cha"
	"golang.org/x/tools/go/callgraph/vta"
	"golang.org/x/tools/go/packages"
	"golang.org/x/tools/go/ssa"
	"golang.org/x/tools/go/ssa/ssautil"
)

const Mod = "github.com/sourcegraph/zoekt"

// Prog is one loaded build configuration of the repository.
type Prog struct {
	Dir    string
	GOARCH string
	Fset   *token.FileSet
	Roots  []*packages.Package          // packages of the module (have syntax)
	ByPath map[string]*packages.Package // the module's packages by import path
	TPkgs  map[string]*types.Package    // every package in the import graph (types only for dependencies)

	ssaProg *ssa.Program
	ssaPkgs map[*types.Package]*ssa.Package
	cha     *callgraph.Graph
	vta     *callgraph.Graph

	declOf map[*types.Func]*DeclInfo
}

type DeclInfo struct {
	Decl *ast.FuncDecl
	Pkg  *packages.Package
	File *ast.File
}

// Load type-checks every package of the module rooted at dir from source
// (dependencies come from export data). Any load or type error is returned.
// Current is the program loaded last (used by helpers that need declarations of callees).
var Current *Prog

func Load(dir, goarch string, extraEnv ...string) (*Prog, error) {
	env := os.Environ()
	env = append(env, "GOFLAGS=-mod=mod", "GOPROXY=off", "GOWORK=off")
	if goarch != "" {
		env = append(env, "GOARCH="+goarch)
	}
	env = append(env, extraEnv...)
	fset := token.NewFileSet()
	cfg := &packages.Config{
		Mode: packages.NeedName | packages.NeedFiles | packages.NeedCompiledGoFiles |
			packages.NeedImports | packages.NeedTypes | packages.NeedSyntax |
			packages.NeedTypesInfo | packages.NeedTypesSizes | packages.NeedModule,
		Dir:  dir,
		Fset: fset,
		Env:  env,
	}
	pkgs, err := packages.Load(cfg, "./...")
	if err != nil {
		return nil, fmt.Errorf("packages.Load: %w", err)
	}
	if len(pkgs) == 0 {
		return nil, fmt.Errorf("no packages loaded from %s", dir)
	}
	p := &Prog{Dir: dir, GOARCH: goarch, Fset: fset, ByPath: map[string]*packages.Package{}, TPkgs: map[string]*types.Package{}, declOf: map[*types.Func]*DeclInfo{}}
	var errs []string
	var addT func(tp *types.Package)
	addT = func(tp *types.Package) {
		if tp == nil || p.TPkgs[tp.Path()] != nil {
			return
		}
		p.TPkgs[tp.Path()] = tp
		for _, im := range tp.Imports() {
			addT(im)
		}
	}
	for _, pk := range pkgs {
		p.ByPath[pk.PkgPath] = pk
		for _, e := range pk.Errors {
			errs = append(errs, fmt.Sprintf("%s: %s", pk.PkgPath, e))
		}
		if pk.Types == nil || pk.TypesInfo == nil || len(pk.Syntax) == 0 {
			errs = append(errs, fmt.Sprintf("%s: not type-checked from source", pk.PkgPath))
		}
		addT(pk.Types)
	}
	if len(errs) > 0 {
		sort.Strings(errs)
		if len(errs) > 10 {
			errs = errs[:10]
		}
		return nil, fmt.Errorf("type/load errors: %s", strings.Join(errs, "; "))
	}
	sort.Slice(pkgs, func(i, j int) bool { return pkgs[i].PkgPath < pkgs[j].PkgPath })
	p.Roots = pkgs
	for _, pk := range pkgs {
		for _, f := range pk.Syntax {
			for _, d := range f.Decls {
				fd, ok := d.(*ast.FuncDecl)
				if !ok {
					continue
				}
				if obj, ok := pk.TypesInfo.Defs[fd.Name].(*types.Func); ok {
					p.declOf[obj] = &DeclInfo{Decl: fd, Pkg: pk, File: f}
				}
			}
		}
	}
	Current = p
	return p, nil
}

// Pkg returns a package of the module by path relative to the module root
// ("" is the root package, "index", "cmd/zoekt-merge-index", ...), or an
// absolute import path.
func (p *Prog) Pkg(rel string) *packages.Package {
	if pk, ok := p.ByPath[rel]; ok && rel != "" {
		return pk
	}
	path := Mod
	if rel != "" {
		path = Mod + "/" + rel
	}
	return p.ByPath[path]
}

// Pos renders a position relative to the repository root.
func (p *Prog) Pos(pos token.Pos) string {
	if !pos.IsValid() {
		return "-"
	}
	ps := p.Fset.Position(pos)
	rel, err := filepath.Rel(p.Dir, ps.Filename)
	if err != nil || strings.HasPrefix(rel, "..") {
		rel = ps.Filename
	}
	return fmt.Sprintf("%s:%d", rel, ps.Line)
}

// Func resolves "Name", "T.Name" or "(*T).Name" in package rel.
func (p *Prog) Func(rel, name string) *types.Func {
	pk := p.Pkg(rel)
	if pk == nil {
		return nil
	}
	return LookupFunc(pk.Types, name)
}

func LookupFunc(tp *types.Package, name string) *types.Func {
	name = strings.TrimPrefix(name, "(*")
	name = strings.Replace(name, ").", ".", 1)
	if i := strings.Index(name, "."); i >= 0 {
		tn, _ := tp.Scope().Lookup(name[:i]).(*types.TypeName)
		if tn == nil {
			return nil
		}
		obj, _, _ := types.LookupFieldOrMethod(types.NewPointer(tn.Type()), true, tp, name[i+1:])
		f, _ := obj.(*types.Func)
		return f
	}
	f, _ := tp.Scope().Lookup(name).(*types.Func)
	return f
}

// Named resolves a named type.
func (p *Prog) Named(rel, name string) *types.Named {
	pk := p.Pkg(rel)
	if pk == nil {
		return nil
	}
	tn, _ := pk.Types.Scope().Lookup(name).(*types.TypeName)
	if tn == nil {
		return nil
	}
	n, _ := tn.Type().(*types.Named)
	return n
}

func (p *Prog) Struct(rel, name string) *types.Struct {
	n := p.Named(rel, name)
	if n == nil {
		return nil
	}
	s, _ := n.Underlying().(*types.Struct)
	return s
}

// Field resolves a struct field object.
func (p *Prog) Field(rel, typ, field string) *types.Var {
	s := p.Struct(rel, typ)
	if s == nil {
		return nil
	}
	for i := 0; i < s.NumFields(); i++ {
		if s.Field(i).Name() == field {
			return s.Field(i)
		}
	}
	return nil
}

// Var resolves a package-level variable or constant object.
func (p *Prog) Obj(rel, name string) types.Object {
	pk := p.Pkg(rel)
	if pk == nil {
		return nil
	}
	return pk.Types.Scope().Lookup(name)
}

func (p *Prog) Decl(fn *types.Func) *DeclInfo {
	if fn == nil {
		return nil
	}
	return p.declOf[fn.Origin()]
}

// AllDecls iterates over every function declaration of the module's packages
// in a deterministic order.
func (p *Prog) AllDecls(f func(fn *types.Func, d *DeclInfo)) {
	type kv struct {
		fn *types.Func
		d  *DeclInfo
	}
	var all []kv
	for fn, d := range p.declOf {
		all = append(all, kv{fn, d})
	}
	sort.Slice(all, func(i, j int) bool { return all[i].d.Decl.Pos() < all[j].d.Decl.Pos() })
	for _, e := range all {
		f(e.fn, e.d)
	}
}

// FuncName is a short stable name: "index.(*indexData).Search".
func FuncName(fn *types.Func) string {
	if fn == nil {
		return "<nil>"
	}
	pkg := ""
	if fn.Pkg() != nil {
		pkg = strings.TrimPrefix(fn.Pkg().Path(), Mod+"/")
		if pkg == Mod {
			pkg = "zoekt"
		}
	}
	sig, _ := fn.Type().(*types.Signature)
	if sig != nil && sig.Recv() != nil {
		t := sig.Recv().Type()
		ptr := false
		if pt, ok := t.(*types.Pointer); ok {
			t = pt.Elem()
			ptr = true
		}
		name := types.TypeString(t, func(*types.Package) string { return "" })
		if i := strings.Index(name, "["); i >= 0 {
			name = name[:i]
		}
		if ptr {
			return fmt.Sprintf("%s.(*%s).%s", pkg, name, fn.Name())
		}
		return fmt.Sprintf("%s.%s.%s", pkg, name, fn.Name())
	}
	return pkg + "." + fn.Name()
}

// ---- SSA -----------------------------------------------------------------

func (p *Prog) SSA() *ssa.Program {
	if p.ssaProg != nil {
		return p.ssaProg
	}
	prog, _ := ssautil.AllPackages(p.Roots, ssa.InstantiateGenerics)
	prog.Build()
	p.ssaProg = prog
	return prog
}

func (p *Prog) SSAFunc(fn *types.Func) *ssa.Function {
	if fn == nil {
		return nil
	}
	return p.SSA().FuncValue(fn)
}

// SSAFuncs returns the SSA functions (including anonymous ones, recursively)
// declared in the module's packages.
func (p *Prog) SSAFuncs() []*ssa.Function {
	prog := p.SSA()
	var out []*ssa.Function
	var add func(f *ssa.Function)
	add = func(f *ssa.Function) {
		if f == nil || f.Blocks == nil {
			return
		}
		out = append(out, f)
		for _, a := range f.AnonFuncs {
			add(a)
		}
	}
	p.AllDecls(func(fn *types.Func, d *DeclInfo) { add(prog.FuncValue(fn)) })
	// package initialisers
	for _, pk := range p.Roots {
		if sp := prog.Package(pk.Types); sp != nil {
			add(sp.Func("init"))
		}
	}
	return out
}

func (p *Prog) CHA() *callgraph.Graph {
	if p.cha == nil {
		p.cha = cha.CallGraph(p.SSA())
	}
	return p.cha
}

func (p *Prog) VTA() *callgraph.Graph {
	if p.vta == nil {
		p.vta = vta.CallGraph(ssautil.AllFunctions(p.SSA()), p.CHA())
	}
	return p.vta
}

// InModule reports whether the object is declared in the zoekt module.
func InModule(pkg *types.Package) bool {
	return pkg != nil && (pkg.Path() == Mod || strings.HasPrefix(pkg.Path(), Mod+"/"))
}

// ExtFunc resolves a function or method of a dependency: ExtFunc("os","Rename"),
// ExtFunc("os","File.Close").
func (p *Prog) ExtFunc(path, name string) *types.Func {
	tp := p.TPkgs[path]
	if tp == nil {
		return nil
	}
	return LookupFunc(tp, name)
}

// PkgOfSSA returns the loaded package a source-level ssa function (or closure) belongs to.
func (p *Prog) PkgOfSSA(f *ssa.Function) *packages.Package {
	if f == nil || f.Pkg == nil || f.Pkg.Pkg == nil {
		return nil
	}
	return p.ByPath[f.Pkg.Pkg.Path()]
}
