package an

import (
	"go/ast"
	"go/constant"
	"go/token"
	"go/types"

	"golang.org/x/tools/go/cfg"
	"golang.org/x/tools/go/types/typeutil"
)

// Callee resolves the static callee of a call (function, method, or nil for
// dynamic calls through function values; interface methods resolve to the
// interface method object).
func Callee(info *types.Info, call *ast.CallExpr) *types.Func {
	f, _ := typeutil.Callee(info, call).(*types.Func)
	if f != nil {
		return f.Origin()
	}
	return nil
}

// IsBuiltin reports whether call is a call of the named builtin.
func IsBuiltin(info *types.Info, call *ast.CallExpr, name string) bool {
	id, ok := ast.Unparen(call.Fun).(*ast.Ident)
	if !ok {
		return false
	}
	b, ok := info.Uses[id].(*types.Builtin)
	return ok && b.Name() == name
}

// Inspect walks n but does not descend into function literals unless into is
// true.
func Inspect(n ast.Node, into bool, f func(ast.Node) bool) {
	if n == nil {
		return
	}
	ast.Inspect(n, func(m ast.Node) bool {
		if m == nil {
			return false
		}
		if _, ok := m.(*ast.FuncLit); ok && !into && m != n {
			return false
		}
		return f(m)
	})
}

// CallsTo lists the calls inside n (not inside nested function literals unless
// into) whose static callee is one of fns.
func CallsTo(info *types.Info, n ast.Node, into bool, fns ...*types.Func) []*ast.CallExpr {
	var out []*ast.CallExpr
	Inspect(n, into, func(m ast.Node) bool {
		if c, ok := m.(*ast.CallExpr); ok {
			cal := Callee(info, c)
			if cal != nil {
				for _, f := range fns {
					if f != nil && cal == f.Origin() {
						out = append(out, c)
						break
					}
				}
			}
		}
		return true
	})
	return out
}

// noReturn reports calls that never return normally.
func noReturn(info *types.Info, call *ast.CallExpr) bool {
	if IsBuiltin(info, call, "panic") {
		return true
	}
	f := Callee(info, call)
	if f == nil || f.Pkg() == nil {
		return false
	}
	switch f.Pkg().Path() + "." + f.Name() {
	case "os.Exit", "log.Fatal", "log.Fatalf", "log.Fatalln", "log.Panic", "log.Panicf", "log.Panicln",
		"runtime.Goexit", "testing.FailNow":
		return true
	}
	return false
}

// G is a control-flow graph of one function body with location helpers.
type G struct {
	Info *types.Info
	Body *ast.BlockStmt
	C    *cfg.CFG
	// caseTag maps the value expression of a tagged switch case to the switch tag
	caseTag map[ast.Expr]ast.Expr
}

// Loc is a position in the graph: node I of block B.
type Loc struct {
	B *cfg.Block
	I int
}

func NewG(info *types.Info, body *ast.BlockStmt) *G {
	c := cfg.New(body, func(call *ast.CallExpr) bool { return !noReturn(info, call) })
	g := &G{Info: info, Body: body, C: c, caseTag: map[ast.Expr]ast.Expr{}}
	// go/cfg represents `switch tag { case v: }` by a conditional block whose condition node is just v
	ast.Inspect(body, func(n ast.Node) bool {
		sw, ok := n.(*ast.SwitchStmt)
		if !ok || sw.Tag == nil {
			return true
		}
		for _, cs := range sw.Body.List {
			for _, e := range cs.(*ast.CaseClause).List {
				g.caseTag[e] = sw.Tag
			}
		}
		return true
	})
	return g
}

// EdgeImplies: taking successor k of block b establishes the fact recognised by
// holds (tagged switch cases spelled out, bool locals and small predicate
// helpers expanded).
func (g *G) EdgeImplies(b *cfg.Block, k int, holds func(atom ast.Expr, truth bool) bool) bool {
	cond := g.CondAt(b)
	if cond == nil {
		return false
	}
	return ImpliedX(g.Info, g.Body, cond, k == 0, holds)
}

// CondAt returns the branch condition of block b with tagged-switch cases
// spelled out as `tag == value`.
func (g *G) CondAt(b *cfg.Block) ast.Expr {
	cond := CondOf(b)
	if cond == nil {
		return nil
	}
	if tag, ok := g.caseTag[cond]; ok {
		return &ast.BinaryExpr{X: tag, Op: token.EQL, OpPos: cond.Pos(), Y: cond}
	}
	return cond
}

// Find returns the location of the innermost CFG node containing n.
func (g *G) Find(n ast.Node) (Loc, bool) {
	best := Loc{}
	var bestLen token.Pos = -1
	for _, b := range g.C.Blocks {
		if !b.Live {
			continue
		}
		for i, m := range b.Nodes {
			if m.Pos() <= n.Pos() && n.End() <= m.End() {
				l := m.End() - m.Pos()
				if bestLen < 0 || l < bestLen {
					best, bestLen = Loc{b, i}, l
				}
			}
		}
	}
	return best, bestLen >= 0
}

// FirstIn returns the location of the CFG node inside statement n that has the
// smallest position (the first one executed for if/for/switch/simple
// statements).
func (g *G) FirstIn(n ast.Node) (Loc, bool) {
	best, found := Loc{}, false
	for _, b := range g.C.Blocks {
		if !b.Live {
			continue
		}
		for i, m := range b.Nodes {
			if n.Pos() <= m.Pos() && m.End() <= n.End() {
				if !found || m.Pos() < g.Node(best).Pos() {
					best, found = Loc{b, i}, true
				}
			}
		}
	}
	return best, found
}

// Locs returns the locations whose node satisfies pred (pred is given the CFG
// node; use Contains helpers to look inside).
func (g *G) Locs(pred func(n ast.Node) bool) []Loc {
	var out []Loc
	for _, b := range g.C.Blocks {
		if !b.Live {
			continue
		}
		for i, m := range b.Nodes {
			if pred(m) {
				out = append(out, Loc{b, i})
			}
		}
	}
	return out
}

func (g *G) Node(l Loc) ast.Node { return l.B.Nodes[l.I] }

// IsReturnExit reports whether block b ends the function normally (return
// statement or falling off the end), as opposed to a no-return call.
func (g *G) IsReturnExit(b *cfg.Block) bool {
	if len(b.Succs) != 0 {
		return false
	}
	if len(b.Nodes) == 0 {
		return true
	}
	last := b.Nodes[len(b.Nodes)-1]
	if es, ok := last.(*ast.ExprStmt); ok {
		if c, ok := es.X.(*ast.CallExpr); ok && noReturn(g.Info, c) {
			return false
		}
	}
	return true
}

// Search explores paths starting at from (from itself is not tested when
// skipFirst). It stops a path at a location where cut returns true and at
// edges where cutEdge returns true. It returns true if a location satisfying
// target is reached, or — when exitIsTarget — if a normal function exit is
// reached.
type Search struct {
	Target       func(Loc) bool
	Cut          func(Loc) bool
	CutEdge      func(b *cfg.Block, succ int) bool
	ExitIsTarget bool
	// Witness is filled with the location (or exit block) that was reached.
	Witness Loc
}

func (g *G) Entry() Loc { return Loc{g.C.Blocks[0], 0} }

func (g *G) Reach(from Loc, skipFirst bool, s *Search) bool {
	seen := map[*cfg.Block]bool{}
	type item struct {
		b *cfg.Block
		i int
	}
	work := []item{{from.B, from.I}}
	if skipFirst {
		work[0].i++
	}
	first := true
	for len(work) > 0 {
		it := work[len(work)-1]
		work = work[:len(work)-1]
		if it.i == 0 {
			if seen[it.b] {
				continue
			}
			seen[it.b] = true
		} else if !first {
			continue
		}
		first = false
		stopped := false
		for i := it.i; i < len(it.b.Nodes); i++ {
			l := Loc{it.b, i}
			if s.Target != nil && s.Target(l) {
				s.Witness = l
				return true
			}
			if s.Cut != nil && s.Cut(l) {
				stopped = true
				break
			}
		}
		if stopped {
			continue
		}
		if len(it.b.Succs) == 0 {
			if s.ExitIsTarget && g.IsReturnExit(it.b) {
				s.Witness = Loc{it.b, len(it.b.Nodes)}
				return true
			}
			continue
		}
		for k, sc := range it.b.Succs {
			if s.CutEdge != nil && s.CutEdge(it.b, k) {
				continue
			}
			work = append(work, item{sc, 0})
		}
	}
	return false
}

// Contains reports whether the CFG node at l contains (not inside nested
// function literals) an AST node satisfying pred.
func (g *G) Contains(l Loc, pred func(ast.Node) bool) bool {
	found := false
	Inspect(g.Node(l), false, func(m ast.Node) bool {
		if found {
			return false
		}
		if pred(m) {
			found = true
			return false
		}
		return true
	})
	return found
}

// HasCallTo is a predicate factory over locations.
func (g *G) HasCallTo(fns ...*types.Func) func(Loc) bool {
	return func(l Loc) bool {
		if _, isDefer := g.Node(l).(*ast.DeferStmt); isDefer {
			return false
		}
		return len(CallsTo(g.Info, g.Node(l), false, fns...)) > 0
	}
}

// CondEdge: if block b ends in the condition of an if statement (or a for
// condition), Succs[0] is the true edge and Succs[1] the false edge. CondOf
// returns that condition expression.
func CondOf(b *cfg.Block) ast.Expr {
	if len(b.Succs) != 2 || len(b.Nodes) == 0 {
		return nil
	}
	e, _ := b.Nodes[len(b.Nodes)-1].(ast.Expr)
	return e
}

// GuardedBy reports whether every path from entry to loc passes an edge on
// which holds(cond, truth) is true: holds is asked for each conditional block
// and each polarity whether taking that edge establishes the fact. kills, if
// non-nil, reports locations that invalidate the fact (e.g. reassignment).
func (g *G) GuardedBy(target Loc, holds func(cond ast.Expr, truth bool) bool, kills func(Loc) bool) bool {
	return g.GuardedByGen(target, holds, nil, kills)
}

// GuardedByGen is GuardedBy with an additional way to establish the fact: a
// location for which gens returns true (e.g. an assignment of a fresh value).
func (g *G) GuardedByGen(target Loc, holds func(cond ast.Expr, truth bool) bool, gens func(Loc) bool, kills func(Loc) bool) bool {
	// Explore (block, factHeld) states; the target must be unreachable with
	// factHeld == false.
	type st struct {
		b    *cfg.Block
		held bool
	}
	seen := map[st]bool{}
	work := []st{{g.C.Blocks[0], false}}
	for len(work) > 0 {
		s := work[len(work)-1]
		work = work[:len(work)-1]
		if seen[s] {
			continue
		}
		seen[s] = true
		held := s.held
		for i := range s.b.Nodes {
			l := Loc{s.b, i}
			if l == target && !held {
				return false
			}
			if kills != nil && kills(l) {
				held = false
			}
			if gens != nil && gens(l) {
				held = true
			}
		}
		cond := g.CondAt(s.b)
		for k, sc := range s.b.Succs {
			h := held
			if cond != nil && !h {
				if ImpliedX(g.Info, g.Body, cond, k == 0, holds) {
					h = true
				}
			}
			work = append(work, st{sc, h})
		}
	}
	return true
}

// Implied reports whether cond == truth implies the fact recognised by holds.
// go/cfg does not decompose short-circuit conditions, so `a && b` taken true
// implies a and b (either may establish the fact); `a || b` taken false
// implies !a and !b; `a || b` taken true (`a && b` taken false) establishes
// the fact only when each alternative does; `!a` flips the polarity.
func Implied(cond ast.Expr, truth bool, holds func(atom ast.Expr, truth bool) bool) bool {
	cond = ast.Unparen(cond)
	// an edge that cannot be taken implies everything (constants appear when predicate helpers are inlined)
	if id, ok := cond.(*ast.Ident); ok && ((id.Name == "false" && truth) || (id.Name == "true" && !truth)) {
		return true
	}
	if be, ok := cond.(*ast.BinaryExpr); ok && (be.Op == token.LAND || be.Op == token.LOR) {
		// the caller may recognise the compound condition as a whole
		if holds(cond, truth) {
			return true
		}
	}
	switch e := cond.(type) {
	case *ast.UnaryExpr:
		if e.Op == token.NOT {
			return Implied(e.X, !truth, holds)
		}
	case *ast.BinaryExpr:
		switch {
		case e.Op == token.LAND && truth, e.Op == token.LOR && !truth:
			return Implied(e.X, truth, holds) || Implied(e.Y, truth, holds)
		case e.Op == token.LAND || e.Op == token.LOR:
			// `a || b` taken true (`a && b` taken false): one of the alternatives holds,
			// we do not know which - the fact is implied only if each alternative implies it
			return Implied(e.X, truth, holds) && Implied(e.Y, truth, holds)
		}
	}
	return holds(cond, truth)
}

// IntFact is what one edge of a comparison `E op c` (c an integer constant, on
// either side) says about E.
type IntFact struct {
	Lo, Hi *int64 // inclusive bounds when known
	Neq    *int64 // E != Neq
}

// Excludes reports whether the fact rules out E == v.
func (f IntFact) Excludes(v int64) bool {
	return (f.Lo != nil && *f.Lo > v) || (f.Hi != nil && *f.Hi < v) || (f.Neq != nil && *f.Neq == v)
}

// AtMost reports whether the fact implies E <= v.
func (f IntFact) AtMost(v int64) bool { return f.Hi != nil && *f.Hi <= v }

// AtLeast reports whether the fact implies E >= v.
func (f IntFact) AtLeast(v int64) bool { return f.Lo != nil && *f.Lo >= v }

// IntCompare interprets cond (taken with the given truth) as a comparison of an
// expression satisfying isE with an integer constant. ok is false when cond is
// not of that shape.
func IntCompare(info *types.Info, cond ast.Expr, truth bool, isE func(ast.Expr) bool) (IntFact, bool) {
	be, isB := ast.Unparen(cond).(*ast.BinaryExpr)
	if !isB {
		return IntFact{}, false
	}
	constOf := func(e ast.Expr) (int64, bool) {
		tv := info.Types[e]
		if tv.Value == nil {
			return 0, false
		}
		v, exact := constant.Int64Val(constant.ToInt(tv.Value))
		return v, exact && constant.ToInt(tv.Value).Kind() == constant.Int
	}
	op := be.Op
	var c int64
	switch {
	case isE(be.X):
		v, ok := constOf(be.Y)
		if !ok {
			return IntFact{}, false
		}
		c = v
	case isE(be.Y):
		v, ok := constOf(be.X)
		if !ok {
			return IntFact{}, false
		}
		c = v
		// c op E  ==  E op' c
		switch op {
		case token.LSS:
			op = token.GTR
		case token.LEQ:
			op = token.GEQ
		case token.GTR:
			op = token.LSS
		case token.GEQ:
			op = token.LEQ
		}
	default:
		return IntFact{}, false
	}
	if !truth {
		switch op {
		case token.EQL:
			op = token.NEQ
		case token.NEQ:
			op = token.EQL
		case token.LSS:
			op = token.GEQ
		case token.LEQ:
			op = token.GTR
		case token.GTR:
			op = token.LEQ
		case token.GEQ:
			op = token.LSS
		default:
			return IntFact{}, false
		}
	}
	p := func(v int64) *int64 { return &v }
	switch op {
	case token.EQL:
		return IntFact{Lo: p(c), Hi: p(c)}, true
	case token.NEQ:
		return IntFact{Neq: p(c)}, true
	case token.LSS:
		return IntFact{Hi: p(c - 1)}, true
	case token.LEQ:
		return IntFact{Hi: p(c)}, true
	case token.GTR:
		return IntFact{Lo: p(c + 1)}, true
	case token.GEQ:
		return IntFact{Lo: p(c)}, true
	}
	return IntFact{}, false
}

// ExpandBoolLocals replaces, inside cond, every identifier of a bool-typed local
// that has exactly one definition in scope (`x := e`, `var x = e`) and is never
// assigned again by (e), recursively (bounded). A condition routed through a
// named local (`over := a && b; if over {..}`) then yields the same facts as
// the inline condition. The operands of e are assumed not to change between
// the definition and the test (single-definition locals next to their use).
func ExpandBoolLocals(info *types.Info, scope ast.Node, cond ast.Expr) ast.Expr {
	return expandLocals(info, scope, cond, false)
}

// ExpandLocals is ExpandBoolLocals plus: operands of a comparison that are
// single-definition locals holding the result of a call or a selector are
// replaced by that expression (`want := o.GetHash(); if stored != want`).
func ExpandLocals(info *types.Info, scope ast.Node, cond ast.Expr) ast.Expr {
	return expandLocals(info, scope, cond, true)
}

// ImpliedX offers the condition as written, then with bool locals expanded,
// then with comparison operands expanded as well.
func ImpliedX(info *types.Info, scope ast.Node, cond ast.Expr, truth bool, holds func(atom ast.Expr, truth bool) bool) bool {
	if Implied(cond, truth, holds) {
		return true
	}
	if info == nil || scope == nil {
		return false
	}
	if Implied(ExpandBoolLocals(info, scope, cond), truth, holds) || Implied(ExpandLocals(info, scope, cond), truth, holds) {
		return true
	}
	// guards hidden in small predicate helpers of the same package
	in := InlinePredicates(info, ExpandBoolLocals(info, scope, cond))
	return Implied(in, truth, holds)
}

func expandLocals(info *types.Info, scope ast.Node, cond ast.Expr, operands bool) ast.Expr {
	if info == nil || scope == nil || cond == nil {
		return cond
	}
	defs := map[types.Object]ast.Expr{}
	count := map[types.Object]int{}
	declared := map[types.Object]bool{} // declared (:= / var) inside scope
	note := func(lhs ast.Expr, rhs ast.Expr) {
		id, ok := lhs.(*ast.Ident)
		if !ok {
			return
		}
		obj := info.ObjectOf(id)
		if obj == nil {
			return
		}
		count[obj]++
		defs[obj] = rhs
		if info.Defs[id] != nil {
			declared[obj] = true
		}
	}
	ast.Inspect(scope, func(n ast.Node) bool {
		switch x := n.(type) {
		case *ast.AssignStmt:
			for i, l := range x.Lhs {
				if len(x.Lhs) == len(x.Rhs) {
					note(l, x.Rhs[i])
				} else {
					note(l, nil)
				}
			}
		case *ast.ValueSpec:
			for i, nm := range x.Names {
				if i < len(x.Values) {
					note(nm, x.Values[i])
				} else {
					note(nm, nil)
				}
			}
		case *ast.IncDecStmt:
			note(x.X, nil)
		case *ast.RangeStmt:
			if x.Key != nil {
				note(x.Key, nil)
			}
			if x.Value != nil {
				note(x.Value, nil)
			}
		}
		return true
	})
	var expand func(e ast.Expr, depth int) ast.Expr
	expand = func(e ast.Expr, depth int) ast.Expr {
		if depth > 4 {
			return e
		}
		switch x := e.(type) {
		case *ast.ParenExpr:
			return &ast.ParenExpr{X: expand(x.X, depth)}
		case *ast.UnaryExpr:
			if x.Op == token.NOT {
				return &ast.UnaryExpr{Op: x.Op, OpPos: x.OpPos, X: expand(x.X, depth)}
			}
		case *ast.BinaryExpr:
			if x.Op == token.LAND || x.Op == token.LOR {
				return &ast.BinaryExpr{X: expand(x.X, depth), Op: x.Op, OpPos: x.OpPos, Y: expand(x.Y, depth)}
			}
			switch x.Op {
			case token.EQL, token.NEQ, token.LSS, token.LEQ, token.GTR, token.GEQ:
				if !operands {
					return e
				}
				// operands of a comparison that are single-definition locals holding a call/selector result
				side := func(e ast.Expr) ast.Expr {
					id, ok := ast.Unparen(e).(*ast.Ident)
					if !ok {
						return e
					}
					obj := info.ObjectOf(id)
					if obj == nil || count[obj] != 1 || defs[obj] == nil || !declared[obj] {
						return e
					}
					switch ast.Unparen(defs[obj]).(type) {
					case *ast.CallExpr, *ast.SelectorExpr:
						return &ast.ParenExpr{X: defs[obj]}
					}
					return e
				}
				if info.Types[x.X].IsNil() || info.Types[x.Y].IsNil() {
					return e // `v != nil` tests are recognised on the variable itself (error discipline, nil guards)
				}
				nx, ny := side(x.X), side(x.Y)
				if nx != x.X || ny != x.Y {
					return &ast.BinaryExpr{X: nx, Op: x.Op, OpPos: x.OpPos, Y: ny}
				}
			}
		case *ast.Ident:
			obj := info.ObjectOf(x)
			if obj == nil || count[obj] != 1 || defs[obj] == nil || !declared[obj] {
				return e
			}
			if b, ok := obj.Type().Underlying().(*types.Basic); !ok || b.Kind() != types.Bool {
				return e
			}
			if _, isVar := obj.(*types.Var); !isVar {
				return e
			}
			return &ast.ParenExpr{X: expand(defs[obj], depth+1)}
		}
		return e
	}
	return expand(cond, 0)
}
