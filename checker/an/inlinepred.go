package an

import (
	"go/ast"
	"go/token"
	"go/types"
)

// PredicateBody returns, for a module function that returns exactly one bool
// and whose body is a chain of `if c { return k }` guards (k any bool
// expression) ended by `return e`, the equivalent boolean expression over the
// function's own parameter identifiers; ok is false for any other shape.
// Nothing is executed; the expression is assembled from the function's own
// syntax nodes.
func PredicateBody(d *DeclInfo) (ast.Expr, bool) {
	if d == nil || d.Decl.Body == nil || d.Decl.Type.Results == nil || len(d.Decl.Type.Results.List) != 1 {
		return nil, false
	}
	if t := d.Pkg.TypesInfo.TypeOf(d.Decl.Type.Results.List[0].Type); t == nil || t.String() != "bool" {
		return nil, false
	}
	var build func(list []ast.Stmt) (ast.Expr, bool)
	build = func(list []ast.Stmt) (ast.Expr, bool) {
		if len(list) == 0 {
			return nil, false
		}
		switch st := list[0].(type) {
		case *ast.AssignStmt:
			// `base := filepath.Base(p)` ahead of the guards: the local stands for its (only) definition
			if st.Tok != token.DEFINE || len(st.Lhs) != 1 || len(st.Rhs) != 1 {
				return nil, false
			}
			id, ok := st.Lhs[0].(*ast.Ident)
			if !ok || id.Name == "_" {
				return nil, false
			}
			obj := d.Pkg.TypesInfo.Defs[id]
			rest, ok := build(list[1:])
			if !ok || obj == nil {
				return nil, false
			}
			return substParams(d.Pkg.TypesInfo, rest, map[types.Object]ast.Expr{obj: st.Rhs[0]}), true
		case *ast.ReturnStmt:
			if len(st.Results) != 1 {
				return nil, false
			}
			return st.Results[0], true
		case *ast.IfStmt:
			if st.Init != nil {
				return nil, false
			}
			then, ok := build(st.Body.List)
			if !ok {
				return nil, false
			}
			var rest ast.Expr
			if st.Else != nil {
				switch e := st.Else.(type) {
				case *ast.BlockStmt:
					rest, ok = build(e.List)
				case *ast.IfStmt:
					rest, ok = build([]ast.Stmt{e})
				}
			} else {
				rest, ok = build(list[1:])
			}
			if !ok {
				return nil, false
			}
			// (c && then) || (!c && rest)
			c := st.Cond
			return &ast.BinaryExpr{
				X:  &ast.ParenExpr{X: &ast.BinaryExpr{X: &ast.ParenExpr{X: c}, Op: token.LAND, Y: &ast.ParenExpr{X: then}}},
				Op: token.LOR,
				Y:  &ast.ParenExpr{X: &ast.BinaryExpr{X: &ast.UnaryExpr{Op: token.NOT, X: &ast.ParenExpr{X: c}}, Op: token.LAND, Y: &ast.ParenExpr{X: rest}}},
			}, true
		}
		return nil, false
	}
	return build(d.Decl.Body.List)
}

// substParams returns e with every identifier bound to one of params replaced
// by the corresponding argument expression (a new tree is built only along
// the paths that change; leaves keep their type information).
func substParams(info *types.Info, e ast.Expr, bind map[types.Object]ast.Expr) ast.Expr {
	switch x := e.(type) {
	case *ast.Ident:
		if a, ok := bind[info.ObjectOf(x)]; ok {
			return &ast.ParenExpr{X: a}
		}
		return x
	case *ast.ParenExpr:
		return &ast.ParenExpr{X: substParams(info, x.X, bind)}
	case *ast.UnaryExpr:
		return &ast.UnaryExpr{Op: x.Op, OpPos: x.OpPos, X: substParams(info, x.X, bind)}
	case *ast.BinaryExpr:
		return &ast.BinaryExpr{X: substParams(info, x.X, bind), Op: x.Op, OpPos: x.OpPos, Y: substParams(info, x.Y, bind)}
	case *ast.SelectorExpr:
		nx := substParams(info, x.X, bind)
		if nx == x.X {
			return x
		}
		ns := &ast.SelectorExpr{X: nx, Sel: x.Sel}
		if sel := info.Selections[x]; sel != nil {
			info.Selections[ns] = sel // the selection (field/method) is unchanged by substituting the receiver expression
		}
		return ns
	case *ast.IndexExpr:
		return &ast.IndexExpr{X: substParams(info, x.X, bind), Lbrack: x.Lbrack, Index: substParams(info, x.Index, bind), Rbrack: x.Rbrack}
	case *ast.StarExpr:
		return &ast.StarExpr{Star: x.Star, X: substParams(info, x.X, bind)}
	case *ast.CallExpr:
		nc := &ast.CallExpr{Fun: x.Fun, Lparen: x.Lparen, Ellipsis: x.Ellipsis, Rparen: x.Rparen}
		if se, ok := x.Fun.(*ast.SelectorExpr); ok {
			nc.Fun = substParams(info, se, bind)
		}
		for _, a := range x.Args {
			nc.Args = append(nc.Args, substParams(info, a, bind))
		}
		if tv, ok := info.Types[x]; ok {
			info.Types[nc] = tv
		}
		// keep the callee resolvable
		if id, ok := x.Fun.(*ast.Ident); ok {
			_ = id
		}
		return nc
	}
	return e
}

// InlinePredicates replaces, inside the boolean structure of cond (!, &&, ||,
// parentheses), every call to a module function that PredicateBody can turn
// into an expression by that expression with the parameters replaced by the
// arguments (bounded depth). A guard written as `if !d.visible(ctx, repo)`
// then yields the same facts as the helper's body written inline.
func InlinePredicates(info *types.Info, cond ast.Expr) ast.Expr {
	if Current == nil || info == nil || cond == nil {
		return cond
	}
	var walk func(e ast.Expr, depth int) ast.Expr
	walk = func(e ast.Expr, depth int) ast.Expr {
		switch x := e.(type) {
		case *ast.ParenExpr:
			return &ast.ParenExpr{X: walk(x.X, depth)}
		case *ast.UnaryExpr:
			if x.Op == token.NOT {
				return &ast.UnaryExpr{Op: x.Op, OpPos: x.OpPos, X: walk(x.X, depth)}
			}
		case *ast.BinaryExpr:
			if x.Op == token.LAND || x.Op == token.LOR {
				return &ast.BinaryExpr{X: walk(x.X, depth), Op: x.Op, OpPos: x.OpPos, Y: walk(x.Y, depth)}
			}
		case *ast.CallExpr:
			if depth >= 2 {
				return e
			}
			fn := Callee(info, x)
			if fn == nil || fn.Pkg() == nil || !InModule(fn.Pkg()) {
				return e
			}
			d := Current.Decl(fn)
			if d == nil || d.Pkg.TypesInfo != info {
				return e // only same-package helpers: their nodes carry type information in this info
			}
			body, ok := PredicateBody(d)
			if !ok {
				return e
			}
			bind := map[types.Object]ast.Expr{}
			k := 0
			for _, f := range d.Decl.Type.Params.List {
				for _, nm := range f.Names {
					if k < len(x.Args) {
						bind[info.ObjectOf(nm)] = x.Args[k]
					}
					k++
				}
			}
			if d.Decl.Recv != nil && len(d.Decl.Recv.List) == 1 && len(d.Decl.Recv.List[0].Names) == 1 {
				if se, ok := ast.Unparen(x.Fun).(*ast.SelectorExpr); ok {
					bind[info.ObjectOf(d.Decl.Recv.List[0].Names[0])] = se.X
				}
			}
			return &ast.ParenExpr{X: walk(substParams(info, body, bind), depth+1)}
		}
		return e
	}
	return walk(cond, 0)
}
