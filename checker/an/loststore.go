package an

import (
	"go/token"
	"go/types"

	"golang.org/x/tools/go/ssa"
)

// LocalStruct describes a struct-typed local variable of an SSA function whose
// address never leaves the function (all its uses are whole loads, whole
// stores, and loads/stores of its fields), together with the field stores that
// no later read can observe.
type LocalStruct struct {
	Alloc       *ssa.Alloc
	FromMap     bool // some whole store writes a value looked up in a map (a copy of a map element)
	FieldStores int
	Lost        []LostStore
}

// LostStore is a store to a field of a non-escaping local struct that is dead:
// on no path is the field (or the whole variable) read before it is
// overwritten or the function ends.
type LostStore struct {
	Pos   token.Pos
	Field string
}

// LocalStructs finds the non-escaping struct locals of f that have field
// stores, and decides for each field store whether a read can follow it.
// The decision is exact up to path feasibility: a store is reported only if
// NO control-flow path from it reaches a read, so an infeasible path can only
// hide a lost store, never invent one.
func LocalStructs(f *ssa.Function) []LocalStruct {
	var out []LocalStruct
	for _, b := range f.Blocks {
		for _, in := range b.Instrs {
			a, ok := in.(*ssa.Alloc)
			if !ok {
				continue
			}
			st, ok := a.Type().Underlying().(*types.Pointer).Elem().Underlying().(*types.Struct)
			if !ok {
				continue
			}
			if ls, ok := localStruct(a, st); ok && ls.FieldStores > 0 {
				out = append(out, ls)
			}
		}
	}
	return out
}

type fieldAccess struct {
	in    ssa.Instruction
	field int
	write bool
}

func localStruct(a *ssa.Alloc, st *types.Struct) (LocalStruct, bool) {
	ls := LocalStruct{Alloc: a}
	acc := map[ssa.Instruction]fieldAccess{} // field -1: the whole variable
	if a.Referrers() == nil {
		return ls, false
	}
	for _, ref := range *a.Referrers() {
		switch x := ref.(type) {
		case *ssa.DebugRef:
		case *ssa.Store:
			if x.Val == ssa.Value(a) || x.Addr != ssa.Value(a) {
				return ls, false // the address is stored somewhere: escapes
			}
			acc[x] = fieldAccess{x, -1, true}
			if fromMapLookup(x.Val) {
				ls.FromMap = true
			}
		case *ssa.UnOp:
			if x.Op != token.MUL {
				return ls, false
			}
			acc[x] = fieldAccess{x, -1, false}
		case *ssa.FieldAddr:
			if x.Referrers() == nil {
				continue
			}
			for _, fr := range *x.Referrers() {
				switch y := fr.(type) {
				case *ssa.DebugRef:
				case *ssa.Store:
					if y.Addr != ssa.Value(x) {
						return ls, false
					}
					acc[y] = fieldAccess{y, x.Field, true}
					ls.FieldStores++
				case *ssa.UnOp:
					if y.Op != token.MUL {
						return ls, false
					}
					acc[y] = fieldAccess{y, x.Field, false}
				default:
					return ls, false // address of a field taken / passed on
				}
			}
		default:
			return ls, false
		}
	}
	for in, fa := range acc {
		if !fa.write || fa.field < 0 {
			continue
		}
		if !readFollows(in, fa.field, acc) {
			ls.Lost = append(ls.Lost, LostStore{Pos: in.Pos(), Field: st.Field(fa.field).Name()})
		}
	}
	return ls, true
}

func fromMapLookup(v ssa.Value) bool {
	switch x := v.(type) {
	case *ssa.Lookup:
		_, isMap := x.X.Type().Underlying().(*types.Map)
		return isMap
	case *ssa.Extract:
		return fromMapLookup(x.Tuple)
	case *ssa.Phi:
		for _, e := range x.Edges {
			if fromMapLookup(e) {
				return true
			}
		}
	}
	return false
}

// readFollows: can a read of field (or of the whole variable) be reached from
// store before the field or the whole variable is overwritten?
func readFollows(store ssa.Instruction, field int, acc map[ssa.Instruction]fieldAccess) bool {
	// scan returns (found, killed)
	scan := func(instrs []ssa.Instruction) (bool, bool) {
		for _, in := range instrs {
			fa, ok := acc[in]
			if !ok || (fa.field != -1 && fa.field != field) {
				continue
			}
			if !fa.write {
				return true, false
			}
			return false, true
		}
		return false, false
	}
	b := store.Block()
	idx := 0
	for i, in := range b.Instrs {
		if in == store {
			idx = i
		}
	}
	if found, killed := scan(b.Instrs[idx+1:]); found {
		return true
	} else if killed {
		return false
	}
	seen := map[*ssa.BasicBlock]bool{}
	work := append([]*ssa.BasicBlock(nil), b.Succs...)
	for len(work) > 0 {
		n := work[len(work)-1]
		work = work[:len(work)-1]
		if seen[n] {
			continue
		}
		seen[n] = true
		found, killed := scan(n.Instrs)
		if found {
			return true
		}
		if !killed {
			work = append(work, n.Succs...)
		}
	}
	return false
}
