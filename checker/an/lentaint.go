package an

import (
	"go/token"
	"go/types"

	"golang.org/x/tools/go/ssa"
)

// LenTaint tracks integers decoded from untrusted bytes (varints) to the
// places where they size an allocation, bound a loop or slice.

type TaintInfo struct {
	Root     ssa.Value // the source value
	MaybeNeg bool      // went through an unsigned->signed conversion (or comes from a callee that did): may be negative
}

type LenTaint struct {
	// summaries of module functions whose result is an unvalidated decoded length
	Summary map[*ssa.Function]*TaintInfo
}

func NewLenTaint() *LenTaint { return &LenTaint{Summary: map[*ssa.Function]*TaintInfo{}} }

func isUvarintCall(c *ssa.Call) bool {
	cal := StaticCallee(c)
	return cal != nil && (IsPkgFunc(cal, "encoding/binary", "Uvarint", "ReadUvarint", "Varint", "ReadVarint"))
}

func isSigned(t types.Type) bool {
	b, ok := t.Underlying().(*types.Basic)
	return ok && b.Info()&types.IsInteger != 0 && b.Info()&types.IsUnsigned == 0
}
func isUnsigned(t types.Type) bool {
	b, ok := t.Underlying().(*types.Basic)
	return ok && b.Info()&types.IsUnsigned != 0
}

// Tainted computes the tainted values of f.
func (lt *LenTaint) Tainted(f *ssa.Function) map[ssa.Value]*TaintInfo {
	t := map[ssa.Value]*TaintInfo{}
	// sources
	Instrs(f, func(b *ssa.BasicBlock, in ssa.Instruction) {
		switch x := in.(type) {
		case *ssa.Extract:
			if c, ok := x.Tuple.(*ssa.Call); ok && x.Index == 0 && isUvarintCall(c) {
				t[x] = &TaintInfo{Root: x}
			}
		case *ssa.Call:
			if callee := x.Common().StaticCallee(); callee != nil {
				if s := lt.Summary[callee]; s != nil {
					t[x] = &TaintInfo{Root: x, MaybeNeg: s.MaybeNeg}
				}
			}
		}
	})
	changed := true
	for changed {
		changed = false
		set := func(v ssa.Value, from *TaintInfo, neg bool) {
			if old, ok := t[v]; ok {
				if (from.MaybeNeg || neg) && !old.MaybeNeg {
					old.MaybeNeg = true
					changed = true
				}
				return
			}
			t[v] = &TaintInfo{Root: from.Root, MaybeNeg: from.MaybeNeg || neg}
			changed = true
		}
		Instrs(f, func(b *ssa.BasicBlock, in ssa.Instruction) {
			switch x := in.(type) {
			case *ssa.Convert:
				if s := t[x.X]; s != nil {
					set(x, s, isUnsigned(x.X.Type()) && isSigned(x.Type()))
				}
			case *ssa.ChangeType:
				if s := t[x.X]; s != nil {
					set(x, s, false)
				}
			case *ssa.BinOp:
				switch x.Op {
				case token.ADD, token.SUB, token.MUL, token.QUO, token.SHL, token.SHR, token.REM:
					if s := t[x.X]; s != nil {
						set(x, s, false)
					} else if s := t[x.Y]; s != nil && x.Op != token.QUO && x.Op != token.REM && x.Op != token.SHR {
						set(x, s, false)
					}
				}
			case *ssa.Phi:
				// clamp idiom: phi(v, u) under a comparison of v with u is bounded
				var tainted []*TaintInfo
				for _, e := range x.Edges {
					if s := t[e]; s != nil {
						tainted = append(tainted, s)
					}
				}
				if len(tainted) > 0 && !isClamp(x, t) {
					set(x, tainted[0], false)
				}
			case *ssa.Call:
				if bi, ok := x.Common().Value.(*ssa.Builtin); ok && bi.Name() == "max" {
					for _, a := range x.Common().Args {
						if s := t[a]; s != nil {
							set(x, s, false)
						}
					}
				}
				if bi, ok := x.Common().Value.(*ssa.Builtin); ok && bi.Name() == "min" {
					all := len(x.Common().Args) > 0
					var first *TaintInfo
					for _, a := range x.Common().Args {
						if s := t[a]; s != nil {
							if first == nil {
								first = s
							}
						} else {
							all = false
						}
					}
					if all && first != nil {
						set(x, first, false)
					}
				}
			}
		})
	}
	return t
}

// isClamp: a two-edge phi of a tainted v and an untainted u whose controlling
// branch compares (a conversion of) v with u.
func isClamp(p *ssa.Phi, t map[ssa.Value]*TaintInfo) bool {
	if len(p.Edges) != 2 {
		return false
	}
	var v, u ssa.Value
	for _, e := range p.Edges {
		if t[e] != nil {
			v = e
		} else {
			u = e
		}
	}
	if v == nil || u == nil {
		return false
	}
	idom := p.Block().Idom()
	if idom == nil || len(idom.Instrs) == 0 {
		return false
	}
	iff, ok := idom.Instrs[len(idom.Instrs)-1].(*ssa.If)
	if !ok {
		return false
	}
	k, _ := NormCond(iff.Cond)
	same := func(a, b ssa.Value) bool {
		strip := func(x ssa.Value) ssa.Value {
			for {
				if c, ok := x.(*ssa.Convert); ok {
					x = c.X
					continue
				}
				return x
			}
		}
		return strip(a) == strip(b)
	}
	return (same(k.X, v) && same(k.Y, u)) || (same(k.X, u) && same(k.Y, v))
}

// LenSink is a use of a tainted value that must be bounded.
type LenSink struct {
	In   ssa.Instruction
	Val  ssa.Value
	Kind string // "make", "makemap", "slice-bound", "loop-bound"
}

func LenSinks(f *ssa.Function, t map[ssa.Value]*TaintInfo, kinds map[string]bool) []LenSink {
	var out []LenSink
	Instrs(f, func(b *ssa.BasicBlock, in ssa.Instruction) {
		add := func(v ssa.Value, kind string) {
			if v != nil && t[v] != nil && kinds[kind] {
				out = append(out, LenSink{in, v, kind})
			}
		}
		switch x := in.(type) {
		case *ssa.MakeSlice:
			add(x.Len, "make")
			if x.Cap != x.Len {
				add(x.Cap, "make")
			}
		case *ssa.MakeMap:
			add(x.Reserve, "makemap")
		case *ssa.Slice:
			add(x.Low, "slice-bound")
			add(x.High, "slice-bound")
			add(x.Max, "slice-bound")
		case *ssa.If:
			// loop bound: `i < n` deciding a loop whose header is this block
			if bo, ok := x.Cond.(*ssa.BinOp); ok && (bo.Op == token.LSS || bo.Op == token.LEQ || bo.Op == token.NEQ) {
				isLoop := false
				for _, p := range b.Preds {
					if b.Dominates(p) {
						isLoop = true
					}
				}
				if isLoop {
					if _, isPhi := bo.X.(*ssa.Phi); isPhi {
						add(bo.Y, "loop-bound")
					}
				}
			}
		}
	})
	return out
}

// Bounded reports, for a sink, whether on every feasible path to it the
// tainted value was compared against an untainted value with the polarity
// that bounds it from above — and, if it may be negative, also from below (or
// the comparison was made before the sign-changing conversion).
func Bounded(f *ssa.Function, t map[ssa.Value]*TaintInfo, s LenSink) (ok bool, decided bool, why string) {
	info := t[s.Val]
	inClass := func(v ssa.Value) *TaintInfo {
		ti := t[v]
		if ti != nil && ti.Root == info.Root {
			return ti
		}
		return nil
	}
	eng := &FactEngine{Fn: f, Track: func(k FKey) bool {
		return (k.X != nil && t[k.X] != nil) || (k.Y != nil && t[k.Y] != nil)
	}}
	bad, paths := 0, 0
	negOnly := false
	decided = eng.AtBlock(s.In.Block(), func(fs Facts) {
		paths++
		upper, lower := false, false
		for k, truth := range fs {
			if k.Op == token.LSS {
				if a := inClass(k.X); a != nil && t[k.Y] == nil && truth {
					upper = true // t < u
					if !a.MaybeNeg {
						lower = true
					}
				}
				if b := inClass(k.Y); b != nil && t[k.X] == nil {
					if !truth {
						upper = true // !(u < t)  =>  t <= u
						if !b.MaybeNeg {
							lower = true
						}
					} else {
						// u < t with u >= 0 constant: lower bound
						if c, ok := k.X.(*ssa.Const); ok && c.Value != nil {
							lower = true
						}
					}
				}
				if a := inClass(k.X); a != nil && !truth {
					// !(t < c) => t >= c
					if c, ok := k.Y.(*ssa.Const); ok && c.Value != nil {
						lower = true
					}
				}
			}
			if k.Op == token.EQL && truth {
				if (inClass(k.X) != nil && t[k.Y] == nil) || (inClass(k.Y) != nil && t[k.X] == nil) {
					upper, lower = true, true
				}
			}
		}
		if !info.MaybeNeg {
			lower = true
		}
		if !(upper && lower) {
			bad++
			if upper && !lower {
				negOnly = true
			}
		}
	})
	if !decided {
		return false, false, "path exploration exceeded its bound"
	}
	if bad == 0 {
		return true, true, ""
	}
	if negOnly {
		return false, true, "the value is compared only after a uint64->int conversion: inputs >= 2^63 become negative, pass the upper-bound test and are used as a length"
	}
	return false, true, "the value reaches the sink without having been compared against the remaining input"
}

// ProgressSites: uses of the byte count returned by binary.Uvarint as the low
// bound of a slice expression (advancing the input). Each must be guarded by
// n > 0 (the != 0 / < 0 cases: truncated and overlong varints).
type ProgressSite struct {
	Slice *ssa.Slice
	N     ssa.Value
}

func ProgressSites(f *ssa.Function) []ProgressSite {
	var out []ProgressSite
	Instrs(f, func(b *ssa.BasicBlock, in ssa.Instruction) {
		sl, ok := in.(*ssa.Slice)
		if !ok || sl.Low == nil {
			return
		}
		v := sl.Low
		for {
			if c, ok := v.(*ssa.Convert); ok {
				v = c.X
				continue
			}
			break
		}
		ex, ok := v.(*ssa.Extract)
		if !ok || ex.Index != 1 {
			return
		}
		if c, ok := ex.Tuple.(*ssa.Call); ok && isUvarintCall(c) {
			out = append(out, ProgressSite{sl, ex})
		}
	})
	return out
}

// ProgressChecked: on every path to the slice, n > 0 was established.
func ProgressChecked(f *ssa.Function, ps ProgressSite) (ok, decided bool) {
	eng := &FactEngine{Fn: f, Track: func(k FKey) bool { return k.X == ps.N || k.Y == ps.N }}
	bad := 0
	decided = eng.AtBlock(ps.Slice.Block(), func(fs Facts) {
		good := false
		for k, truth := range fs {
			isZero := func(v ssa.Value) bool {
				c, ok := v.(*ssa.Const)
				return ok && c.Value != nil && c.Value.String() == "0"
			}
			isOne := func(v ssa.Value) bool {
				c, ok := v.(*ssa.Const)
				return ok && c.Value != nil && c.Value.String() == "1"
			}
			switch {
			case k.Op == token.LSS && isZero(k.X) && k.Y == ps.N && truth: // 0 < n
				good = true
			case k.Op == token.LSS && k.X == ps.N && isOne(k.Y) && !truth: // !(n < 1)
				good = true
			}
		}
		if !good {
			bad++
		}
	})
	return bad == 0, decided
}
