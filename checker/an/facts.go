package an

import (
	"fmt"
	"go/token"
	"sort"
	"strings"

	"golang.org/x/tools/go/ssa"
)

// FKey is a normalised branch condition: either a comparison X op Y with
// op ∈ {<, ==} (other comparisons are expressed through negation and operand
// swap) or an arbitrary boolean value V.
type FKey struct {
	Op   token.Token
	X, Y ssa.Value
}

// NormCond normalises a boolean SSA value into a key and a polarity: the
// condition is true iff key holds == pos.
func NormCond(v ssa.Value) (FKey, bool) {
	pos := true
	for {
		if u, ok := v.(*ssa.UnOp); ok && u.Op == token.NOT {
			v = u.X
			pos = !pos
			continue
		}
		break
	}
	if b, ok := v.(*ssa.BinOp); ok {
		switch b.Op {
		case token.LSS:
			return FKey{token.LSS, b.X, b.Y}, pos
		case token.GEQ:
			return FKey{token.LSS, b.X, b.Y}, !pos
		case token.GTR:
			return FKey{token.LSS, b.Y, b.X}, pos
		case token.LEQ:
			return FKey{token.LSS, b.Y, b.X}, !pos
		case token.EQL, token.NEQ:
			x, y := b.X, b.Y
			if fmt.Sprintf("%p", x) > fmt.Sprintf("%p", y) {
				x, y = y, x
			}
			return FKey{token.EQL, x, y}, pos == (b.Op == token.EQL)
		}
	}
	return FKey{Op: token.ILLEGAL, X: v}, pos
}

// Facts is a set of branch facts known to hold on a path.
type Facts map[FKey]bool

// FactEngine explores the paths of one SSA function, tracking the truth of
// selected branch conditions (path-sensitive on those conditions only).
type FactEngine struct {
	Fn *ssa.Function
	// Track decides which condition keys are tracked besides the correlated
	// ones (conditions whose key occurs at two or more branches).
	Track func(k FKey) bool
	// MaxStates bounds the exploration; beyond it the result is undecided.
	MaxStates int

	tracked map[FKey]bool
	phiDeps map[FKey]map[*ssa.Phi]bool
	ids     map[FKey]int
	// condPhis: bool-typed phis that are (possibly negated) branch conditions.
	// A flag such as `found := false; if c { _, found = m[k] }; if found {..}`
	// is such a phi; on each path it stands for the value of the edge the
	// path came along.
	condPhis map[*ssa.Phi]bool
}

func stripNot(v ssa.Value) (ssa.Value, bool) {
	neg := false
	for {
		if u, ok := v.(*ssa.UnOp); ok && u.Op == token.NOT {
			v = u.X
			neg = !neg
			continue
		}
		return v, neg
	}
}

func (e *FactEngine) init() {
	if e.tracked != nil {
		return
	}
	if e.MaxStates == 0 {
		e.MaxStates = 200000
	}
	count := map[FKey]int{}
	for _, b := range e.Fn.Blocks {
		if len(b.Instrs) == 0 {
			continue
		}
		if iff, ok := b.Instrs[len(b.Instrs)-1].(*ssa.If); ok {
			k, _ := NormCond(iff.Cond)
			count[k]++
		}
	}
	e.tracked = map[FKey]bool{}
	e.phiDeps = map[FKey]map[*ssa.Phi]bool{}
	e.ids = map[FKey]int{}
	e.condPhis = map[*ssa.Phi]bool{}
	for _, b := range e.Fn.Blocks {
		if len(b.Instrs) == 0 {
			continue
		}
		if iff, ok := b.Instrs[len(b.Instrs)-1].(*ssa.If); ok {
			if v, _ := stripNot(iff.Cond); v != nil {
				if p, ok := v.(*ssa.Phi); ok {
					e.condPhis[p] = true
				}
			}
		}
	}
	for k, n := range count {
		if n >= 2 || (e.Track != nil && e.Track(k)) {
			e.track(k)
		}
	}
}

// track registers key k as tracked (idempotent).
func (e *FactEngine) track(k FKey) {
	if e.tracked[k] {
		return
	}
	{
		{
			e.tracked[k] = true
			deps := map[*ssa.Phi]bool{}
			seen := map[ssa.Value]bool{}
			var walk func(v ssa.Value, depth int)
			walk = func(v ssa.Value, depth int) {
				if v == nil || seen[v] || depth > 12 {
					return
				}
				seen[v] = true
				if p, ok := v.(*ssa.Phi); ok {
					deps[p] = true
					return // values flowing into the phi belong to earlier iterations
				}
				if in, ok := v.(ssa.Instruction); ok {
					for _, op := range in.Operands(nil) {
						if *op != nil {
							walk(*op, depth+1)
						}
					}
				}
			}
			walk(k.X, 0)
			walk(k.Y, 0)
			e.phiDeps[k] = deps
			e.ids[k] = len(e.ids)
		}
	}
}

func (e *FactEngine) canon(f Facts) string {
	parts := make([]string, 0, len(f))
	for k, v := range f {
		s := fmt.Sprintf("%d", e.ids[k])
		if v {
			s += "+"
		} else {
			s += "-"
		}
		parts = append(parts, s)
	}
	sort.Strings(parts)
	return strings.Join(parts, ",")
}

// AtBlock explores all feasible paths from the entry and calls visit with the
// facts held on entry to target (after killing facts that depend on target's
// own phis), once per distinct fact set. It returns false if the state bound
// was exceeded (undecided).
func (e *FactEngine) AtBlock(target *ssa.BasicBlock, visit func(f Facts)) bool {
	e.init()
	type st struct {
		b    *ssa.BasicBlock
		pred *ssa.BasicBlock
		f    Facts
		bind map[*ssa.Phi]ssa.Value // condition phis resolved along this path
	}
	canonBind := func(m map[*ssa.Phi]ssa.Value) string {
		if len(m) == 0 {
			return ""
		}
		parts := make([]string, 0, len(m))
		for p, v := range m {
			parts = append(parts, fmt.Sprintf("%s=%p", p.Name(), v))
		}
		sort.Strings(parts)
		return strings.Join(parts, ";")
	}
	seen := map[string]bool{}
	work := []st{{e.Fn.Blocks[0], nil, Facts{}, nil}}
	states := 0
	for len(work) > 0 {
		s := work[len(work)-1]
		work = work[:len(work)-1]
		// kill facts depending on this block's phis
		f := s.f
		bind := s.bind
		var phis []*ssa.Phi
		for _, in := range s.b.Instrs {
			if p, ok := in.(*ssa.Phi); ok {
				phis = append(phis, p)
			} else {
				break
			}
		}
		if len(phis) > 0 {
			nf := Facts{}
			for k, v := range f {
				dead := false
				for _, p := range phis {
					if e.phiDeps[k][p] {
						dead = true
						break
					}
				}
				if !dead {
					nf[k] = v
				}
			}
			f = nf
			// bind the condition phis of this block to the value of the edge we came along
			if s.pred != nil {
				idx := -1
				for i, p := range s.b.Preds {
					if p == s.pred {
						idx = i
					}
				}
				for _, p := range phis {
					if !e.condPhis[p] || idx < 0 || idx >= len(p.Edges) {
						continue
					}
					v := p.Edges[idx]
					if q, ok := v.(*ssa.Phi); ok {
						if bv, ok := bind[q]; ok {
							v = bv
						}
					}
					nb := make(map[*ssa.Phi]ssa.Value, len(bind)+1)
					for kk, vv := range bind {
						nb[kk] = vv
					}
					nb[p] = v
					bind = nb
				}
			}
		}
		key := fmt.Sprintf("%d|%s|%s", s.b.Index, e.canon(f), canonBind(bind))
		if seen[key] {
			continue
		}
		seen[key] = true
		states++
		if states > e.MaxStates {
			return false
		}
		if s.b == target {
			visit(f)
		}
		if len(s.b.Instrs) == 0 {
			continue
		}
		last := s.b.Instrs[len(s.b.Instrs)-1]
		if iff, ok := last.(*ssa.If); ok {
			cond := iff.Cond
			// a condition that is a resolved phi stands for the value it was bound to
			if v, neg := stripNot(cond); v != nil {
				if p, isPhi := v.(*ssa.Phi); isPhi {
					if bv, bound := bind[p]; bound {
						if c, isConst := bv.(*ssa.Const); isConst && c.Value != nil {
							truth := c.Value.String() == "true"
							if neg {
								truth = !truth
							}
							succ := s.b.Succs[1]
							if truth {
								succ = s.b.Succs[0]
							}
							work = append(work, st{succ, s.b, f, bind})
							continue
						}
						if _, stillPhi := bv.(*ssa.Phi); !stillPhi {
							k2, pos2 := NormCond(bv)
							if neg {
								pos2 = !pos2
							}
							if e.Track != nil && e.Track(k2) {
								e.track(k2)
							}
							if e.tracked[k2] {
								for i, succ := range s.b.Succs {
									truth := (i == 0) == pos2
									if old, ok := f[k2]; ok {
										if old != truth {
											continue
										}
										work = append(work, st{succ, s.b, f, bind})
										continue
									}
									nf := make(Facts, len(f)+1)
									for kk, vv := range f {
										nf[kk] = vv
									}
									nf[k2] = truth
									work = append(work, st{succ, s.b, nf, bind})
								}
								continue
							}
						}
					}
				}
			}
			k, pos := NormCond(cond)
			for i, succ := range s.b.Succs {
				truth := (i == 0) == pos // value of key on this edge
				if !e.tracked[k] {
					work = append(work, st{succ, s.b, f, bind})
					continue
				}
				if old, ok := f[k]; ok {
					if old != truth {
						continue // infeasible
					}
					work = append(work, st{succ, s.b, f, bind})
					continue
				}
				nf := make(Facts, len(f)+1)
				for kk, vv := range f {
					nf[kk] = vv
				}
				nf[k] = truth
				work = append(work, st{succ, s.b, nf, bind})
			}
			continue
		}
		for _, succ := range s.b.Succs {
			work = append(work, st{succ, s.b, f, bind})
		}
	}
	return true
}
