package an

import (
	"go/token"
	"go/types"
	"sort"

	"golang.org/x/tools/go/callgraph"
	"golang.org/x/tools/go/ssa"
)

// Reach computes the functions reachable from roots in graph g. follow, if
// non-nil, decides whether an edge is followed. The result maps each reached
// function to the edge through which it was first reached (nil for roots).
func ReachFuncs(g *callgraph.Graph, roots []*ssa.Function, follow func(e *callgraph.Edge) bool) map[*ssa.Function]*callgraph.Edge {
	out := map[*ssa.Function]*callgraph.Edge{}
	var work []*ssa.Function
	for _, r := range roots {
		if r == nil {
			continue
		}
		if _, ok := out[r]; !ok {
			out[r] = nil
			work = append(work, r)
		}
	}
	for len(work) > 0 {
		f := work[0]
		work = work[1:]
		n := g.Nodes[f]
		if n == nil {
			continue
		}
		// deterministic order
		edges := append([]*callgraph.Edge(nil), n.Out...)
		sort.SliceStable(edges, func(i, j int) bool {
			pi, pj := token.NoPos, token.NoPos
			if edges[i].Site != nil {
				pi = edges[i].Site.Pos()
			}
			if edges[j].Site != nil {
				pj = edges[j].Site.Pos()
			}
			return pi < pj
		})
		for _, e := range edges {
			c := e.Callee.Func
			if c == nil {
				continue
			}
			if follow != nil && !follow(e) {
				continue
			}
			if _, ok := out[c]; ok {
				continue
			}
			out[c] = e
			work = append(work, c)
		}
	}
	return out
}

// PathTo renders the call chain by which f was reached.
func PathTo(reached map[*ssa.Function]*callgraph.Edge, f *ssa.Function) string {
	var parts []string
	for i := 0; f != nil && i < 64; i++ {
		parts = append([]string{SSAName(f)}, parts...)
		e := reached[f]
		if e == nil {
			break
		}
		f = e.Caller.Func
	}
	s := ""
	for i, p := range parts {
		if i > 0 {
			s += " -> "
		}
		s += p
	}
	return s
}

// SSAName is a short stable name of an SSA function; closures are named by
// their enclosing function plus index ("index.(*Builder).Finish$1").
func SSAName(f *ssa.Function) string {
	if f == nil {
		return "<nil>"
	}
	if f.Parent() != nil {
		return SSAName(f.Parent()) + "$" + anonIndex(f)
	}
	if obj, ok := f.Object().(*types.Func); ok && obj != nil {
		return FuncName(obj)
	}
	return f.String()
}

func anonIndex(f *ssa.Function) string {
	for i, a := range f.Parent().AnonFuncs {
		if a == f {
			return itoa(i + 1)
		}
	}
	return "?"
}

func itoa(i int) string {
	if i == 0 {
		return "0"
	}
	s := ""
	for i > 0 {
		s = string(rune('0'+i%10)) + s
		i /= 10
	}
	return s
}

// StaticCallee returns the *types.Func statically called by a call
// instruction (function, or concrete method), nil for dynamic calls.
func StaticCallee(c ssa.CallInstruction) *types.Func {
	if f := c.Common().StaticCallee(); f != nil {
		for f.Origin() != nil && f.Origin() != f {
			f = f.Origin()
		}
		if obj, ok := f.Object().(*types.Func); ok {
			return obj
		}
	}
	return nil
}

// InvokedMethod returns the interface method of an invoke-mode call.
func InvokedMethod(c ssa.CallInstruction) *types.Func {
	if c.Common().IsInvoke() {
		return c.Common().Method
	}
	return nil
}

// CalleeAny returns the static callee or the invoked interface method.
func CalleeAny(c ssa.CallInstruction) *types.Func {
	if f := StaticCallee(c); f != nil {
		return f
	}
	return InvokedMethod(c)
}

// IsPkgFunc reports whether fn is path.name (methods: "T.name").
func IsPkgFunc(fn *types.Func, path string, names ...string) bool {
	if fn == nil || fn.Pkg() == nil || fn.Pkg().Path() != path {
		return false
	}
	n := fn.Name()
	if sig, ok := fn.Type().(*types.Signature); ok && sig.Recv() != nil {
		if nt := NamedOf(sig.Recv().Type()); nt != nil {
			n = nt.Obj().Name() + "." + n
		}
	}
	for _, x := range names {
		if x == n {
			return true
		}
	}
	return false
}

// Instrs iterates over all instructions of f.
func Instrs(f *ssa.Function, fn func(b *ssa.BasicBlock, i ssa.Instruction)) {
	for _, b := range f.Blocks {
		for _, in := range b.Instrs {
			fn(b, in)
		}
	}
}
