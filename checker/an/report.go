package an

import (
	"encoding/json"
	"fmt"
	"go/token"
	"os"
	"path/filepath"
	"sort"
	"strings"
	"time"
)

type Status string

const (
	Discharged Status = "discharged"
	Violated   Status = "violated"
	Undecided  Status = "undecided"
)

// Ob is one obligation: a construct a rule quantifies over and its verdict.
type Ob struct {
	Rule      string `json:"rule"`
	Construct string `json:"construct"` // stable key: names, never line numbers
	At        string `json:"at"`
	Status    Status `json:"status"`
	Detail    string `json:"detail,omitempty"`
	Config    string `json:"config,omitempty"`
	Known     bool   `json:"known_finding,omitempty"`
}

type Floor struct {
	Min   int `json:"min"`
	Found int `json:"found"`
}

// R collects the result of checking one property on one configuration.
type R struct {
	P           *Prog
	Prop        string
	Obs         []Ob
	Floors      map[string]Floor
	Controls    []string
	Assumptions []string
	Exceptions  []string
	Explanation string
	Rules       map[string]string // rule id -> one-line statement
	Funcs       map[string]bool   // functions analysed
	Extra       map[string]any
}

func NewR(p *Prog, prop string) *R {
	return &R{P: p, Prop: prop, Floors: map[string]Floor{}, Rules: map[string]string{}, Funcs: map[string]bool{}, Extra: map[string]any{}}
}

func (r *R) Rule(id, text string) { r.Rules[id] = text }

func (r *R) add(rule, construct string, pos token.Pos, st Status, detail string) {
	at := "-"
	if r.P != nil {
		at = r.P.Pos(pos)
	}
	r.Obs = append(r.Obs, Ob{Rule: rule, Construct: construct, At: at, Status: st, Detail: detail})
}

func (r *R) OK(rule, construct string, pos token.Pos, detail string) {
	r.add(rule, construct, pos, Discharged, detail)
}
func (r *R) Bad(rule, construct string, pos token.Pos, detail string) {
	r.add(rule, construct, pos, Violated, detail)
}
func (r *R) Und(rule, construct string, pos token.Pos, detail string) {
	r.add(rule, construct, pos, Undecided, detail)
}

// Check records Discharged when ok, Violated otherwise.
func (r *R) Check(ok bool, rule, construct string, pos token.Pos, okDetail, badDetail string) bool {
	if ok {
		r.OK(rule, construct, pos, okDetail)
	} else {
		r.Bad(rule, construct, pos, badDetail)
	}
	return ok
}

// Anchor fails the run as undecided when something the rules need is missing.
func (r *R) Anchor(ok bool, what string) bool {
	if !ok {
		r.Und("anchor", what, token.NoPos, "anchor does not resolve in the current tree: the rule cannot be evaluated")
	}
	return ok
}

func (r *R) Floor(name string, min, found int) {
	r.Floors[name] = Floor{min, found}
}

func (r *R) Control(name string, fired bool) {
	if fired {
		r.Controls = append(r.Controls, name)
	} else {
		r.Und("control", name, token.NoPos, "positive control did not fire: the rule is not looking at what it should")
	}
}

func (r *R) Assume(s string) { r.Assumptions = append(r.Assumptions, s) }
func (r *R) Except(symbol, reason string) {
	r.Exceptions = append(r.Exceptions, symbol+": "+reason)
}
func (r *R) Fn(name string) { r.Funcs[name] = true }

// ---- known findings --------------------------------------------------------

type Finding struct {
	Property  string `json:"property"`
	Rule      string `json:"rule"`
	Construct string `json:"construct"`
	Status    string `json:"status"` // "known" | "fixed"
	Commit    string `json:"commit,omitempty"`
	What      string `json:"what"`
}

func LoadFindings(path string) ([]Finding, error) {
	b, err := os.ReadFile(path)
	if err != nil {
		if os.IsNotExist(err) {
			return nil, nil
		}
		return nil, err
	}
	var f struct {
		Findings []Finding `json:"findings"`
	}
	if err := json.Unmarshal(b, &f); err != nil {
		return nil, err
	}
	return f.Findings, nil
}

// ---- finishing -------------------------------------------------------------

type Summary struct {
	Violations int
	Known      int
	Undecided  int
}

// Finish merges per-configuration results, matches known findings, prints
// report lines, writes evidence and the replay file. Returns the exit code.
func Finish(prop, tier string, seed int, rs []*R, findings []Finding, verifDir string, start time.Time, extra map[string]any) int {
	var obs []Ob
	floors := map[string]Floor{}
	var controls, exceptions []string
	assumptions := []string{"the Go type checker and go/ssa, go/cfg, callgraph (golang.org/x/tools v0.29.0) represent the program faithfully", "the hand-confirmed tables in checker/props (exceptions, sinks, sources) are right for the pinned tree; floors re-validate them on every run"}
	rules := map[string]string{}
	funcs := map[string]bool{}
	expl := ""
	pkgs := 0
	var configs []string
	seenOb := map[string]int{}
	for _, r := range rs {
		cfgName := "linux/amd64"
		if r.P != nil && r.P.GOARCH != "" {
			cfgName = "linux/" + r.P.GOARCH
		}
		configs = append(configs, cfgName)
		if r.P != nil && len(r.P.Roots) > pkgs {
			pkgs = len(r.P.Roots)
		}
		for _, o := range r.Obs {
			o.Config = cfgName
			k := o.Rule + "|" + o.Construct + "|" + string(o.Status)
			if _, dup := seenOb[k]; dup && len(rs) > 1 {
				// same verdict in a second configuration: counted once, noted
				obs[seenOb[k]].Config += "," + cfgName
				continue
			}
			seenOb[k] = len(obs)
			obs = append(obs, o)
		}
		for k, f := range r.Floors {
			if old, ok := floors[k]; !ok || f.Found < old.Found {
				floors[k] = f
			}
		}
		controls = appendUniq(controls, r.Controls...)
		assumptions = appendUniq(assumptions, r.Assumptions...)
		exceptions = appendUniq(exceptions, r.Exceptions...)
		for k, v := range r.Rules {
			rules[k] = v
		}
		for k := range r.Funcs {
			funcs[k] = true
		}
		if r.Explanation != "" {
			expl = r.Explanation
		}
		for k, v := range r.Extra {
			if extra == nil {
				extra = map[string]any{}
			}
			extra[k] = v
		}
	}
	for k, f := range floors {
		if f.Found < f.Min {
			obs = append(obs, Ob{Rule: "floor", Construct: k, At: "-", Status: Undecided,
				Detail: fmt.Sprintf("found %d instances, hand-confirmed minimum is %d: the rule is matching less than it did when it was armed", f.Found, f.Min)})
		}
	}
	known := map[string]Finding{}
	for _, f := range findings {
		if f.Property == prop && f.Status == "known" {
			known[f.Rule+"|"+f.Construct] = f
		}
	}
	var sum Summary
	matched := map[string]bool{}
	var bad []Ob
	for i := range obs {
		o := &obs[i]
		switch o.Status {
		case Violated:
			k := o.Rule + "|" + o.Construct
			if f, ok := known[k]; ok {
				o.Known = true
				if !matched[k] {
					fmt.Printf("KNOWN-FINDING: property=%s %s %s (%s) %s\n", prop, o.Rule, o.Construct, o.At, f.What)
				}
				matched[k] = true
				sum.Known++
			} else {
				sum.Violations++
				bad = append(bad, *o)
			}
		case Undecided:
			sum.Undecided++
			bad = append(bad, *o)
		}
	}
	// a listed known finding that no longer reproduces is only noted
	var stale []string
	for k := range known {
		if !matched[k] {
			stale = append(stale, k)
		}
	}
	sort.Strings(stale)
	for _, k := range stale {
		fmt.Printf("note: known finding %s no longer reproduces on this tree\n", k)
	}

	discharged := 0
	distinct := map[string]bool{}
	for _, o := range obs {
		if o.Status == Discharged || o.Known {
			discharged++
		}
		distinct[o.Rule+"|"+o.Construct] = true
	}
	// samples: a few of each rule, violated ones first
	var samples []Ob
	perRule := map[string]int{}
	for _, o := range bad {
		if len(samples) < 40 {
			samples = append(samples, o)
		}
	}
	for _, o := range obs {
		if o.Status == Violated && o.Known {
			samples = append(samples, o)
		}
	}
	for _, o := range obs {
		if o.Status == Discharged && perRule[o.Rule] < 3 {
			perRule[o.Rule]++
			samples = append(samples, o)
		}
	}
	fnList := make([]string, 0, len(funcs))
	for k := range funcs {
		fnList = append(fnList, k)
	}
	sort.Strings(fnList)
	ruleIDs := make([]string, 0, len(rules))
	for k := range rules {
		ruleIDs = append(ruleIDs, k)
	}
	sort.Strings(ruleIDs)
	ruleTexts := map[string]string{}
	for _, k := range ruleIDs {
		ruleTexts[k] = rules[k]
	}

	cov := map[string]any{
		"explanation":         expl,
		"configurations":      configs,
		"packages":            pkgs,
		"functions_analysed":  len(fnList),
		"functions":           fnList,
		"rules":               ruleTexts,
		"obligations":         len(obs),
		"discharged":          discharged,
		"undecided":           sum.Undecided,
		"violated_unlisted":   sum.Violations,
		"known_findings":      sum.Known,
		"floors":              floors,
		"controls_fired":      controls,
		"exceptions":          exceptions,
		"evaluations":         len(obs),
		"distinct_nontrivial": len(distinct),
		"rule":                "one obligation per (rule, construct) found in /repo's current source; distinct = distinct (rule, construct) keys; every one required inspecting a path, a set or a table of the resolved program",
		"samples":             samples,
		"exhaustive":          true,
		"checker_cmd":         strings.Join(os.Args, " "),
	}
	for k, v := range extra {
		cov[k] = v
	}
	ev := map[string]any{
		"property_id": prop,
		"tier":        tier,
		"seed":        seed,
		"level":       "other",
		"coverage":    cov,
		"assumptions": assumptions,
		"wall_s":      time.Since(start).Seconds(),
		"violations":  sum.Violations + sum.Undecided,
	}
	evDir := filepath.Join(verifDir, "evidence")
	os.MkdirAll(evDir, 0o755)
	writeJSON(filepath.Join(evDir, prop+".json"), ev)

	fmt.Printf("%s tier=%s configs=%v obligations=%d discharged=%d known=%d violated=%d undecided=%d functions=%d wall=%.1fs\n",
		prop, tier, configs, len(obs), discharged, sum.Known, sum.Violations, sum.Undecided, len(fnList), time.Since(start).Seconds())
	if len(bad) > 0 {
		replay := filepath.Join(evDir, prop+".replay.json")
		writeJSON(replay, map[string]any{"property": prop, "failed_obligations": bad})
		for _, o := range bad {
			fmt.Printf("  %s %s %s at %s [%s]: %s\n", strings.ToUpper(string(o.Status)), o.Rule, o.Construct, o.At, o.Config, o.Detail)
		}
		fmt.Printf("VIOLATION property=%s replay=%s\n", prop, replay)
		return 1
	}
	os.Remove(filepath.Join(evDir, prop+".replay.json")) // a replay file of an earlier failing run would be stale now
	return 0
}

func writeJSON(path string, v any) {
	b, err := json.MarshalIndent(v, "", " ")
	if err != nil {
		panic(err)
	}
	if err := os.WriteFile(path, append(b, '\n'), 0o644); err != nil {
		panic(err)
	}
}

func appendUniq(dst []string, src ...string) []string {
	for _, s := range src {
		found := false
		for _, d := range dst {
			if d == s {
				found = true
				break
			}
		}
		if !found {
			dst = append(dst, s)
		}
	}
	return dst
}
