package an

import (
	"go/ast"
	"go/token"
	"go/types"
	"strings"
)

// FieldUse summarises how the fields of struct type T are used inside a
// function body (nested function literals included).
type FieldUse struct {
	Read    map[string]token.Pos // selected as an rvalue, or read through a GetX getter
	Written map[string]token.Pos // assigned through a selector, or set in a composite literal of T
	AllSet  bool                 // an unkeyed composite literal or whole-struct copy of T was seen
}

func fieldOwner(f *types.Var, T types.Type) bool {
	for _, x := range StructFields(T) {
		if x == f {
			return true
		}
	}
	return false
}

// FieldUses scans body for uses of the fields of T (a struct type or pointer to one).
func FieldUses(info *types.Info, body ast.Node, T types.Type) *FieldUse {
	u := &FieldUse{Read: map[string]token.Pos{}, Written: map[string]token.Pos{}}
	st := Deref(T)
	lhs := map[ast.Expr]bool{}
	ast.Inspect(body, func(n ast.Node) bool {
		switch x := n.(type) {
		case *ast.AssignStmt:
			for _, l := range x.Lhs {
				lhs[ast.Unparen(l)] = true
			}
		case *ast.IncDecStmt:
			// both read and written
		}
		return true
	})
	ast.Inspect(body, func(n ast.Node) bool {
		switch x := n.(type) {
		case *ast.SelectorExpr:
			sel := info.Selections[x]
			if sel == nil {
				return true
			}
			switch sel.Kind() {
			case types.FieldVal:
				f, _ := sel.Obj().(*types.Var)
				if f != nil && fieldOwner(f, st) {
					if lhs[x] {
						u.Written[f.Name()] = x.Pos()
					} else {
						u.Read[f.Name()] = x.Pos()
					}
				}
			case types.MethodVal:
				m, _ := sel.Obj().(*types.Func)
				if m != nil && strings.HasPrefix(m.Name(), "Get") {
					if nt := NamedOf(sel.Recv()); nt != nil && types.Identical(nt, NamedOf(st)) {
						u.Read[strings.TrimPrefix(m.Name(), "Get")] = x.Pos()
					}
				}
			}
		case *ast.CompositeLit:
			t := info.TypeOf(x)
			if t == nil || !types.Identical(Deref(t), st) {
				return true
			}
			keyed := false
			for _, e := range x.Elts {
				if kv, ok := e.(*ast.KeyValueExpr); ok {
					keyed = true
					if id, ok := kv.Key.(*ast.Ident); ok {
						u.Written[id.Name] = kv.Pos()
					}
				}
			}
			if !keyed && len(x.Elts) > 0 {
				u.AllSet = true
			}
		case *ast.StarExpr:
			// `c := *x` whole-struct copy of a T value
			if t := info.TypeOf(x); t != nil && types.Identical(t, st) && !lhs[x] {
				if _, isStruct := st.Underlying().(*types.Struct); isStruct {
					u.AllSet = true
				}
			}
		}
		return true
	})
	return u
}

// ExportedFields lists exported field names of a struct type.
func ExportedFields(T types.Type) []string {
	var out []string
	for _, f := range StructFields(T) {
		if f.Exported() {
			out = append(out, f.Name())
		}
	}
	return out
}

// IsProtoMessage reports whether t (or *t) is a generated protobuf message
// struct (it has the unexported "state" field of type protoimpl.MessageState).
func IsProtoMessage(t types.Type) bool {
	for _, f := range StructFields(t) {
		if f.Name() == "state" && strings.HasSuffix(f.Type().String(), "MessageState") {
			return true
		}
	}
	return false
}
