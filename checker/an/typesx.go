package an

import (
	"go/ast"
	"go/constant"
	"go/types"
	"sort"
	"strings"
)

// Implementers lists, for every named non-interface type declared in tp, the
// form (T or *T) that implements iface.
func Implementers(tp *types.Package, iface *types.Interface) []types.Type {
	var out []types.Type
	names := tp.Scope().Names()
	sort.Strings(names)
	for _, n := range names {
		tn, ok := tp.Scope().Lookup(n).(*types.TypeName)
		if !ok || tn.IsAlias() {
			continue
		}
		T := tn.Type()
		if _, isI := T.Underlying().(*types.Interface); isI {
			continue
		}
		if nt, ok := T.(*types.Named); ok && nt.TypeParams().Len() > 0 {
			continue
		}
		if types.Implements(T, iface) {
			out = append(out, T)
		} else if types.Implements(types.NewPointer(T), iface) {
			out = append(out, types.NewPointer(T))
		}
	}
	return out
}

// TypeName renders a type relative to the zoekt module ("*query.And").
func TypeName(t types.Type) string {
	return types.TypeString(t, func(p *types.Package) string {
		if p.Path() == Mod {
			return "zoekt"
		}
		s := strings.TrimPrefix(p.Path(), Mod+"/")
		if i := strings.LastIndex(s, "/"); i >= 0 && !strings.HasPrefix(p.Path(), Mod) {
			return s[i+1:]
		}
		return s
	})
}

// TypeSwitch describes one type switch statement.
type TypeSwitch struct {
	Stmt       *ast.TypeSwitchStmt
	Tag        ast.Expr // the x of x.(type)
	Cases      []types.Type
	CaseOf     map[string]*ast.CaseClause // by TypeName
	HasNil     bool
	Default    *ast.CaseClause
	AllClauses []*ast.CaseClause
}

func TypeSwitches(info *types.Info, n ast.Node) []*TypeSwitch {
	var out []*TypeSwitch
	Inspect(n, true, func(m ast.Node) bool {
		ts, ok := m.(*ast.TypeSwitchStmt)
		if !ok {
			return true
		}
		sw := &TypeSwitch{Stmt: ts, CaseOf: map[string]*ast.CaseClause{}}
		var ta *ast.TypeAssertExpr
		switch a := ts.Assign.(type) {
		case *ast.AssignStmt:
			ta, _ = ast.Unparen(a.Rhs[0]).(*ast.TypeAssertExpr)
		case *ast.ExprStmt:
			ta, _ = ast.Unparen(a.X).(*ast.TypeAssertExpr)
		}
		if ta != nil {
			sw.Tag = ta.X
		}
		for _, c := range ts.Body.List {
			cc := c.(*ast.CaseClause)
			sw.AllClauses = append(sw.AllClauses, cc)
			if cc.List == nil {
				sw.Default = cc
				continue
			}
			for _, e := range cc.List {
				tv := info.Types[e]
				if tv.IsNil() {
					sw.HasNil = true
					continue
				}
				if tv.Type != nil {
					sw.Cases = append(sw.Cases, tv.Type)
					sw.CaseOf[TypeName(tv.Type)] = cc
				}
			}
		}
		out = append(out, sw)
		return true
	})
	return out
}

// UsesObj reports whether expression e is (after parens) an identifier bound
// to obj.
func UsesObj(info *types.Info, e ast.Expr, obj types.Object) bool {
	id, ok := ast.Unparen(e).(*ast.Ident)
	return ok && obj != nil && (info.Uses[id] == obj || info.Defs[id] == obj)
}

// Param returns the i-th parameter object of a declaration.
func Param(info *types.Info, fd *ast.FuncDecl, i int) *types.Var {
	k := 0
	for _, f := range fd.Type.Params.List {
		for _, n := range f.Names {
			if k == i {
				v, _ := info.Defs[n].(*types.Var)
				return v
			}
			k++
		}
		if len(f.Names) == 0 {
			k++
		}
	}
	return nil
}

// StringConst returns the constant string value of e, if any.
func StringConst(info *types.Info, e ast.Expr) (string, bool) {
	tv, ok := info.Types[e]
	if !ok || tv.Value == nil || tv.Value.Kind() != constant.String {
		return "", false
	}
	return constant.StringVal(tv.Value), true
}

// ClausePanics reports whether the statements of a clause end in a no-return
// call (panic, log.Panicf, log.Fatal...).
func ClausePanics(info *types.Info, body []ast.Stmt) bool {
	if len(body) == 0 {
		return false
	}
	last := body[len(body)-1]
	if es, ok := last.(*ast.ExprStmt); ok {
		if c, ok := es.X.(*ast.CallExpr); ok {
			return noReturn(info, c)
		}
	}
	return false
}

// NoReturn exposes the no-return classification.
func NoReturn(info *types.Info, c *ast.CallExpr) bool { return noReturn(info, c) }

// Deref strips one pointer.
func Deref(t types.Type) types.Type {
	if p, ok := t.Underlying().(*types.Pointer); ok {
		return p.Elem()
	}
	return t
}

// NamedOf returns the named type behind t or *t.
func NamedOf(t types.Type) *types.Named {
	if t == nil {
		return nil
	}
	n, _ := types.Unalias(Deref(t)).(*types.Named)
	if n == nil {
		n, _ = types.Unalias(t).(*types.Named)
	}
	return n
}

// StructFields lists the field objects of a struct type.
func StructFields(t types.Type) []*types.Var {
	s, ok := Deref(t).Underlying().(*types.Struct)
	if !ok {
		return nil
	}
	var out []*types.Var
	for i := 0; i < s.NumFields(); i++ {
		out = append(out, s.Field(i))
	}
	return out
}
