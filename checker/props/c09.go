package props

import (
	"fmt"
	"go/ast"
	"go/token"
	"go/types"
	"sort"
	"strings"

	"golang.org/x/tools/go/ssa"

	"zverif/checker/an"
)

func init() { register("C09", c09) }

// encoder -> decoder pairs of the shard format
var c09Codecs = map[string]string{
	"toSizedDeltas":      "fromSizedDeltas",
	"toSizedDeltas16":    "fromSizedDeltas16",
	"marshalDocSections": "unmarshalDocSections",
	"U32":                "readSectionU32",
	"U64":                "readSectionU64",
	"writeUint32Bitmap":  "roaring",
	"json.Marshal":       "json.Unmarshal",
}

func c09(p *an.Prog, r *an.R, tier string) {
	r.Explanation = "C09 (structural clauses): the shard writer's and reader's section tables agree: every indexTOC section that ShardBuilder.Write fills is listed (once, under one tag) in the tagged section list that is written and read; every section the readers consume is one that Write produces; for every section whose encoder and decoder are visible, they are an inverse pair; every SkipReason has its own explanation; Write cannot report success without its final buffered flush having succeeded. (R6) map memos of ShardBuilder derived from another builder field are reset wherever that field is stored. Does NOT decide that bytes round-trip (delta coding, b-tree arithmetic, rune-offset sampling)."
	r.Rule("C09.R1", "sections filled by ShardBuilder.Write ⊆ sections listed in indexTOC.sectionsTaggedList; tags and section addresses are unique")
	r.Rule("C09.R2", "sections read by the reader functions of package index ⊆ sections filled by Write (legacy table: empty)")
	r.Rule("C09.R3", "per section: the set of encoder functions on the writer side and decoder functions on the reader side are inverse pairs (toSizedDeltas/fromSizedDeltas, toSizedDeltas16/fromSizedDeltas16, marshalDocSections/unmarshalDocSections, U32/readSectionU32, U64/readSectionU64, json)")
	r.Rule("C09.R4", "SkipReason.explanation has a case for every SkipReason constant and every non-None reason has a distinct non-empty explanation")
	r.Rule("C09.R5", "ShardBuilder.Write: no error of a call is discarded (in particular the buffered writer's Flush) and every success-capable return is preceded by a checked Flush")
	idx := p.Pkg("index")
	tocT := p.Named("index", "indexTOC")
	write := p.Func("index", "(*ShardBuilder).Write")
	wd := p.Decl(write)
	tl := p.Decl(p.Func("index", "(*indexTOC).sectionsTaggedList"))
	if !r.Anchor(idx != nil && tocT != nil && wd != nil && tl != nil, "index.indexTOC / ShardBuilder.Write / sectionsTaggedList") {
		return
	}
	info := idx.TypesInfo
	tocField := func(e ast.Expr) *types.Var {
		// toc.X or t.X where the base has type indexTOC / *indexTOC; also toc.X.data etc. -> X
		for {
			se, ok := ast.Unparen(e).(*ast.SelectorExpr)
			if !ok {
				return nil
			}
			sel := info.Selections[se]
			if sel != nil && sel.Kind() == types.FieldVal {
				if bt := info.TypeOf(se.X); bt != nil && an.NamedOf(bt) == tocT {
					f, _ := sel.Obj().(*types.Var)
					return f
				}
			}
			e = se.X
		}
	}

	// ---- tagged list
	tagged := map[string]string{} // field -> tag
	tags := map[string]int{}
	ast.Inspect(tl.Decl.Body, func(n ast.Node) bool {
		cl, ok := n.(*ast.CompositeLit)
		if !ok || len(cl.Elts) != 2 {
			return true
		}
		tag, ok := an.StringConst(info, cl.Elts[0])
		if !ok {
			return true
		}
		tags[tag]++
		if u, ok := ast.Unparen(cl.Elts[1]).(*ast.UnaryExpr); ok && u.Op == token.AND {
			if f := tocField(u.X); f != nil {
				if old, dup := tagged[f.Name()]; dup {
					r.Bad("C09.R1", "index.(*indexTOC).sectionsTaggedList/section-listed-twice/"+f.Name(), cl.Pos(), "section "+f.Name()+" is listed under two tags ("+old+", "+tag+"): the reader fills it twice")
				}
				tagged[f.Name()] = tag
			}
		}
		return true
	})
	for t, n := range tags {
		r.Check(n == 1, "C09.R1", "index.(*indexTOC).sectionsTaggedList/tag-unique/"+t, tl.Decl.Pos(), "tag is unique", "tag "+t+" is used for two sections: the second overwrites the first when the TOC is read")
	}
	r.Floor("C09.R1.tagged-sections", 24, len(tagged))

	// ---- writer side
	type secUse struct {
		enc map[string]bool
		pos token.Pos
	}
	written := map[string]*secUse{}
	note := func(name string, pos token.Pos) *secUse {
		if written[name] == nil {
			written[name] = &secUse{enc: map[string]bool{}, pos: pos}
		}
		return written[name]
	}
	encName := func(inf *types.Info, c *ast.CallExpr) string {
		cal := an.Callee(inf, c)
		if cal == nil {
			return ""
		}
		n := cal.Name()
		if cal.Pkg() != nil && cal.Pkg().Path() == "encoding/json" && n == "Marshal" {
			return "json.Marshal"
		}
		if _, ok := c09Codecs[n]; ok && an.InModule(cal.Pkg()) {
			return n
		}
		return ""
	}
	// analyse a writer body where `who(expr)` maps an expression to a section name
	var writerBody func(d *an.DeclInfo, who func(e ast.Expr) string, depth int)
	writerBody = func(d *an.DeclInfo, who func(e ast.Expr) string, depth int) {
		inf := d.Pkg.TypesInfo
		r.Fn(an.FuncName(inf.Defs[d.Decl.Name].(*types.Func)))
		type span struct {
			name       string
			start, end token.Pos
		}
		var spans []span
		open := map[string]token.Pos{}
		ast.Inspect(d.Decl.Body, func(n ast.Node) bool {
			c, ok := n.(*ast.CallExpr)
			if !ok {
				return true
			}
			if se, ok := ast.Unparen(c.Fun).(*ast.SelectorExpr); ok {
				if name := who(se.X); name != "" {
					u := note(name, c.Pos())
					switch se.Sel.Name {
					case "start":
						open[name] = c.Pos()
					case "end":
						spans = append(spans, span{name, open[name], c.End()})
					case "addItem":
						for _, a := range c.Args {
							ast.Inspect(a, func(m ast.Node) bool {
								if cc, ok := m.(*ast.CallExpr); ok {
									if e := encName(inf, cc); e != "" {
										u.enc[e] = true
									}
								}
								return true
							})
						}
					}
				}
			}
			// &toc.X (or a section parameter) passed on to another writer function
			if cal := an.Callee(inf, c); cal != nil && an.InModule(cal.Pkg()) && depth < 2 {
				if cd := p.Decl(cal); cd != nil && cd.Decl.Body != nil {
					bind := map[types.Object]string{}
					for i, a := range c.Args {
						e := a
						if u, ok := ast.Unparen(a).(*ast.UnaryExpr); ok && u.Op == token.AND {
							e = u.X
						}
						if name := who(e); name != "" {
							note(name, c.Pos())
							if pv := an.Param(cd.Pkg.TypesInfo, cd.Decl, i); pv != nil {
								bind[pv] = name
							}
						}
					}
					if len(bind) > 0 {
						ci := cd.Pkg.TypesInfo
						writerBody(cd, func(e ast.Expr) string {
							if id, ok := ast.Unparen(e).(*ast.Ident); ok {
								return bind[ci.ObjectOf(id)]
							}
							return ""
						}, depth+1)
					}
				}
			}
			return true
		})
		// encoders called between start and end of a section
		ast.Inspect(d.Decl.Body, func(n ast.Node) bool {
			c, ok := n.(*ast.CallExpr)
			if !ok {
				return true
			}
			e := encName(inf, c)
			if e == "" {
				return true
			}
			for _, s := range spans {
				if s.start.IsValid() && s.start <= c.Pos() && c.End() <= s.end {
					written[s.name].enc[e] = true
				}
			}
			return true
		})
	}
	writerBody(wd, func(e ast.Expr) string {
		if f := tocField(e); f != nil {
			return f.Name()
		}
		return ""
	}, 0)
	// writeJSON helper marshals with encoding/json
	for name, u := range written {
		_ = name
		_ = u
	}
	r.Floor("C09.R1.written-sections", 24, len(written))
	var wnames []string
	for n := range written {
		wnames = append(wnames, n)
	}
	sort.Strings(wnames)
	for _, n := range wnames {
		_, ok := tagged[n]
		r.Check(ok, "C09.R1", "index.(*ShardBuilder).Write/section-in-tagged-list/"+n, written[n].pos, "written section is listed in sectionsTaggedList (tag "+tagged[n]+")",
			"Write fills section "+n+" but sectionsTaggedList does not list it: the section is never written to the TOC, so every reader sees it empty")
	}

	// ---- reader side
	readerSkip := map[string]bool{
		"(*ShardBuilder).Write": true, "(*indexTOC).sections": true, "(*indexTOC).sectionsNext": true,
		"(*indexTOC).sectionsTagged": true, "(*indexTOC).sectionsTaggedList": true, "(*indexTOC).sectionsTaggedCompatibilityList": true,
	}
	decName := func(inf *types.Info, c *ast.CallExpr) string {
		cal := an.Callee(inf, c)
		if cal == nil || cal.Pkg() == nil {
			return ""
		}
		n := cal.Name()
		if cal.Pkg().Path() == "encoding/json" && n == "Unmarshal" {
			return "json.Unmarshal"
		}
		if strings.Contains(cal.Pkg().Path(), "roaring") {
			return "roaring"
		}
		for _, d := range c09Codecs {
			if d == n && an.InModule(cal.Pkg()) {
				return n
			}
		}
		return ""
	}
	type rdUse struct {
		dec map[string]bool
		pos token.Pos
		fn  string
	}
	read := map[string]*rdUse{}
	var readerBody func(d *an.DeclInfo, who func(e ast.Expr) string, depth int)
	readerBody = func(d *an.DeclInfo, who func(e ast.Expr) string, depth int) {
		inf := d.Pkg.TypesInfo
		fname := an.FuncName(inf.Defs[d.Decl.Name].(*types.Func))
		noteR := func(name string, pos token.Pos) *rdUse {
			if read[name] == nil {
				read[name] = &rdUse{dec: map[string]bool{}, pos: pos, fn: fname}
			}
			return read[name]
		}
		// variables holding the raw bytes of a section: v -> section
		holds := map[types.Object][]string{}
		var rangeSecs func(rs *ast.RangeStmt) []string
		rangeSecs = func(rs *ast.RangeStmt) []string {
			cl, ok := ast.Unparen(rs.X).(*ast.CompositeLit)
			if !ok {
				return nil
			}
			var out []string
			for _, e := range cl.Elts {
				if kv, ok := e.(*ast.KeyValueExpr); ok {
					if name := who(kv.Key); name != "" {
						out = append(out, name)
					}
				}
			}
			return out
		}
		ast.Inspect(d.Decl.Body, func(n ast.Node) bool {
			switch x := n.(type) {
			case *ast.RangeStmt:
				secs := rangeSecs(x)
				if len(secs) == 0 {
					return true
				}
				for _, s := range secs {
					u := noteR(s, x.Pos())
					ast.Inspect(x.Body, func(m ast.Node) bool {
						if c, ok := m.(*ast.CallExpr); ok {
							if dn := decName(inf, c); dn != "" {
								u.dec[dn] = true
							}
						}
						return true
					})
				}
			case *ast.AssignStmt:
				// blob, err := d.readSectionBlob(toc.X)
				if len(x.Rhs) == 1 {
					if c, ok := ast.Unparen(x.Rhs[0]).(*ast.CallExpr); ok {
						for _, a := range c.Args {
							if name := who(a); name != "" {
								if id, ok := x.Lhs[0].(*ast.Ident); ok {
									if o := inf.ObjectOf(id); o != nil {
										holds[o] = append(holds[o], name)
									}
								}
							}
						}
					}
				}
			}
			return true
		})
		ast.Inspect(d.Decl.Body, func(n ast.Node) bool {
			switch x := n.(type) {
			case *ast.SelectorExpr:
				if name := who(x); name != "" {
					noteR(name, x.Pos())
				}
			case *ast.Ident:
				if name := who(x); name != "" {
					noteR(name, x.Pos())
				}
			case *ast.CallExpr:
				dn := decName(inf, x)
				for i, a := range x.Args {
					if name := who(a); name != "" {
						u := noteR(name, x.Pos())
						if dn != "" {
							u.dec[dn] = true
						}
						if cal := an.Callee(inf, x); cal != nil && an.InModule(cal.Pkg()) && depth < 2 && dn == "" {
							if cd := p.Decl(cal); cd != nil && cd.Decl.Body != nil {
								if pv := an.Param(cd.Pkg.TypesInfo, cd.Decl, i); pv != nil {
									ci := cd.Pkg.TypesInfo
									readerBody(cd, func(e ast.Expr) string {
										for {
											switch y := ast.Unparen(e).(type) {
											case *ast.Ident:
												if ci.ObjectOf(y) == pv {
													return name
												}
												return ""
											case *ast.SelectorExpr:
												e = y.X
											default:
												return ""
											}
										}
									}, depth+1)
								}
							}
						}
					}
					// decoder applied to a variable holding a section's bytes
					if dn != "" {
						if id, ok := ast.Unparen(a).(*ast.Ident); ok {
							for _, name := range holds[inf.ObjectOf(id)] {
								noteR(name, x.Pos()).dec[dn] = true
							}
						}
					}
				}
			}
			return true
		})
	}
	p.AllDecls(func(fn *types.Func, d *an.DeclInfo) {
		if d.Pkg != idx || d.Decl.Body == nil {
			return
		}
		short := strings.TrimPrefix(an.FuncName(fn), "index.")
		if readerSkip[short] {
			return
		}
		uses := false
		ast.Inspect(d.Decl.Body, func(n ast.Node) bool {
			if se, ok := n.(*ast.SelectorExpr); ok && tocField(se) != nil {
				uses = true
			}
			return !uses
		})
		if !uses {
			return
		}
		r.Fn(an.FuncName(fn))
		readerBody(d, func(e ast.Expr) string {
			if _, ok := ast.Unparen(e).(*ast.SelectorExpr); !ok {
				return ""
			}
			if f := tocField(e); f != nil {
				return f.Name()
			}
			return ""
		}, 0)
	})
	r.Floor("C09.R2.read-sections", 22, len(read))
	var rnames []string
	for n := range read {
		rnames = append(rnames, n)
	}
	sort.Strings(rnames)
	legacy := map[string]string{}
	for _, n := range rnames {
		_, ok := written[n]
		if why, isLegacy := legacy[n]; isLegacy {
			r.OK("C09.R2", read[n].fn+"/reads-written-section/"+n, read[n].pos, "legacy: "+why)
			continue
		}
		r.Check(ok, "C09.R2", read[n].fn+"/reads-written-section/"+n, read[n].pos, "the section is produced by Write",
			"the reader consumes section "+n+" which ShardBuilder.Write never fills: shards written by this version read back with that data missing")
	}
	// ---- codec pairing
	paired := 0
	for _, n := range wnames {
		w, rd := written[n], read[n]
		if rd == nil || len(w.enc) == 0 || len(rd.dec) == 0 {
			continue
		}
		paired++
		want := map[string]bool{}
		for e := range w.enc {
			want[c09Codecs[e]] = true
		}
		ok := len(want) == len(rd.dec)
		for dname := range rd.dec {
			if !want[dname] {
				ok = false
			}
		}
		r.Check(ok, "C09.R3", "index/section-codec/"+n, rd.pos,
			fmt.Sprintf("writer uses %v, reader uses %v: inverse pair", keys(w.enc), keys(rd.dec)),
			fmt.Sprintf("section %s is written with %v but read with %v: these are not inverse codecs, the section reads back as garbage", n, keys(w.enc), keys(rd.dec)))
	}
	r.Floor("C09.R3.sections-with-both-codecs-visible", 8, paired)

	// ---- R4
	c09LazyCaches(p, r)
	c09SkipReasons(p, r)
	// ---- R5
	stickyWriter := p.Named("index", "writer")
	errDiscipline(p, r, "C09.R5", write, errOpts{only: func(cal *types.Func) bool {
		// methods of the sticky-error writer record their error in w.err,
		// which rule R5 requires to be tested before a success return
		sig := cal.Type().(*types.Signature)
		return !(sig.Recv() != nil && an.NamedOf(sig.Recv().Type()) == stickyWriter)
	}})
	c09Flush(p, r, wd)
}

func c09SkipReasons(p *an.Prog, r *an.R) {
	f := p.Func("index", "SkipReason.explanation")
	d := p.Decl(f)
	none, _ := p.Obj("index", "SkipReasonNone").(*types.Const)
	if !r.Anchor(d != nil && none != nil, "index.SkipReason.explanation / SkipReasonNone") {
		return
	}
	info := d.Pkg.TypesInfo
	group := constGroup(p, none)
	r.Floor("C09.R4.skip-reasons", 6, len(group))
	expl := map[*types.Const]string{}
	ast.Inspect(d.Decl.Body, func(n ast.Node) bool {
		cc, ok := n.(*ast.CaseClause)
		if !ok {
			return true
		}
		text := ""
		for _, st := range cc.Body {
			if rs, ok := st.(*ast.ReturnStmt); ok && len(rs.Results) == 1 {
				text, _ = an.StringConst(info, rs.Results[0])
			}
		}
		for _, e := range cc.List {
			if id, ok := ast.Unparen(e).(*ast.Ident); ok {
				if c, ok := info.Uses[id].(*types.Const); ok {
					expl[c] = text
				}
			}
		}
		return true
	})
	seen := map[string]string{}
	for _, c := range group {
		key := "index.SkipReason.explanation/case/" + c.Name()
		text, ok := expl[c]
		if !ok {
			r.Bad("C09.R4", key, d.Decl.Pos(), c.Name()+" has no case in explanation(): a document skipped for this reason is stored with the generic 'unknown skip reason'")
			continue
		}
		if c == none {
			r.OK("C09.R4", key, d.Decl.Pos(), "None has a case")
			continue
		}
		if other, dup := seen[text]; text == "" || dup {
			r.Bad("C09.R4", key, d.Decl.Pos(), fmt.Sprintf("%s has an empty or duplicated explanation (%q, also %s)", c.Name(), text, other))
			continue
		}
		seen[text] = c.Name()
		r.OK("C09.R4", key, d.Decl.Pos(), "own explanation: "+text)
	}
}

// c09Flush: every return of Write that is not on an error branch is preceded
// by (or contains) a non-deferred Flush of the buffered writer.
func c09Flush(p *an.Prog, r *an.R, wd *an.DeclInfo) {
	flush := p.ExtFunc("bufio", "Writer.Flush")
	newW := []*types.Func{p.ExtFunc("bufio", "NewWriterSize"), p.ExtFunc("bufio", "NewWriter")}
	if !r.Anchor(flush != nil, "bufio.Writer.Flush") {
		return
	}
	info := wd.Pkg.TypesInfo
	if len(an.CallsTo(info, wd.Decl.Body, false, newW...)) == 0 {
		r.OK("C09.R5", "index.(*ShardBuilder).Write/unbuffered", wd.Decl.Pos(), "Write does not buffer its output: nothing to flush")
		return
	}
	g := an.NewG(info, wd.Decl.Body)
	isFlush := g.HasCallTo(flush)
	n := 0
	for _, l := range g.Locs(func(n ast.Node) bool { _, ok := n.(*ast.ReturnStmt); return ok }) {
		if inErrorBranch(g, info, l) || returnsFreshError(info, g.Node(l).(*ast.ReturnStmt)) {
			continue
		}
		n++
		// the sticky error of the section writer must have been consulted
		stickyErr := p.Field("index", "writer", "err")
		mentionsSticky := func(k an.Loc) bool {
			return g.Contains(k, func(m ast.Node) bool {
				se, ok := m.(*ast.SelectorExpr)
				return ok && info.Selections[se] != nil && info.Selections[se].Obj() == stickyErr
			})
		}
		if stickyErr != nil {
			unseen := !mentionsSticky(l) && g.Reach(g.Entry(), false, &an.Search{Target: func(k an.Loc) bool { return k == l }, Cut: mentionsSticky})
			r.Check(!unseen, "C09.R5", "index.(*ShardBuilder).Write/success-return/sticky-error-consulted", g.Node(l).Pos(),
				"the writer's sticky error (w.err) is consulted before success is reported",
				"Write can report success without looking at the section writer's sticky error w.err: a failed section write is reported as success")
		}
		if isFlush(l) {
			r.OK("C09.R5", "index.(*ShardBuilder).Write/success-return/flush-precedes", g.Node(l).Pos(), "the return itself flushes and returns the flush's error")
			continue
		}
		skip := g.Reach(g.Entry(), false, &an.Search{Target: func(k an.Loc) bool { return k == l }, Cut: isFlush})
		r.Check(!skip, "C09.R5", "index.(*ShardBuilder).Write/success-return/flush-precedes", g.Node(l).Pos(),
			"every path to this success-capable return passes a checked Flush",
			"Write can return without an error-checked Flush of its bufio.Writer: the tail of the shard may never reach the file and Write still reports success")
	}
	r.Floor("C09.R5.success-returns", 1, n)
}

// inErrorBranch: location only reachable through the non-nil edge of a test
// `<error-typed expr> != nil`.
func inErrorBranch(g *an.G, info *types.Info, l an.Loc) bool {
	return inErrorCleanup(g, info, l)
}

// returnsFreshError: the return's last result is a call constructing an error
// (fmt.Errorf, errors.New): it cannot report success.
func returnsFreshError(info *types.Info, rs *ast.ReturnStmt) bool {
	if len(rs.Results) == 0 {
		return false
	}
	c, ok := ast.Unparen(rs.Results[len(rs.Results)-1]).(*ast.CallExpr)
	if !ok {
		return false
	}
	cal := an.Callee(info, c)
	return an.IsPkgFunc(cal, "fmt", "Errorf") || an.IsPkgFunc(cal, "errors", "New")
}

// c09LazyCaches: a ShardBuilder field that is filled lazily (`if b.F == nil
// { b.F = ... }`) from another field D of the builder is a cache of D. Every
// function that stores D must then also store F (invalidate it) - otherwise
// the documents of the next repository are encoded with the previous
// repository's derived data.
func c09LazyCaches(p *an.Prog, r *an.R) {
	r.Rule("C09.R6", "for every ShardBuilder field F that is lazily initialised (store under `F == nil`) in a function that reads builder field D: every function that stores D also stores F")
	sbT := p.Named("index", "ShardBuilder")
	idx := p.Pkg("index")
	if !r.Anchor(sbT != nil && idx != nil, "index.ShardBuilder") {
		return
	}
	fields := an.StructFields(sbT)
	fieldOf := func(v ssa.Value) string {
		fa, ok := v.(*ssa.FieldAddr)
		if !ok || an.NamedOf(fa.X.Type()) != sbT {
			return ""
		}
		return fields[fa.Field].Name()
	}
	type dep struct{ cache, source, where string }
	var deps []dep
	mapDeps := map[string]string{}           // "F<-D" -> function that fills the memo
	storesBy := map[string]map[string]bool{} // function -> fields stored
	var funcs []*ssa.Function
	for _, f := range p.SSAFuncs() {
		if f.Pkg == nil || f.Pkg.Pkg != idx.Types || strings.HasSuffix(p.Fset.Position(f.Pos()).Filename, "_test.go") {
			continue
		}
		funcs = append(funcs, f)
	}
	for _, f := range funcs {
		st := map[string]bool{}
		reads := map[string]bool{}
		lazy := map[string]bool{}
		an.Instrs(f, func(b *ssa.BasicBlock, in ssa.Instruction) {
			switch x := in.(type) {
			case *ssa.Store:
				if n := fieldOf(x.Addr); n != "" {
					if _, fresh := x.Addr.(*ssa.FieldAddr).X.(*ssa.Alloc); !fresh {
						st[n] = true
						// is this store control-dependent on `F == nil`?
						for d := b; d != nil; d = d.Idom() {
							if len(d.Instrs) == 0 {
								continue
							}
							iff, ok := d.Instrs[len(d.Instrs)-1].(*ssa.If)
							if !ok {
								continue
							}
							bo, ok := iff.Cond.(*ssa.BinOp)
							if !ok || (bo.Op != token.EQL && bo.Op != token.NEQ) {
								continue
							}
							for _, side := range []ssa.Value{bo.X, bo.Y} {
								if ld, ok := side.(*ssa.UnOp); ok && ld.Op == token.MUL && fieldOf(ld.X) == n {
									other := bo.Y
									if side == bo.Y {
										other = bo.X
									}
									if c, ok := other.(*ssa.Const); ok && c.IsNil() {
										lazy[n] = true
									}
								}
							}
						}
					}
				}
			case *ssa.UnOp:
				if x.Op == token.MUL {
					if n := fieldOf(x.X); n != "" {
						reads[n] = true
					}
				}
			case *ssa.Call:
				// clear(b.F) empties the memo: as good as storing a fresh one
				if bi, ok := x.Call.Value.(*ssa.Builtin); ok && bi.Name() == "clear" && len(x.Call.Args) == 1 {
					if ld, ok := x.Call.Args[0].(*ssa.UnOp); ok && ld.Op == token.MUL {
						if n := fieldOf(ld.X); n != "" {
							st[n] = true
						}
					}
				}
			case *ssa.MapUpdate:
				// a map-valued field used as a memo: `b.F[k] = v` where v, or a condition the update depends on, is
				// computed from another builder field D - F then caches something about D
				ld, ok := x.Map.(*ssa.UnOp)
				if !ok || ld.Op != token.MUL {
					return
				}
				cache := fieldOf(ld.X)
				if cache == "" {
					return
				}
				roots := []ssa.Value{x.Value}
				for d := b.Idom(); d != nil; d = d.Idom() {
					if len(d.Instrs) == 0 {
						continue
					}
					iff, ok := d.Instrs[len(d.Instrs)-1].(*ssa.If)
					if !ok {
						continue
					}
					// d controls the update if only one of its successors leads to it (without passing d again)
					leads := 0
					for _, s := range d.Succs {
						seen := map[*ssa.BasicBlock]bool{d: true}
						work := []*ssa.BasicBlock{s}
						hit := false
						for len(work) > 0 && !hit {
							c := work[len(work)-1]
							work = work[:len(work)-1]
							if seen[c] {
								continue
							}
							seen[c] = true
							if c == b {
								hit = true
							}
							work = append(work, c.Succs...)
						}
						if hit {
							leads++
						}
					}
					if leads == 1 && len(roots) < 3 {
						// the two nearest conditions only: further up are the error exits of the function, which every
						// later statement "depends" on without being derived from what they test
						roots = append(roots, iff.Cond)
					}
				}
				seenV := map[ssa.Value]bool{}
				var walk func(v ssa.Value, depth int)
				walk = func(v ssa.Value, depth int) {
					if v == nil || seenV[v] || depth > 14 {
						return
					}
					seenV[v] = true
					if u, ok := v.(*ssa.UnOp); ok && u.Op == token.MUL {
						if n := fieldOf(u.X); n != "" && n != cache {
							mapDeps[cache+"<-"+n] = an.SSAName(f)
						}
						if al, ok := u.X.(*ssa.Alloc); ok && al.Referrers() != nil {
							for _, ref := range *al.Referrers() {
								if st, ok := ref.(*ssa.Store); ok && st.Addr == al {
									walk(st.Val, depth+1)
								}
							}
						}
					}
					if in, ok := v.(ssa.Instruction); ok {
						for _, op := range in.Operands(nil) {
							if *op != nil {
								walk(*op, depth+1)
							}
						}
					}
				}
				for _, rt := range roots {
					walk(rt, 0)
				}
			}
		})
		storesBy[an.SSAName(f)] = st
		for c := range lazy {
			for src := range reads {
				if src != c {
					deps = append(deps, dep{c, src, an.SSAName(f)})
				}
			}
		}
	}
	for k, where := range mapDeps {
		parts := strings.SplitN(k, "<-", 2)
		deps = append(deps, dep{parts[0], parts[1], where})
	}
	sort.Slice(deps, func(i, j int) bool { return deps[i].cache+deps[i].source < deps[j].cache+deps[j].source })
	n := 0
	for _, dp := range deps {
		var fnames []string
		for fn := range storesBy {
			fnames = append(fnames, fn)
		}
		sort.Strings(fnames)
		for _, fn := range fnames {
			st := storesBy[fn]
			if !st[dp.source] || fn == dp.where {
				continue
			}
			n++
			r.Fn(fn)
			r.Check(st[dp.cache], "C09.R6", "index.ShardBuilder."+dp.cache+"/invalidated-with/"+dp.source+"/in/"+fn, token.NoPos, fn+" stores "+dp.source+" and "+dp.cache, "ShardBuilder."+dp.cache+" is filled lazily in "+dp.where+" from ShardBuilder."+dp.source+", but "+fn+" changes "+dp.source+" without resetting "+dp.cache+": documents added afterwards are encoded with data derived from the previous "+dp.source)
		}
	}
	r.Extra["C09.R6.lazy_cache_dependencies"] = len(deps)
	if n == 0 {
		r.OK("C09.R6", "index.ShardBuilder/no-lazily-derived-caches", token.NoPos, "no ShardBuilder field is lazily derived from another builder field")
	}
}
