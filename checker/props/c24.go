package props

import (
	"fmt"
	"go/ast"
	"go/constant"
	"go/token"
	"go/types"
	"sort"
	"strings"

	"golang.org/x/tools/go/callgraph"
	"golang.org/x/tools/go/ssa"

	"zverif/checker/an"
)

func init() { register("C24", c24) }

const pbPath = an.Mod + "/grpc/protos/zoekt/webserver/v1"

// field-level exceptions: "<func>/<side>/<field>" -> reason
var c24FieldExceptions = map[string]string{
	"zoekt.(*SearchOptions).ToProto/go-field-read/SpanContext":  "trace context travels out of band (gRPC metadata); the round-trip test zeroes it",
	"zoekt.SearchOptionsFromProto/go-field-set/SpanContext":     "trace context travels out of band (gRPC metadata)",
	"zoekt.(*SearchResult).ToProto/go-field-read/RepoURLs":      "repository URL templates are not part of the wire message; the client passes them to FromProto separately",
	"zoekt.(*SearchResult).ToProto/go-field-read/LineFragments": "line fragment templates are not part of the wire message; the client passes them to FromProto separately",
}

type c24Conv struct {
	fn   *types.Func
	d    *an.DeclInfo
	dir  string       // "to" | "from"
	goT  types.Type   // Go struct type (not pointer)
	msgT types.Type   // proto message struct type (not pointer)
	self types.Object // receiver (to) or first parameter (from)
}

func c24(p *an.Prog, r *an.R, tier string) {
	r.Explanation = "C24 (structural clauses): each Go<->proto conversion pair covers every field of both types in both directions; enum/flag/oneof switches are total in both directions; decode functions tolerate nil sub-messages; no explicit panic is reachable from the gRPC handlers before the Streamer call; conversion errors are returned before the Streamer is called. Does NOT decide value equality of round-trips."
	r.Rule("C24.R1", "every (Go struct, proto message) conversion reads every source field and sets every destination field, both directions; exceptions are named fields with reasons")
	r.Rule("C24.R2", "every switch over an enum/flag constant group in the conversion files covers the whole group (proto zero value excepted); QToProto and QFromProto cover the same oneof arms")
	r.Rule("C24.R3", "a conversion function that selects a field directly on its message parameter guards it against nil, or is only ever called with arguments that cannot be nil; no explicit panic reachable from Server.Search/StreamSearch/List before the Streamer call; conversion errors are tested and returned before the Streamer call")
	r.Assume("protobuf-go never hands the service a nil request, a nil element of a repeated message field, or a oneof wrapper whose message is nil (wire decoding allocates them)")

	convs := c24Discover(p)
	if !r.Anchor(len(convs) >= 40, fmt.Sprintf("conversion functions discovered by signature (found %d)", len(convs))) {
		return
	}
	r.Floor("C24.R1.conversion-functions", 60, len(convs))
	c24Fields(p, r, convs)
	c24Enums(p, r)
	c24Oneof(p, r)
	c24NilSafety(p, r, convs)
	c24Server(p, r)
	c24ChunkNoMutation(p, r)
	c24Bitmaps(p, r)
}

// c24ChunkNoMutation: the chunk sender splits one converted response over
// several messages; it must not write into the converted message (its Stats
// and Progress are shared by the chunks that follow).
func c24ChunkNoMutation(p *an.Prog, r *an.R) {
	r.Rule("C24.R4", "gRPCChunkSender never stores into the converted response or into messages obtained from it (a patched Progress/Stats must be a fresh message): later chunks of the same event would carry the patched values")
	f := p.SSAFunc(p.Func("cmd/zoekt-webserver/grpc/server", "gRPCChunkSender"))
	if !r.Anchor(f != nil, "grpc/server.gRPCChunkSender") {
		return
	}
	n := 0
	var all []*ssa.Function
	var walk func(fn *ssa.Function)
	walk = func(fn *ssa.Function) {
		all = append(all, fn)
		for _, a := range fn.AnonFuncs {
			walk(a)
		}
	}
	walk(f)
	for _, fn := range all {
		an.Instrs(fn, func(b *ssa.BasicBlock, in ssa.Instruction) {
			st, ok := in.(*ssa.Store)
			if !ok {
				return
			}
			fa, ok := st.Addr.(*ssa.FieldAddr)
			if !ok || !an.IsProtoMessage(an.Deref(fa.X.Type())) {
				return
			}
			n++
			// the message written to must be allocated here (a fresh message)
			_, fresh := fa.X.(*ssa.Alloc)
			fieldName := an.StructFields(an.Deref(fa.X.Type()))[fa.Field].Name()
			r.Check(fresh, "C24.R4", an.SSAName(fn)+"/stores-only-into-fresh-messages/"+an.TypeName(an.Deref(fa.X.Type()))+"."+fieldName, st.Pos(), "the store initialises a message built in this function", "the chunk sender writes into a message it did not build (obtained from the converted response): the change is visible in the later chunks of the same event, so the reassembled result differs from what the searcher produced")
		})
	}
	r.Floor("C24.R4.message-field-stores", 3, n)
}

// c24Bitmaps: decoded query nodes never carry a nil bitmap.
func c24Bitmaps(p *an.Prog, r *an.R) {
	r.Rule("C24.R5", "in the *FromProto functions of package query every *roaring.Bitmap stored into a query node comes from roaring.New*/NewBitmap (never nil): the searcher dereferences it")
	n := 0
	for _, f := range p.SSAFuncs() {
		if f.Pkg == nil || f.Pkg.Pkg.Path() != an.Mod+"/query" || !strings.HasSuffix(f.Name(), "FromProto") {
			continue
		}
		an.Instrs(f, func(b *ssa.BasicBlock, in ssa.Instruction) {
			st, ok := in.(*ssa.Store)
			if !ok || !(strings.Contains(st.Val.Type().String(), "roaring") && strings.HasSuffix(st.Val.Type().String(), ".Bitmap")) {
				return
			}
			if _, isField := st.Addr.(*ssa.FieldAddr); !isField {
				return
			}
			n++
			var nonNil func(v ssa.Value, seen map[ssa.Value]bool) bool
			nonNil = func(v ssa.Value, seen map[ssa.Value]bool) bool {
				if seen[v] {
					return true
				}
				seen[v] = true
				switch x := v.(type) {
				case *ssa.Call:
					cal := an.StaticCallee(x)
					if cal != nil && cal.Pkg() != nil && strings.Contains(cal.Pkg().Path(), "roaring") && strings.HasPrefix(cal.Name(), "New") {
						return true
					}
					// a helper of this package: all its returns must be non-nil
					if callee := x.Common().StaticCallee(); callee != nil && callee.Blocks != nil {
						ok := true
						an.Instrs(callee, func(b2 *ssa.BasicBlock, i2 ssa.Instruction) {
							if ret, isR := i2.(*ssa.Return); isR {
								for i := range ret.Results {
									rv := retOperand(ret, i)
									if strings.Contains(rv.Type().String(), "roaring") && strings.HasSuffix(rv.Type().String(), ".Bitmap") {
										// error paths may return nil together with a non-nil error
										if c, isC := rv.(*ssa.Const); isC && c.IsNil() {
											if len(ret.Results) > 1 {
												if ec, isEC := retOperand(ret, len(ret.Results)-1).(*ssa.Const); !isEC || !ec.IsNil() {
													continue
												}
											}
											ok = false
										} else if !nonNil(rv, seen) {
											ok = false
										}
									}
								}
							}
						})
						return ok
					}
				case *ssa.Extract:
					return nonNil(x.Tuple, seen)
				case *ssa.Phi:
					for _, e := range x.Edges {
						if !nonNil(e, seen) {
							return false
						}
					}
					return true
				case *ssa.Alloc:
					return true
				}
				return false
			}
			r.Check(nonNil(st.Val, map[ssa.Value]bool{}), "C24.R5", an.SSAName(f)+"/bitmap-never-nil", st.Pos(), "the bitmap stored into the query node is always allocated", "a decoded query node can carry a nil *roaring.Bitmap (e.g. when the bytes field is unset): the request is accepted and the searcher dereferences nil - the gRPC handlers crash")
		})
	}
	r.Floor("C24.R5.bitmap-stores", 2, n)
}

func c24Discover(p *an.Prog) []*c24Conv {
	var out []*c24Conv
	isMsg := func(t types.Type) types.Type {
		pt, ok := t.(*types.Pointer)
		if !ok {
			return nil
		}
		nt, ok := pt.Elem().(*types.Named)
		if !ok || nt.Obj().Pkg() == nil || nt.Obj().Pkg().Path() != pbPath || !an.IsProtoMessage(nt) {
			return nil
		}
		return nt
	}
	isGo := func(t types.Type) types.Type {
		nt := an.NamedOf(t)
		if nt == nil || nt.Obj().Pkg() == nil || !an.InModule(nt.Obj().Pkg()) || nt.Obj().Pkg().Path() == pbPath {
			return nil
		}
		if _, ok := nt.Underlying().(*types.Struct); !ok {
			return nil
		}
		return nt
	}
	p.AllDecls(func(fn *types.Func, d *an.DeclInfo) {
		pk := fn.Pkg().Path()
		if pk != an.Mod && pk != an.Mod+"/query" {
			return
		}
		if d.Decl.Body == nil {
			return
		}
		sig := fn.Type().(*types.Signature)
		if sig.Recv() != nil && sig.Results().Len() >= 1 {
			if g, m := isGo(sig.Recv().Type()), isMsg(sig.Results().At(0).Type()); g != nil && m != nil && sig.Params().Len() == 0 {
				out = append(out, &c24Conv{fn: fn, d: d, dir: "to", goT: g, msgT: m, self: sig.Recv()})
				return
			}
		}
		if sig.Recv() == nil && sig.Params().Len() >= 1 && sig.Results().Len() >= 1 {
			if m, g := isMsg(sig.Params().At(0).Type()), isGo(sig.Results().At(0).Type()); g != nil && m != nil {
				out = append(out, &c24Conv{fn: fn, d: d, dir: "from", goT: g, msgT: m, self: an.Param(d.Pkg.TypesInfo, d.Decl, 0)})
			}
		}
	})
	return out
}

func c24Fields(p *an.Prog, r *an.R, convs []*c24Conv) {
	convSet := map[*types.Func]bool{}
	convByFn := map[*types.Func]*c24Conv{}
	for _, c := range convs {
		convSet[c.fn] = true
		convByFn[c.fn] = c
	}
	for _, c := range convs {
		info := c.d.Pkg.TypesInfo
		name := an.FuncName(c.fn)
		r.Fn(name)
		// receiver object for "to" comes from the declaration
		var self types.Object = c.self
		if c.dir == "to" && c.d.Decl.Recv != nil && len(c.d.Decl.Recv.List) > 0 && len(c.d.Decl.Recv.List[0].Names) > 0 {
			self = info.Defs[c.d.Decl.Recv.List[0].Names[0]]
		}
		// delegation: the whole source value is handed to another conversion
		delegates := false
		an.Inspect(c.d.Decl.Body, true, func(n ast.Node) bool {
			call, ok := n.(*ast.CallExpr)
			if !ok {
				return true
			}
			cal := an.Callee(info, call)
			if cal == nil || !convSet[cal] || cal == c.fn {
				return true
			}
			if oc := convByFn[cal]; oc != nil && oc.dir == c.dir && c.dir == "from" && types.Identical(oc.goT, c.goT) {
				delegates = true
			}
			if se, ok := ast.Unparen(call.Fun).(*ast.SelectorExpr); ok && an.UsesObj(info, se.X, self) {
				delegates = true
			}
			for _, a := range call.Args {
				if an.UsesObj(info, a, self) {
					delegates = true
				}
			}
			return true
		})
		goU := an.FieldUses(info, c.d.Decl.Body, c.goT)
		msgU := an.FieldUses(info, c.d.Decl.Body, c.msgT)
		// helper methods called on the source value read fields on its behalf
		// (r.RegexpString()); one level is enough for this code base
		an.Inspect(c.d.Decl.Body, true, func(n ast.Node) bool {
			call, ok := n.(*ast.CallExpr)
			if !ok {
				return true
			}
			se, ok := ast.Unparen(call.Fun).(*ast.SelectorExpr)
			if !ok || !an.UsesObj(info, se.X, self) {
				return true
			}
			if cal := an.Callee(info, call); cal != nil && !convSet[cal] {
				if hd := p.Decl(cal); hd != nil && hd.Decl.Body != nil {
					hu := an.FieldUses(hd.Pkg.TypesInfo, hd.Decl.Body, c.goT)
					for k, v := range hu.Read {
						if _, ok := goU.Read[k]; !ok {
							goU.Read[k] = v
						}
					}
				}
			}
			return true
		})
		var srcT, dstT types.Type
		var srcU, dstU *an.FieldUse
		var srcSide, dstSide string
		if c.dir == "to" {
			srcT, dstT, srcU, dstU, srcSide, dstSide = c.goT, c.msgT, goU, msgU, "go-field-read", "proto-field-set"
		} else {
			srcT, dstT, srcU, dstU, srcSide, dstSide = c.msgT, c.goT, msgU, goU, "proto-field-read", "go-field-set"
		}
		srcFields := an.ExportedFields(srcT)
		if c.dir == "to" {
			// unexported Go fields count too (they are state of the value)
			srcFields = nil
			for _, f := range an.StructFields(srcT) {
				srcFields = append(srcFields, f.Name())
			}
		}
		if !delegates {
			for _, f := range srcFields {
				key := name + "/" + srcSide + "/" + f
				if _, ok := srcU.Read[f]; ok {
					r.OK("C24.R1", key, srcU.Read[f], "source field is read")
					continue
				}
				if why, ok := c24FieldExceptions[key]; ok && why != "" {
					r.OK("C24.R1", key, c.d.Decl.Pos(), "exception: "+why)
					r.Except(key, why)
					continue
				}
				r.Bad("C24.R1", key, c.d.Decl.Pos(), fmt.Sprintf("%s never reads %s.%s: the field is lost in this direction of the conversion", name, an.TypeName(srcT), f))
			}
		}
		var dstFields []string
		if c.dir == "to" {
			dstFields = an.ExportedFields(dstT)
		} else {
			for _, f := range an.StructFields(dstT) {
				dstFields = append(dstFields, f.Name())
			}
		}
		if dstU.AllSet {
			r.OK("C24.R1", name+"/"+dstSide+"/*", c.d.Decl.Pos(), "destination built from an unkeyed literal or whole-struct copy")
			continue
		}
		if delegates && len(dstU.Written) == 0 {
			r.OK("C24.R1", name+"/delegates", c.d.Decl.Pos(), "conversion delegates to another conversion function")
			continue
		}
		for _, f := range dstFields {
			key := name + "/" + dstSide + "/" + f
			if _, ok := dstU.Written[f]; ok {
				r.OK("C24.R1", key, dstU.Written[f], "destination field is set")
				continue
			}
			if why, ok := c24FieldExceptions[key]; ok && why != "" {
				r.OK("C24.R1", key, c.d.Decl.Pos(), "exception: "+why)
				r.Except(key, why)
				continue
			}
			r.Bad("C24.R1", key, c.d.Decl.Pos(), fmt.Sprintf("%s never sets %s.%s: the field is lost in this direction of the conversion", name, an.TypeName(dstT), f))
		}
	}
}

// constGroup returns the constants declared in the same const block as obj
// that have the same type.
func constGroup(p *an.Prog, obj *types.Const) []*types.Const {
	var out []*types.Const
	scope := obj.Pkg().Scope()
	// locate the GenDecl through positions when the package has syntax,
	// otherwise (export data) fall back to "all constants of the named type".
	pk := p.ByPath[obj.Pkg().Path()]
	if pk != nil {
		for _, f := range pk.Syntax {
			for _, d := range f.Decls {
				gd, ok := d.(*ast.GenDecl)
				if !ok || gd.Tok != token.CONST || !(gd.Pos() <= obj.Pos() && obj.Pos() <= gd.End()) {
					continue
				}
				for _, sp := range gd.Specs {
					for _, n := range sp.(*ast.ValueSpec).Names {
						if c, ok := pk.TypesInfo.Defs[n].(*types.Const); ok && types.Identical(c.Type(), obj.Type()) {
							out = append(out, c)
						}
					}
				}
				return out
			}
		}
	}
	for _, n := range scope.Names() {
		if c, ok := scope.Lookup(n).(*types.Const); ok && types.Identical(c.Type(), obj.Type()) {
			out = append(out, c)
		}
	}
	return out
}

// c24Enums: every expression switch over constants in the two conversion
// files covers its constant group.
func c24Enums(p *an.Prog, r *an.R) {
	n := 0
	for _, rel := range []string{"", "query"} {
		pk := p.Pkg(rel)
		for _, f := range pk.Syntax {
			fname := p.Fset.Position(f.Pos()).Filename
			if !strings.HasSuffix(fname, "_proto.go") {
				continue
			}
			for _, d := range f.Decls {
				fd, ok := d.(*ast.FuncDecl)
				if !ok || fd.Body == nil {
					continue
				}
				fobj, _ := pk.TypesInfo.Defs[fd.Name].(*types.Func)
				// an if/else-if chain comparing one expression with constants of a group is a switch written differently
				chains := map[string]map[*types.Const]bool{}
				chainPos := map[string]token.Pos{}
				chainType := map[string]string{}
				ast.Inspect(fd.Body, func(m ast.Node) bool {
					is, ok := m.(*ast.IfStmt)
					if !ok {
						return true
					}
					be, ok := ast.Unparen(is.Cond).(*ast.BinaryExpr)
					if !ok || be.Op != token.EQL {
						return true
					}
					for _, pr := range [][2]ast.Expr{{be.X, be.Y}, {be.Y, be.X}} {
						var id *ast.Ident
						switch x := ast.Unparen(pr[1]).(type) {
						case *ast.Ident:
							id = x
						case *ast.SelectorExpr:
							id = x.Sel
						}
						if id == nil {
							continue
						}
						co, ok := pk.TypesInfo.Uses[id].(*types.Const)
						if !ok {
							continue
						}
						if _, named := co.Type().(*types.Named); !named {
							continue
						}
						k := types.ExprString(pr[0])
						if chains[k] == nil {
							chains[k] = map[*types.Const]bool{}
							chainPos[k] = is.Pos()
							chainType[k] = an.TypeName(pk.TypesInfo.TypeOf(pr[0]))
						}
						chains[k][co] = true
					}
					return true
				})
				for k, covered := range chains {
					if len(covered) < 2 {
						continue // a single equality test is not an enumeration
					}
					var first *types.Const
					for co := range covered {
						if first == nil || co.Name() < first.Name() {
							first = co
						}
					}
					n++
					for _, g := range constGroup(p, first) {
						key := fmt.Sprintf("%s/switch(%s)/%s", an.FuncName(fobj), chainType[k], g.Name())
						if covered[g] {
							r.OK("C24.R2", key, chainPos[k], "constant has a branch in the if-chain")
							continue
						}
						if g.Pkg().Path() == pbPath && constant.Sign(g.Val()) == 0 {
							r.OK("C24.R2", key, chainPos[k], "proto zero value (UNSPECIFIED) maps to the Go zero value")
							continue
						}
						r.Bad("C24.R2", key, chainPos[k], fmt.Sprintf("constant %s of the compared group has no branch: it is silently converted to the zero value", g.Name()))
					}
				}
				ast.Inspect(fd.Body, func(m ast.Node) bool {
					sw, ok := m.(*ast.SwitchStmt)
					if !ok || sw.Tag == nil {
						return true
					}
					covered := map[*types.Const]bool{}
					var first *types.Const
					for _, c := range sw.Body.List {
						for _, e := range c.(*ast.CaseClause).List {
							var id *ast.Ident
							switch x := ast.Unparen(e).(type) {
							case *ast.Ident:
								id = x
							case *ast.SelectorExpr:
								id = x.Sel
							}
							if id == nil {
								continue
							}
							if co, ok := pk.TypesInfo.Uses[id].(*types.Const); ok {
								covered[co] = true
								if first == nil {
									first = co
								}
							}
						}
					}
					if first == nil {
						return true
					}
					group := constGroup(p, first)
					n++
					for _, g := range group {
						key := fmt.Sprintf("%s/switch(%s)/%s", an.FuncName(fobj), an.TypeName(pk.TypesInfo.TypeOf(sw.Tag)), g.Name())
						if covered[g] {
							r.OK("C24.R2", key, sw.Pos(), "constant has a case")
							continue
						}
						isProto := g.Pkg().Path() == pbPath
						if isProto && constant.Sign(g.Val()) == 0 {
							r.OK("C24.R2", key, sw.Pos(), "proto zero value (UNSPECIFIED) maps to the Go zero value")
							continue
						}
						r.Bad("C24.R2", key, sw.Pos(), fmt.Sprintf("constant %s of the switched group has no case: it is silently converted to the zero value", g.Name()))
					}
					return true
				})
			}
		}
	}
	r.Floor("C24.R2.enum-switches", 8, n)
}

// c24Oneof: QToProto produces and QFromProto consumes the same oneof arms.
func c24Oneof(p *an.Prog, r *an.R) {
	pb := p.TPkgs[pbPath]
	if !r.Anchor(pb != nil, "webserverv1 package") {
		return
	}
	qMsg, _ := pb.Scope().Lookup("Q").(*types.TypeName)
	if !r.Anchor(qMsg != nil, "webserverv1.Q") {
		return
	}
	var oneofIface *types.Interface
	for _, f := range an.StructFields(qMsg.Type()) {
		if f.Name() == "Query" {
			oneofIface, _ = f.Type().Underlying().(*types.Interface)
		}
	}
	if !r.Anchor(oneofIface != nil, "webserverv1.Q.Query oneof interface") {
		return
	}
	arms := an.Implementers(pb, oneofIface)
	r.Floor("C24.R2.oneof-arms", 19, len(arms))
	// consumer: type switch in QFromProto
	fd := p.Decl(p.Func("query", "QFromProto"))
	td := p.Decl(p.Func("query", "QToProto"))
	if !r.Anchor(fd != nil && td != nil, "query.QFromProto/QToProto") {
		return
	}
	var fromSw *an.TypeSwitch
	for _, s := range an.TypeSwitches(fd.Pkg.TypesInfo, fd.Decl.Body) {
		fromSw = s
		break
	}
	if !r.Anchor(fromSw != nil, "query.QFromProto/type switch") {
		return
	}
	produced := map[string]bool{}
	ast.Inspect(td.Decl.Body, func(n ast.Node) bool {
		if cl, ok := n.(*ast.CompositeLit); ok {
			if t := td.Pkg.TypesInfo.TypeOf(cl); t != nil {
				produced["*"+an.TypeName(t)] = true
			}
		}
		return true
	})
	for _, a := range arms {
		name := an.TypeName(a)
		_, consumed := fromSw.CaseOf[name]
		r.Check(consumed, "C24.R2", "query.QFromProto/case/"+name, fromSw.Stmt.Pos(), "oneof arm has a case", "oneof arm "+name+" has no case in QFromProto: a well-formed request using it is rejected or crashes")
		r.Check(produced[name], "C24.R2", "query.QToProto/produces/"+name, td.Decl.Pos(), "oneof arm is produced", "oneof arm "+name+" is never produced by QToProto: the corresponding query kind cannot be sent")
	}
}

// c24NilSafety: direct field selection on a message parameter.
func c24NilSafety(p *an.Prog, r *an.R, convs []*c24Conv) {
	type unsafeFn struct {
		c     *c24Conv
		field string
		pos   token.Pos
	}
	unsafe := map[*types.Func]*unsafeFn{}
	checked := 0
	var cands []*c24Conv
	p.AllDecls(func(fn *types.Func, d *an.DeclInfo) {
		pk := fn.Pkg().Path()
		if (pk != an.Mod && pk != an.Mod+"/query") || d.Decl.Body == nil {
			return
		}
		sig := fn.Type().(*types.Signature)
		if sig.Recv() != nil || sig.Params().Len() == 0 {
			return
		}
		pt, ok := sig.Params().At(0).Type().(*types.Pointer)
		if !ok || !an.IsProtoMessage(pt.Elem()) {
			return
		}
		cands = append(cands, &c24Conv{fn: fn, d: d, dir: "from", self: an.Param(d.Pkg.TypesInfo, d.Decl, 0)})
	})
	r.Floor("C24.R3.decode-functions", 25, len(cands))
	for _, c := range cands {
		if c.self == nil {
			continue
		}
		info := c.d.Pkg.TypesInfo
		g := an.NewG(info, c.d.Decl.Body)
		for _, l := range g.Locs(func(ast.Node) bool { return true }) {
			an.Inspect(g.Node(l), false, func(m ast.Node) bool {
				se, ok := m.(*ast.SelectorExpr)
				if !ok || !an.UsesObj(info, se.X, c.self) {
					return true
				}
				sel := info.Selections[se]
				if sel == nil || sel.Kind() != types.FieldVal {
					return true
				}
				checked++
				guarded := g.GuardedBy(l, func(cond ast.Expr, truth bool) bool {
					be, ok := ast.Unparen(cond).(*ast.BinaryExpr)
					if !ok || !an.UsesObj(info, be.X, c.self) || !info.Types[be.Y].IsNil() {
						return false
					}
					return (be.Op == token.NEQ && truth) || (be.Op == token.EQL && !truth)
				}, nil)
				if !guarded {
					if unsafe[c.fn] == nil {
						unsafe[c.fn] = &unsafeFn{c, se.Sel.Name, se.Pos()}
					}
				} else {
					r.OK("C24.R3", an.FuncName(c.fn)+"/nil-guarded-field/"+se.Sel.Name, se.Pos(), "direct field selection on the message parameter is dominated by a nil test")
				}
				return true
			})
		}
	}
	// call sites of nil-unsafe functions
	var fns []*types.Func
	for f := range unsafe {
		fns = append(fns, f)
	}
	sort.Slice(fns, func(i, j int) bool { return an.FuncName(fns[i]) < an.FuncName(fns[j]) })
	for _, uf := range fns {
		u := unsafe[uf]
		sites, bad := 0, 0
		p.AllDecls(func(fn *types.Func, d *an.DeclInfo) {
			if d.Decl.Body == nil {
				return
			}
			info := d.Pkg.TypesInfo
			for _, call := range an.CallsTo(info, d.Decl.Body, true, uf) {
				sites++
				arg := ast.Unparen(call.Args[0])
				nilable := true
				why := "argument of unknown origin"
				switch a := arg.(type) {
				case *ast.CallExpr:
					if cal := an.Callee(info, a); cal != nil && strings.HasPrefix(cal.Name(), "Get") {
						why = "argument is the result of getter " + cal.Name() + "(), which is nil when the sub-message is unset"
					}
				case *ast.SelectorExpr:
					// field of a oneof wrapper: non-nil by the decoding assumption
					if sel := info.Selections[a]; sel != nil && sel.Kind() == types.FieldVal {
						if nt := an.NamedOf(sel.Recv()); nt != nil && strings.Contains(nt.Obj().Name(), "_") && nt.Obj().Pkg().Path() == pbPath {
							nilable = false
						}
					}
				case *ast.Ident:
					// element of a repeated field in a range loop, or a request parameter
					if v, ok := info.ObjectOf(a).(*types.Var); ok {
						if isRangeValue(d.Decl.Body, info, v) {
							nilable = false
						}
					}
				case *ast.UnaryExpr:
					if a.Op == token.AND {
						nilable = false
					}
				}
				key := fmt.Sprintf("%s/call/%s(nil-able)", an.FuncName(fn), an.FuncName(uf))
				if nilable {
					bad++
					r.Bad("C24.R3", key, call.Pos(), fmt.Sprintf("%s selects field %s directly on its message parameter without a nil test, and here the %s: a request that leaves the sub-message unset dereferences nil", an.FuncName(uf), u.field, why))
				} else {
					r.OK("C24.R3", fmt.Sprintf("%s/call/%s(non-nil)", an.FuncName(fn), an.FuncName(uf)), call.Pos(), "argument cannot be nil (oneof wrapper field / repeated element / address)")
				}
			}
		})
		if bad == 0 {
			r.OK("C24.R3", an.FuncName(uf)+"/nil-unsafe-but-callers-safe", u.pos, fmt.Sprintf("selects %s without a nil test, but all %d call sites pass values that cannot be nil", u.field, sites))
		}
	}
	r.Floor("C24.R3.direct-selections-checked", 1, checked+len(unsafe))
}

func isRangeValue(body ast.Node, info *types.Info, v *types.Var) bool {
	found := false
	ast.Inspect(body, func(n ast.Node) bool {
		if rs, ok := n.(*ast.RangeStmt); ok && rs.Value != nil {
			if id, ok := rs.Value.(*ast.Ident); ok && info.Defs[id] == v {
				found = true
			}
		}
		return true
	})
	return found
}

// c24Server: reachable panics and error discipline in the gRPC handlers.
func c24Server(p *an.Prog, r *an.R) {
	const srv = "cmd/zoekt-webserver/grpc/server"
	streamer := p.Named("", "Streamer")
	searcher := p.Named("", "Searcher")
	var roots []*ssa.Function
	for _, m := range []string{"(*Server).Search", "(*Server).StreamSearch", "(*Server).List"} {
		f := p.Func(srv, m)
		if !r.Anchor(f != nil && p.Decl(f) != nil, srv+"."+m) {
			return
		}
		roots = append(roots, p.SSAFunc(f))
	}
	// closures and helpers of the server package are called back by the
	// streamer (senders): they are on the handler path too
	for _, f := range p.SSAFuncs() {
		if f.Pkg != nil && f.Pkg.Pkg.Path() == an.Mod+"/"+srv {
			roots = append(roots, f)
		}
	}
	isStreamerCall := func(e *callgraph.Edge) bool {
		if e.Site == nil || !e.Site.Common().IsInvoke() {
			return false
		}
		rt := e.Site.Common().Value.Type()
		return (streamer != nil && types.Identical(rt, streamer)) || (searcher != nil && types.Identical(rt, searcher))
	}
	reached := an.ReachFuncs(p.VTA(), roots, func(e *callgraph.Edge) bool {
		if isStreamerCall(e) {
			return false
		}
		c := e.Callee.Func
		if c.Pkg == nil || !an.InModule(c.Pkg.Pkg) || c.Blocks == nil {
			return false
		}
		// the Streamer's implementation lives in packages search and index,
		// behind the Streamer call; panics there are C11's containment rule
		switch c.Pkg.Pkg.Path() {
		case an.Mod + "/search", an.Mod + "/index", an.Mod + "/web":
			return false
		}
		return true
	})
	var fns []*ssa.Function
	for f := range reached {
		fns = append(fns, f)
	}
	sort.Slice(fns, func(i, j int) bool { return an.SSAName(fns[i]) < an.SSAName(fns[j]) })
	table := map[string]string{}
	for _, f := range fns {
		r.Fn(an.SSAName(f))
		an.Instrs(f, func(b *ssa.BasicBlock, in ssa.Instruction) {
			what := ""
			switch x := in.(type) {
			case *ssa.Panic:
				what = "panic"
			case ssa.CallInstruction:
				if cal := an.CalleeAny(x); cal != nil && cal.Pkg() != nil {
					n := cal.Name()
					if cal.Pkg().Path() == "log" && (strings.HasPrefix(n, "Panic") || strings.HasPrefix(n, "Fatal")) {
						what = "log." + n
					} else if strings.HasPrefix(n, "Must") && !an.InModule(cal.Pkg()) {
						what = cal.Pkg().Name() + "." + n
					}
				}
			}
			if what == "" {
				return
			}
			key := an.SSAName(f) + "/" + what
			if why := table[key]; why != "" {
				r.OK("C24.R3", key, in.Pos(), "table: "+why)
				return
			}
			r.Bad("C24.R3", key, in.Pos(), "explicit "+what+" reachable from a gRPC handler (no recovery interceptor is installed): "+an.PathTo(reached, f))
		})
	}
	r.Floor("C24.R3.functions-reached", 40, len(reached))

	// error discipline
	for _, m := range []string{"(*Server).Search", "(*Server).StreamSearch", "(*Server).List"} {
		f := p.Func(srv, m)
		d := p.Decl(f)
		info := d.Pkg.TypesInfo
		g := an.NewG(info, d.Decl.Body)
		var targets []an.Loc
		for _, l := range g.Locs(func(ast.Node) bool { return true }) {
			if g.Contains(l, func(n ast.Node) bool {
				c, ok := n.(*ast.CallExpr)
				if !ok {
					return false
				}
				se, ok := ast.Unparen(c.Fun).(*ast.SelectorExpr)
				if !ok {
					return false
				}
				sel := info.Selections[se]
				return sel != nil && streamer != nil && types.Identical(sel.Recv(), streamer)
			}) {
				targets = append(targets, l)
			}
		}
		if !r.Anchor(len(targets) > 0, an.FuncName(f)+"/Streamer call") {
			continue
		}
		errCheckedBefore(r, "C24.R3", d, g, an.FuncName(f), "streamer", targets, "a request whose query failed to decode is searched with a nil query")
	}
}
