package props

import (
	"fmt"
	"go/ast"
	"go/token"
	"go/types"
	"sort"
	"strings"

	"zverif/checker/an"
)

func init() { register("C31", c31) }

const isrv = "cmd/zoekt-sourcegraph-indexserver"

func c31(p *an.Prog, r *an.R, tier string) {
	r.Explanation = "C31 (structural clauses): indexMutex.With holds the read lock from entry to exit and calls f only while it is held and only when the repository was not already marked running; the running set is touched only under its own mutex; the marker is removed only by the call that set it; `true` is returned only after f ran and `false` only on the skip path where f is not called; Global holds the write lock around f. In the indexserver every index-directory mutator (Server.index, cleanup, removeTombstones, purgeTenantShards, explodeTenantCompoundShards, external zoekt-merge-index / zoekt-git-index / git processes) is reachable only through closures passed to With/Global, directory-scoped ones only through Global. The membership test of the running set and the insertion of the marker form one critical section of runningMu. Does NOT decide fairness/liveness."
	r.Rule("C31.R1", "With/Global: the lock call precedes f() on every path, the unlock is deferred (no explicit unlock before f), `running` is accessed only between runningMu.Lock/Unlock, the removal of the running marker is installed only on the not-already-running path")
	r.Rule("C31.R2", "With returns true only on paths through f() and false only on the alreadyRunning path, from which f() is unreachable")
	r.Rule("C31.R3", "who-may-call: every call site of an index-directory mutator in the indexserver lies (transitively through its callers) inside a closure passed to indexMutex.With (repository-scoped) or indexMutex.Global (directory-scoped); exec sites that do not touch the index directory are listed exceptions")
	c31Mutex(p, r)
	c31WhoMayCall(p, r)
}

// selField reports whether e selects the given field (x.f).
func selField(info *types.Info, e ast.Expr, f *types.Var) bool {
	se, ok := ast.Unparen(e).(*ast.SelectorExpr)
	return ok && info.Selections[se] != nil && info.Selections[se].Obj() == f
}

// muCall: node contains (outside function literals, not in a defer) a call
// <x>.<mu>.<method>().
func muCall(info *types.Info, n ast.Node, mu *types.Var, methods ...string) bool {
	if _, isDefer := n.(*ast.DeferStmt); isDefer {
		return false
	}
	found := false
	an.Inspect(n, false, func(m ast.Node) bool {
		c, ok := m.(*ast.CallExpr)
		if !ok {
			return true
		}
		se, ok := ast.Unparen(c.Fun).(*ast.SelectorExpr)
		if !ok || !selFieldOrAlias(info, se.X, mu) {
			return true
		}
		for _, name := range methods {
			if se.Sel.Name == name {
				found = true
			}
		}
		return true
	})
	return found
}

func deferredMuCall(info *types.Info, n ast.Node, mu *types.Var, method string) bool {
	ds, ok := n.(*ast.DeferStmt)
	if !ok {
		return false
	}
	se, ok := ast.Unparen(ds.Call.Fun).(*ast.SelectorExpr)
	return ok && selFieldOrAlias(info, se.X, mu) && se.Sel.Name == method
}

// aliasScope is the function body in which single-definition locals are resolved (set by c31Mutex).
var aliasScope ast.Node

// selFieldOrAlias: e selects field f, or is a single-definition local defined as (the address of) such a selection.
func selFieldOrAlias(info *types.Info, e ast.Expr, f *types.Var) bool {
	if selField(info, e, f) {
		return true
	}
	if aliasScope == nil {
		return false
	}
	dd := defOf(info, aliasScope, e)
	if dd == nil {
		return false
	}
	dd = ast.Unparen(dd)
	if u, ok := dd.(*ast.UnaryExpr); ok && u.Op == token.AND {
		dd = ast.Unparen(u.X)
	}
	return selField(info, dd, f)
}

func c31Mutex(p *an.Prog, r *an.R) {
	indexMu := p.Field(isrv, "indexMutex", "indexMu")
	runningMu := p.Field(isrv, "indexMutex", "runningMu")
	running := p.Field(isrv, "indexMutex", "running")
	if !r.Anchor(indexMu != nil && runningMu != nil && running != nil, isrv+".indexMutex fields") {
		return
	}
	for _, spec := range []struct{ name, lock, unlock string }{{"(*indexMutex).With", "RLock", "RUnlock"}, {"(*indexMutex).Global", "Lock", "Unlock"}} {
		f := p.Func(isrv, spec.name)
		d := p.Decl(f)
		if !r.Anchor(d != nil, isrv+"."+spec.name) {
			continue
		}
		fname := an.FuncName(f)
		r.Fn(fname)
		info := d.Pkg.TypesInfo
		aliasScope = d.Decl.Body
		g := an.NewG(info, d.Decl.Body)
		fParam := an.Param(info, d.Decl, len(d.Decl.Type.Params.List)-1)
		if spec.name == "(*indexMutex).With" {
			fParam = an.Param(info, d.Decl, 1)
		}
		// "f runs here": a direct call of the callback, a call that hands the callback on to a function of
		// the package, or a call of a local closure whose body calls the callback
		closureOf := func(fn ast.Expr) *ast.FuncLit {
			if dd := defOf(info, d.Decl.Body, fn); dd != nil {
				if fl, ok := ast.Unparen(dd).(*ast.FuncLit); ok {
					return fl
				}
			}
			return nil
		}
		callsFDirect := func(n ast.Node, cb types.Object) bool {
			hit := false
			ast.Inspect(n, func(m ast.Node) bool {
				if c, ok := m.(*ast.CallExpr); ok && an.UsesObj(info, c.Fun, cb) {
					hit = true
				}
				return true
			})
			return hit
		}
		runsF := func(gg *an.G, cb types.Object) func(l an.Loc) bool {
			return func(l an.Loc) bool {
				return gg.Contains(l, func(m ast.Node) bool {
					c, ok := m.(*ast.CallExpr)
					if !ok {
						return false
					}
					if an.UsesObj(info, c.Fun, cb) {
						return true
					}
					if fl := closureOf(c.Fun); fl != nil && callsFDirect(fl.Body, cb) {
						return true
					}
					if callee := an.Callee(info, c); callee != nil && callee.Pkg() == f.Pkg() {
						for _, a := range c.Args {
							if an.UsesObj(info, a, cb) {
								return true
							}
						}
					}
					return false
				})
			}
		}
		// scopes in which the lock protocol is checked: the method body, and closures of it that call f directly
		type scope struct {
			g    *an.G
			lit  *ast.FuncLit
			name string
		}
		scopes := []scope{{g, nil, fname}}
		ast.Inspect(d.Decl.Body, func(n ast.Node) bool {
			if fl, ok := n.(*ast.FuncLit); ok && callsFDirect(fl.Body, fParam) {
				scopes = append(scopes, scope{an.NewG(info, fl.Body), fl, fname})
			}
			return true
		})
		lockOK := func(sg *an.G, l an.Loc) (bool, bool) {
			isLock := func(k an.Loc) bool { return muCall(info, sg.Node(k), indexMu, spec.lock) }
			isDeferUnlock := func(k an.Loc) bool { return deferredMuCall(info, sg.Node(k), indexMu, spec.unlock) }
			noLock := sg.Reach(sg.Entry(), false, &an.Search{Target: func(k an.Loc) bool { return k == l }, Cut: isLock})
			noDefer := sg.Reach(sg.Entry(), false, &an.Search{Target: func(k an.Loc) bool { return k == l }, Cut: isDeferUnlock})
			return !noLock, !noDefer
		}
		isF := runsF(g, fParam)
		fCalls := g.Locs(func(ast.Node) bool { return true })
		nF := 0
		for _, sc := range scopes {
			scIsF := runsF(sc.g, fParam)
			for _, l := range sc.g.Locs(func(ast.Node) bool { return true }) {
				if !scIsF(l) {
					continue
				}
				// a call of a local closure that itself takes the lock is checked inside that closure
				viaClosure := false
				sc.g.Contains(l, func(m ast.Node) bool {
					if c, ok := m.(*ast.CallExpr); ok {
						if fl := closureOf(c.Fun); fl != nil && callsFDirect(fl.Body, fParam) {
							viaClosure = true
						}
					}
					return false
				})
				held, deferred := lockOK(sc.g, l)
				if viaClosure && !(held && deferred) {
					continue // decided in the closure's own scope
				}
				if !(held && deferred) {
					// the callback is handed to a function of the package that takes the lock itself
					sc.g.Contains(l, func(m ast.Node) bool {
						c, ok := m.(*ast.CallExpr)
						if !ok {
							return false
						}
						callee := an.Callee(info, c)
						if callee == nil || callee.Pkg() != f.Pkg() {
							return false
						}
						hd := p.Decl(callee)
						if hd == nil || hd.Decl.Body == nil {
							return false
						}
						for i, a := range c.Args {
							if !an.UsesObj(info, a, fParam) {
								continue
							}
							hp := an.Param(info, hd.Decl, i)
							if hp == nil {
								continue
							}
							hg := an.NewG(info, hd.Decl.Body)
							all, n := true, 0
							for _, hl := range hg.Locs(func(ast.Node) bool { return true }) {
								direct := hg.Contains(hl, func(k ast.Node) bool {
									cc, ok := k.(*ast.CallExpr)
									return ok && an.UsesObj(info, cc.Fun, hp)
								})
								if !direct {
									continue
								}
								n++
								prev := aliasScope
								aliasScope = hd.Decl.Body
								h2, d2 := lockOK(hg, hl)
								aliasScope = prev
								if !(h2 && d2) {
									all = false
								}
							}
							if n > 0 && all {
								held, deferred = true, true
							}
						}
						return false
					})
				}
				if sc.lit != nil && !(held && deferred) {
					// the closure expects the lock: every call site of it in the method body holds it
					all, calls := true, 0
					for _, cl := range g.Locs(func(ast.Node) bool { return true }) {
						isCall := g.Contains(cl, func(m ast.Node) bool {
							c, ok := m.(*ast.CallExpr)
							return ok && closureOf(c.Fun) == sc.lit
						})
						if !isCall {
							continue
						}
						calls++
						h2, d2 := lockOK(g, cl)
						if !(h2 && d2) {
							all = false
						}
					}
					if calls > 0 && all {
						held, deferred = true, true
					}
				}
				nF++
				r.Check(held, "C31.R1", fname+"/f()/lock-held/"+spec.lock, sc.g.Node(l).Pos(), "indexMu."+spec.lock+"() precedes f() on every path", "f() is reachable without indexMu."+spec.lock+"(): the operation runs outside the mutual exclusion")
				r.Check(deferred, "C31.R1", fname+"/f()/unlock-deferred", sc.g.Node(l).Pos(), "the unlock is deferred before f() runs (held until exit)", "f() is reachable without the unlock having been deferred: an early return or panic in f leaves the lock held, or the lock is released elsewhere")
			}
			// no explicit unlock of indexMu anywhere
			for _, k := range sc.g.Locs(func(n ast.Node) bool { return muCall(info, n, indexMu, "Unlock", "RUnlock") }) {
				r.Bad("C31.R1", fname+"/explicit-unlock", sc.g.Node(k).Pos(), "indexMu is unlocked explicitly inside "+fname+": f() may run (or still be running) without the lock")
			}
		}
		r.Floor("C31.R1."+spec.name+".f-calls", 1, nF)
		if spec.name != "(*indexMutex).With" {
			continue
		}
		// the marker protocol lives where the callback is called directly: With itself, or the method of the
		// package that With hands the callback to
		hasLookup := false
		ast.Inspect(d.Decl.Body, func(n ast.Node) bool {
			if as, ok := n.(*ast.AssignStmt); ok && len(as.Lhs) == 2 && len(as.Rhs) == 1 {
				if ix, ok := ast.Unparen(as.Rhs[0]).(*ast.IndexExpr); ok && selField(info, ix.X, running) {
					hasLookup = true
				}
			}
			return true
		})
		if !callsFDirect(d.Decl.Body, fParam) && !hasLookup {
			var innerD *an.DeclInfo
			var innerF types.Object
			var innerFn *types.Func
			ast.Inspect(d.Decl.Body, func(n ast.Node) bool {
				c, ok := n.(*ast.CallExpr)
				if !ok {
					return true
				}
				callee := an.Callee(info, c)
				if callee == nil || callee.Pkg() != f.Pkg() {
					return true
				}
				for i, a := range c.Args {
					if an.UsesObj(info, a, fParam) {
						if hd := p.Decl(callee); hd != nil && hd.Decl.Body != nil {
							innerD, innerFn = hd, callee
							innerF = an.Param(info, hd.Decl, i)
						}
					}
				}
				return true
			})
			if !r.Anchor(innerD != nil && innerF != nil, fname+"/function that calls the callback") {
				continue
			}
			// With must hand back what the inner function reports
			retOK := true
			ast.Inspect(d.Decl.Body, func(n ast.Node) bool {
				if _, isLit := n.(*ast.FuncLit); isLit {
					return false
				}
				if rs, ok := n.(*ast.ReturnStmt); ok {
					c, isC := ast.Unparen(rs.Results[0]).(*ast.CallExpr)
					if len(rs.Results) != 1 || !isC || an.Callee(info, c) != innerFn {
						retOK = false
					}
				}
				return true
			})
			r.Check(retOK, "C31.R2", fname+"/returns-what-the-inner-function-reports", d.Decl.Pos(), "With returns the result of "+an.FuncName(innerFn), "With does not return the ran/skipped report of "+an.FuncName(innerFn))
			d, f, fParam = innerD, innerFn, innerF.(*types.Var)
			fname = an.FuncName(innerFn)
			r.Fn(fname)
			aliasScope = d.Decl.Body
			g = an.NewG(info, d.Decl.Body)
			isF = runsF(g, fParam)
			fCalls = g.Locs(func(ast.Node) bool { return true })
		}
		// running accessed only under runningMu (direct accesses in this body and in function literals)
		var bodies []*ast.BlockStmt
		bodies = append(bodies, d.Decl.Body)
		ast.Inspect(d.Decl.Body, func(n ast.Node) bool {
			if lit, ok := n.(*ast.FuncLit); ok {
				bodies = append(bodies, lit.Body)
			}
			return true
		})
		// helper functions of the package that touch the running set (mark/unmark extracted from With)
		helpers := map[*types.Func]*an.DeclInfo{}
		p.AllDecls(func(hf *types.Func, hd *an.DeclInfo) {
			if hd.Pkg != d.Pkg || hd.Decl.Body == nil || hf == f || strings.HasSuffix(p.Fset.Position(hd.Decl.Pos()).Filename, "_test.go") {
				return
			}
			touches := false
			ast.Inspect(hd.Decl.Body, func(m ast.Node) bool {
				if e, ok := m.(ast.Expr); ok && selField(info, e, running) {
					touches = true
				}
				return true
			})
			if touches {
				helpers[hf] = hd
				bodies = append(bodies, hd.Decl.Body)
			}
		})
		removesMarker := func(n ast.Node) bool {
			hit := false
			ast.Inspect(n, func(m ast.Node) bool {
				if c, ok := m.(*ast.CallExpr); ok && an.IsBuiltin(info, c, "delete") && len(c.Args) == 2 && selField(info, c.Args[0], running) {
					hit = true
				}
				return true
			})
			return hit
		}
		acc := 0
		for _, body := range bodies {
			bg := an.NewG(info, body)
			for _, l := range bg.Locs(func(ast.Node) bool { return true }) {
				touches := bg.Contains(l, func(m ast.Node) bool {
					e, ok := m.(ast.Expr)
					return ok && selField(info, e, running)
				})
				if !touches {
					continue
				}
				acc++
				isLock := func(k an.Loc) bool { return muCall(info, bg.Node(k), runningMu, "Lock") }
				isUnlock := func(k an.Loc) bool { return muCall(info, bg.Node(k), runningMu, "Unlock") }
				unlocked := bg.Reach(bg.Entry(), false, &an.Search{Target: func(k an.Loc) bool { return k == l }, Cut: isLock})
				for _, ul := range bg.Locs(func(ast.Node) bool { return true }) {
					if isUnlock(ul) && bg.Reach(ul, true, &an.Search{Target: func(k an.Loc) bool { return k == l }, Cut: isLock}) {
						unlocked = true
					}
				}
				if unlocked && body != d.Decl.Body {
					// a helper that expects runningMu: every call site of it in the package holds the lock
					var hfn *types.Func
					for hf, hd := range helpers {
						if hd.Decl.Body == body {
							hfn = hf
						}
					}
					if hfn != nil {
						callers, allHold := 0, true
						p.AllDecls(func(cf *types.Func, cd *an.DeclInfo) {
							if cd.Pkg != d.Pkg || cd.Decl.Body == nil || cf == hfn {
								return
							}
							cg := an.NewG(info, cd.Decl.Body)
							for _, cl := range cg.Locs(func(n ast.Node) bool { return len(an.CallsTo(info, n, false, hfn)) > 0 }) {
								callers++
								if !lockHeldAt(cg, info, cl, runningMu, "Lock") {
									allHold = false
								}
							}
						})
						if callers > 0 && allHold {
							unlocked = false
						}
					}
				}
				r.Check(!unlocked, "C31.R1", fname+"/running-under-runningMu", bg.Node(l).Pos(), "running is accessed between runningMu.Lock and Unlock", "the running set is accessed without runningMu held: two With calls race on the map and both may see the repository as free")
			}
		}
		r.Floor("C31.R1.running-accesses", 3, acc)
		// alreadyRunning variable
		var already types.Object
		ast.Inspect(d.Decl.Body, func(n ast.Node) bool {
			if as, ok := n.(*ast.AssignStmt); ok && len(as.Lhs) == 2 && len(as.Rhs) == 1 {
				if ix, ok := ast.Unparen(as.Rhs[0]).(*ast.IndexExpr); ok && selField(info, ix.X, running) {
					if id, ok := as.Lhs[1].(*ast.Ident); ok {
						already = info.ObjectOf(id)
					}
				}
			}
			return true
		})
		if already == nil {
			// `busy := m.mark(repo)` where the helper returns the ok of a lookup in running
			ast.Inspect(d.Decl.Body, func(n ast.Node) bool {
				as, ok := n.(*ast.AssignStmt)
				if !ok || len(as.Lhs) != 1 || len(as.Rhs) != 1 {
					return true
				}
				c, ok := ast.Unparen(as.Rhs[0]).(*ast.CallExpr)
				if !ok {
					return true
				}
				hd := helpers[an.Callee(info, c)]
				if hd == nil {
					return true
				}
				var okVar types.Object
				ast.Inspect(hd.Decl.Body, func(m ast.Node) bool {
					if a2, ok := m.(*ast.AssignStmt); ok && len(a2.Lhs) == 2 && len(a2.Rhs) == 1 {
						if ix, ok := ast.Unparen(a2.Rhs[0]).(*ast.IndexExpr); ok && selField(info, ix.X, running) {
							if id, ok := a2.Lhs[1].(*ast.Ident); ok {
								okVar = info.ObjectOf(id)
							}
						}
					}
					return true
				})
				returnsIt := okVar != nil
				ast.Inspect(hd.Decl.Body, func(m ast.Node) bool {
					if rs, ok := m.(*ast.ReturnStmt); ok && (len(rs.Results) != 1 || !isIdentOf(info, rs.Results[0], okVar)) {
						returnsIt = false
					}
					return true
				})
				if returnsIt {
					if id, ok := as.Lhs[0].(*ast.Ident); ok {
						already = info.ObjectOf(id)
					}
				}
				return true
			})
		}
		// lookupHelper: a helper of the package whose every return is the ok of a lookup in running
		lookupHelper := func(callee *types.Func) bool {
			hd := helpers[callee]
			if hd == nil {
				return false
			}
			var okVar types.Object
			ast.Inspect(hd.Decl.Body, func(m ast.Node) bool {
				if a2, ok := m.(*ast.AssignStmt); ok && len(a2.Lhs) == 2 && len(a2.Rhs) == 1 {
					if ix, ok := ast.Unparen(a2.Rhs[0]).(*ast.IndexExpr); ok && selField(info, ix.X, running) {
						if id, ok := a2.Lhs[1].(*ast.Ident); ok {
							okVar = info.ObjectOf(id)
						}
					}
				}
				return true
			})
			returnsIt := okVar != nil
			ast.Inspect(hd.Decl.Body, func(m ast.Node) bool {
				if rs, ok := m.(*ast.ReturnStmt); ok && (len(rs.Results) != 1 || !isIdentOf(info, rs.Results[0], okVar)) {
					returnsIt = false
				}
				return true
			})
			return returnsIt
		}
		// `if m.isRunning(repo) {..}`: the helper's result tested directly
		condCall := false
		if already == nil {
			for _, b := range g.C.Blocks {
				if cond := an.CondOf(b); cond != nil {
					ast.Inspect(cond, func(m ast.Node) bool {
						if c, ok := m.(*ast.CallExpr); ok && lookupHelper(an.Callee(info, c)) {
							condCall = true
						}
						return true
					})
				}
			}
		}
		if !r.Anchor(already != nil || condCall, fname+"/membership test of running") {
			continue
		}
		notAlready := func(cond ast.Expr, truth bool) bool {
			if already != nil {
				return an.UsesObj(info, cond, already) && !truth
			}
			c, ok := ast.Unparen(cond).(*ast.CallExpr)
			return ok && lookupHelper(an.Callee(info, c)) && !truth
		}
		c31TestAndSet(p, r, info, fname, d, helpers, running, runningMu)
		// marker removal installed only on the not-already-running path
		nRemovals := 0
		for _, l := range g.Locs(func(ast.Node) bool { return true }) {
			removes := false
			if ds, isDefer := g.Node(l).(*ast.DeferStmt); isDefer {
				// a deferred literal, a deferred local closure, or a deferred helper that removes the marker
				switch fn := ast.Unparen(ds.Call.Fun).(type) {
				case *ast.FuncLit:
					removes = removesMarker(fn.Body)
				case *ast.Ident:
					if dd := defOf(info, d.Decl.Body, fn); dd != nil {
						if fl, ok := ast.Unparen(dd).(*ast.FuncLit); ok {
							removes = removesMarker(fl.Body)
						}
					}
				}
				if hd := helpers[an.Callee(info, ds.Call)]; hd != nil && removesMarker(hd.Decl.Body) {
					removes = true
				}
			} else if _, isAssign := g.Node(l).(*ast.AssignStmt); !isAssign {
				// a direct (non-deferred) removal in With's own body
				an.Inspect(g.Node(l), false, func(m ast.Node) bool {
					if c, ok := m.(*ast.CallExpr); ok && an.IsBuiltin(info, c, "delete") && len(c.Args) == 2 && selField(info, c.Args[0], running) {
						removes = true
					}
					return true
				})
			}
			if !removes {
				continue
			}
			nRemovals++
			ok := g.GuardedBy(l, notAlready, nil)
			r.Check(ok, "C31.R1", fname+"/marker-removed-only-by-owner", g.Node(l).Pos(), "the running marker is removed only on the path that did not find it already set",
				"the removal of the running marker is installed before/without the alreadyRunning test: a skipped call deletes the marker of the operation that is still running, and a third call for the same repository is admitted concurrently")
		}
		r.Floor("C31.R1.marker-removals", 1, nRemovals)
		// f() only when not already running
		for _, l := range fCalls {
			if isF(l) {
				ok := g.GuardedBy(l, notAlready, nil)
				r.Check(ok, "C31.R2", fname+"/f()/only-when-not-already-running", g.Node(l).Pos(), "f() runs only when the repository was not already running", "f() is reachable although the repository is already running: two operations for one repository run at the same time")
			}
		}
		// returns
		for _, l := range g.Locs(func(n ast.Node) bool { _, ok := n.(*ast.ReturnStmt); return ok }) {
			rs := g.Node(l).(*ast.ReturnStmt)
			if len(rs.Results) != 1 {
				continue
			}
			tv := info.Types[rs.Results[0]]
			retVal := ""
			if tv.Value != nil {
				retVal = tv.Value.String()
			} else if c, ok := ast.Unparen(rs.Results[0]).(*ast.CallExpr); ok {
				// a helper of the package whose every return is the same bool constant
				if hd := p.Decl(an.Callee(info, c)); hd != nil && hd.Decl.Body != nil && hd.Pkg == d.Pkg {
					vals := map[string]bool{}
					ast.Inspect(hd.Decl.Body, func(m ast.Node) bool {
						if hr, ok := m.(*ast.ReturnStmt); ok {
							if len(hr.Results) == 1 && info.Types[hr.Results[0]].Value != nil {
								vals[info.Types[hr.Results[0]].Value.String()] = true
							} else {
								vals["?"] = true
							}
						}
						return true
					})
					if len(vals) == 1 && !vals["?"] {
						for v := range vals {
							retVal = v
						}
					}
				}
			}
			if retVal == "" {
				r.Und("C31.R2", fname+"/return/non-constant", rs.Pos(), "With returns a non-constant value; the ran/skipped report cannot be decided")
				continue
			}
			if retVal == "true" {
				skipsF := g.Reach(g.Entry(), false, &an.Search{Target: func(k an.Loc) bool { return k == l }, Cut: isF})
				r.Check(!skipsF, "C31.R2", fname+"/return-true/after-f", rs.Pos(), "`return true` only after f() ran", "With can return true without having called f(): a skipped operation is reported as run")
			} else {
				ok := g.GuardedBy(l, func(cond ast.Expr, truth bool) bool { return notAlready(cond, !truth) }, nil)
				ranF := false
				for _, fl := range fCalls {
					if isF(fl) && g.Reach(fl, true, &an.Search{Target: func(k an.Loc) bool { return k == l }}) {
						ranF = true
					}
				}
				r.Check(ok && !ranF, "C31.R2", fname+"/return-false/only-when-skipped", rs.Pos(), "`return false` only on the alreadyRunning path, on which f() is not called", "With can return false on a path where f() ran or where the repository was not busy: a run is reported as skipped")
			}
		}
	}
}

func c31WhoMayCall(p *an.Prog, r *an.R) {
	pk := p.Pkg(isrv)
	with := p.Func(isrv, "(*indexMutex).With")
	global := p.Func(isrv, "(*indexMutex).Global")
	if !r.Anchor(pk != nil && with != nil && global != nil, isrv+" package / indexMutex") {
		return
	}
	info := pk.TypesInfo
	// mutators: name -> scope ("repo" | "dir")
	mut := map[*types.Func]string{}
	for name, scope := range map[string]string{
		"(*Server).index": "repo", "cleanup": "dir", "removeTombstones": "dir", "purgeTenantShards": "dir",
		"(*Server).explodeTenantCompoundShards": "dir", "(*Server).loggedRun": "repo",
	} {
		f := p.Func(isrv, name)
		if !r.Anchor(f != nil, isrv+"."+name) {
			continue
		}
		mut[f] = scope
	}
	// exec run methods are directory-scoped unless excepted
	execRun := map[*types.Func]bool{}
	for _, m := range []string{"Cmd.Run", "Cmd.Output", "Cmd.CombinedOutput", "Cmd.Start"} {
		if f := p.ExtFunc("os/exec", m); f != nil {
			execRun[f] = true
		}
	}
	exceptions := map[string]string{
		"cmd/zoekt-sourcegraph-indexserver.(*Server).loggedRun/exec.Cmd.Start":   "loggedRun is itself a repository-scoped mutator: its call sites are checked instead",
		"cmd/zoekt-sourcegraph-indexserver.getBoolFromGitConfig/exec.Cmd.Output": "",
	}
	_ = exceptions
	// parents for enclosure
	type site struct {
		call   *ast.CallExpr
		encl   *types.Func // enclosing declared function
		lits   []*ast.FuncLit
		callee *types.Func
	}
	parentLits := func(fd *ast.FuncDecl, target ast.Node) []*ast.FuncLit {
		var stack []ast.Node
		var out []*ast.FuncLit
		ast.Inspect(fd, func(n ast.Node) bool {
			if n == nil {
				stack = stack[:len(stack)-1]
				return true
			}
			stack = append(stack, n)
			if n == target {
				for _, s := range stack {
					if l, ok := s.(*ast.FuncLit); ok {
						out = append(out, l)
					}
				}
			}
			return true
		})
		return out
	}
	// which FuncLits are arguments of With/Global
	litLock := map[*ast.FuncLit]string{}
	for _, f := range pk.Syntax {
		ast.Inspect(f, func(n ast.Node) bool {
			c, ok := n.(*ast.CallExpr)
			if !ok {
				return true
			}
			cal := an.Callee(info, c)
			kind := ""
			if cal == with {
				kind = "With"
			} else if cal == global {
				kind = "Global"
			}
			if kind == "" {
				return true
			}
			for _, a := range c.Args {
				if l, ok := ast.Unparen(a).(*ast.FuncLit); ok {
					litLock[l] = kind
				}
			}
			return true
		})
	}
	var sites []site
	for _, f := range pk.Syntax {
		for _, dcl := range f.Decls {
			fd, ok := dcl.(*ast.FuncDecl)
			if !ok || fd.Body == nil {
				continue
			}
			encl, _ := info.Defs[fd.Name].(*types.Func)
			ast.Inspect(fd.Body, func(n ast.Node) bool {
				c, ok := n.(*ast.CallExpr)
				if !ok {
					return true
				}
				if cal := an.Callee(info, c); cal != nil {
					sites = append(sites, site{c, encl, nil, cal})
				}
				return true
			})
		}
	}
	declOf := func(fn *types.Func) *ast.FuncDecl {
		if d := p.Decl(fn); d != nil {
			return d.Decl
		}
		return nil
	}
	// held(fn, scope): is every call site of fn under the required lock?
	memo := map[string]string{}
	var heldAtSite func(s site, scope string, depth int) (bool, string)
	var heldFn func(fn *types.Func, scope string, depth int) (bool, string)
	heldAtSite = func(s site, scope string, depth int) (bool, string) {
		fd := declOf(s.encl)
		if fd == nil {
			return false, "no declaration"
		}
		for _, l := range parentLits(fd, s.call) {
			if k := litLock[l]; k == "Global" || (k == "With" && scope == "repo") {
				return true, "inside a closure passed to indexMutex." + k + " in " + an.FuncName(s.encl)
			} else if k == "With" {
				return false, "inside indexMutex.With in " + an.FuncName(s.encl) + ", but this is a directory-scoped operation that needs Global"
			}
		}
		return heldFn(s.encl, scope, depth+1)
	}
	heldFn = func(fn *types.Func, scope string, depth int) (bool, string) {
		key := an.FuncName(fn) + "|" + scope
		if v, ok := memo[key]; ok {
			return v == "", v
		}
		if depth > 8 {
			return false, "call chain too deep"
		}
		memo[key] = "recursive" // cycle guard: pessimistic
		n := 0
		why := ""
		for _, s := range sites {
			if s.callee != fn {
				continue
			}
			n++
			if ok, w := heldAtSite(s, scope, depth); !ok {
				why = fmt.Sprintf("called from %s at %s: %s", an.FuncName(s.encl), p.Pos(s.call.Pos()), w)
				break
			}
		}
		if n == 0 && why == "" {
			why = an.FuncName(fn) + " has no call site in the package (entry point or used as a value) and does not take the lock itself"
		}
		memo[key] = why
		return why == "", why
	}
	n := 0
	sort.Slice(sites, func(i, j int) bool { return sites[i].call.Pos() < sites[j].call.Pos() })
	counts := map[string]int{}
	for _, s := range sites {
		scope, isMut := mut[s.callee]
		what := an.FuncName(s.callee)
		if !isMut && execRun[s.callee] {
			isMut, scope = true, "dir"
			what = calleeShort(s.callee)
		}
		if !isMut {
			continue
		}
		key := fmt.Sprintf("%s/calls/%s", an.FuncName(s.encl), what)
		counts[key]++
		if counts[key] > 1 {
			key = fmt.Sprintf("%s#%d", key, counts[key])
		}
		r.Fn(an.FuncName(s.encl))
		// exec sites inside a mutator are covered by the mutator's own call sites
		if execRun[s.callee] {
			if sc, ok := mut[s.encl]; ok {
				r.OK("C31.R3", key, s.call.Pos(), "external process started inside the "+sc+"-scoped mutator "+an.FuncName(s.encl)+", whose call sites are checked")
				n++
				continue
			}
			if why, ok := c31ExecExceptions[key]; ok {
				r.OK("C31.R3", key, s.call.Pos(), "exception: "+why)
				r.Except(key, why)
				n++
				continue
			}
		}
		n++
		ok, why := heldAtSite(s, scope, 0)
		r.Check(ok, "C31.R3", key, s.call.Pos(), why, "index-directory mutator "+what+" ("+scope+"-scoped) is reachable outside the index mutex: "+why)
	}
	r.Floor("C31.R3.mutator-call-sites", 9, n)
	_ = token.NoPos
}

var c31ExecExceptions = map[string]string{
	"cmd/zoekt-sourcegraph-indexserver.sourcegraphFake.getBranches/calls/exec.Cmd.Output": "`git rev-parse` in the source repository of the fake (debug) Sourcegraph client: reads a git dir outside the index directory",
}

// c31TestAndSet: the membership test of the running set and the insertion of the marker form one critical section
// of runningMu - otherwise two With calls for one repository can both find it free.
func c31TestAndSet(p *an.Prog, r *an.R, info *types.Info, fname string, d *an.DeclInfo, helpers map[*types.Func]*an.DeclInfo, running, runningMu *types.Var) {
	isTest := func(n ast.Node) bool {
		as, ok := n.(*ast.AssignStmt)
		if !ok || len(as.Lhs) != 2 || len(as.Rhs) != 1 {
			return false
		}
		ix, ok := ast.Unparen(as.Rhs[0]).(*ast.IndexExpr)
		return ok && selField(info, ix.X, running)
	}
	isSet := func(n ast.Node) bool {
		as, ok := n.(*ast.AssignStmt)
		if !ok {
			return false
		}
		for _, lh := range as.Lhs {
			if ix, ok := ast.Unparen(lh).(*ast.IndexExpr); ok && selField(info, ix.X, running) {
				return true
			}
		}
		return false
	}
	has := func(body *ast.BlockStmt, pred func(ast.Node) bool) bool {
		hit := false
		ast.Inspect(body, func(m ast.Node) bool {
			if _, isLit := m.(*ast.FuncLit); isLit {
				return false
			}
			if m != nil && pred(m) {
				hit = true
			}
			return !hit
		})
		return hit
	}
	locks := func(body *ast.BlockStmt) bool {
		return has(body, func(m ast.Node) bool {
			st, ok := m.(ast.Stmt)
			return ok && (muCall(info, st, runningMu, "Lock", "Unlock") || deferredMuCall(info, st, runningMu, "Unlock"))
		})
	}
	key := fname + "/test-and-set-of-running-in-one-critical-section"
	// both in one helper: judged inside the helper
	body := d.Decl.Body
	where := fname
	for hf, hd := range helpers {
		if has(hd.Decl.Body, isTest) && has(hd.Decl.Body, isSet) {
			body, where = hd.Decl.Body, an.FuncName(hf)
		}
	}
	g := an.NewG(info, body)
	// a site is the statement itself, or (in With's own body) a call to a helper that contains it
	site := func(pred func(ast.Node) bool) func(k an.Loc) (bool, bool) {
		return func(k an.Loc) (bool, bool) {
			n := g.Node(k)
			if pred(n) {
				return true, false
			}
			selfLocking := false
			viaHelper := false
			an.Inspect(n, false, func(m ast.Node) bool {
				if c, ok := m.(*ast.CallExpr); ok {
					if hd := helpers[an.Callee(info, c)]; hd != nil && has(hd.Decl.Body, pred) {
						viaHelper = true
						if locks(hd.Decl.Body) {
							selfLocking = true
						}
					}
				}
				return true
			})
			return viaHelper, selfLocking
		}
	}
	tSite, sSite := site(isTest), site(isSet)
	var tests, sets []an.Loc
	selfLockT, selfLockS := false, false
	for _, k := range g.Locs(func(ast.Node) bool { return true }) {
		if ok, sl := tSite(k); ok {
			tests = append(tests, k)
			selfLockT = selfLockT || sl
		}
		if ok, sl := sSite(k); ok {
			sets = append(sets, k)
			selfLockS = selfLockS || sl
		}
	}
	if len(tests) == 0 || len(sets) == 0 {
		r.Und("C31.R1", key, d.Decl.Pos(), fmt.Sprintf("membership test (%d) or insertion of the marker (%d) not found in %s or the helpers it calls", len(tests), len(sets), where))
		return
	}
	pos := g.Node(tests[0]).Pos()
	if selfLockT || selfLockS {
		// the test (or the insertion) sits in a helper that takes and releases runningMu on its own, the other one does not sit in it
		r.Bad("C31.R1", key, pos, "the membership test and the insertion of the marker are in different critical sections of runningMu (one of them in a helper that locks and unlocks by itself): two With calls for the same repository can both pass the test before either inserts its marker, and both run")
		return
	}
	isUnlock := func(k an.Loc) bool { return muCall(info, g.Node(k), runningMu, "Unlock") }
	isS := func(k an.Loc) bool { ok, _ := sSite(k); return ok }
	split := false
	for _, t := range tests {
		for _, u := range g.Locs(func(ast.Node) bool { return true }) {
			if !isUnlock(u) {
				continue
			}
			// t -> u without passing the insertion, then u -> insertion
			if g.Reach(t, true, &an.Search{Target: func(k an.Loc) bool { return k == u }, Cut: isS}) && g.Reach(u, true, &an.Search{Target: isS}) {
				split = true
				pos = g.Node(u).Pos()
			}
		}
	}
	r.Check(!split, "C31.R1", key, pos, "no runningMu.Unlock between the membership test and the insertion of the marker ("+where+")",
		"runningMu is released between the membership test and the insertion of the marker: two With calls for the same repository can both find it free, and both run")
}
