package props

import (
	"fmt"
	"go/ast"
	"go/types"
	"strings"

	"zverif/checker/an"
)

func init() { register("C05", c05) }

func c05(p *an.Prog, r *an.R, tier string) {
	r.Explanation = "C05 (structural clause): rebuild completeness of the query rewrites. Every function that rebuilds query nodes while rewriting (Map, flatten, evalConstants, stripCaseScopes, ExpandFileContent, the per-shard simplify, ...) carries over all fields of the node type it rebuilds: each composite literal of a query node type inside them sets every field of that type (positional literal, whole-struct copy, or all keys). A field added to a node type and not copied by one rewrite would silently change the query's meaning. (R4) evalConstants folds only Type and Boost wrappers to their child's constant. Does NOT decide the equivalences themselves (folding under negation, Type->constant collapse, per-shard simplification against metadata, file/content expansion): semantic, over all trees and corpora."
	r.Rule("C05.R1", "in the rewriting functions every composite literal of a query.Q node type sets all fields of that type")
	fam, _ := qFamily(p)
	if !r.Anchor(len(fam) > 0, "query.Q implementers") {
		return
	}
	famSet := map[*types.Named]bool{}
	for _, t := range fam {
		if nt := an.NamedOf(t); nt != nil {
			if _, ok := nt.Underlying().(*types.Struct); ok {
				famSet[nt] = true
			}
		}
	}
	rewriters := []struct{ pkg, fn string }{
		{"query", "Map"}, {"query", "flatten"}, {"query", "flattenAndOr"}, {"query", "evalConstants"}, {"query", "evalAndOrConstants"},
		{"query", "invertConst"}, {"query", "stripCaseScopes"}, {"query", "stripCaseScopesList"}, {"query", "ExpandFileContent"}, {"query", "Simplify"},
		{"index", "(*indexData).simplify"}, {"index", "(*indexData).simplifyMultiRepo"},
	}
	lits := 0
	for _, rw := range rewriters {
		f := p.Func(rw.pkg, rw.fn)
		d := p.Decl(f)
		// small helpers of the rewriters may be inlined into their only caller: their literals are then found there
		if d == nil && (rw.fn == "invertConst" || rw.fn == "flattenAndOr" || rw.fn == "stripCaseScopesList" || rw.fn == "evalAndOrConstants") {
			continue
		}
		if !r.Anchor(d != nil, rw.pkg+"."+rw.fn) {
			continue
		}
		fname := an.FuncName(f)
		r.Fn(fname)
		info := d.Pkg.TypesInfo
		counts := map[string]int{}
		// a literal "rebuilds" a node when it sits in the clause of a type
		// switch that handles that same node type (building a different kind
		// of node, e.g. a file-name regexp for a language atom, is not a copy)
		clauseTypes := map[*ast.CompositeLit]bool{}
		for _, sw := range an.TypeSwitches(info, d.Decl.Body) {
			for _, cc := range sw.AllClauses {
				handled := map[*types.Named]bool{}
				for _, e := range cc.List {
					if nt := an.NamedOf(info.TypeOf(e)); nt != nil {
						handled[nt] = true
					}
				}
				for _, st := range cc.Body {
					ast.Inspect(st, func(m ast.Node) bool {
						if _, nested := m.(*ast.TypeSwitchStmt); nested {
							return false
						}
						if cl, ok := m.(*ast.CompositeLit); ok {
							if nt := an.NamedOf(info.TypeOf(cl)); nt != nil && handled[nt] {
								clauseTypes[cl] = true
							}
						}
						return true
					})
				}
			}
		}
		ast.Inspect(d.Decl.Body, func(n ast.Node) bool {
			cl, ok := n.(*ast.CompositeLit)
			if !ok {
				return true
			}
			nt := an.NamedOf(info.TypeOf(cl))
			if nt == nil || !famSet[nt] || !clauseTypes[cl] {
				return true
			}
			lits++
			key := fmt.Sprintf("%s/rebuilds/%s", fname, nt.Obj().Name())
			counts[key]++
			if counts[key] > 1 {
				key = fmt.Sprintf("%s#%d", key, counts[key])
			}
			fields := an.StructFields(nt)
			if len(cl.Elts) > 0 {
				if _, keyed := cl.Elts[0].(*ast.KeyValueExpr); !keyed {
					r.OK("C05.R1", key, cl.Pos(), "positional literal: the compiler requires all fields")
					return true
				}
			}
			set := map[string]bool{}
			for _, e := range cl.Elts {
				if kv, ok := e.(*ast.KeyValueExpr); ok {
					if id, ok := kv.Key.(*ast.Ident); ok {
						set[id.Name] = true
					}
				}
			}
			var missing []string
			for _, fld := range fields {
				if !set[fld.Name()] {
					missing = append(missing, fld.Name())
				}
			}
			// a Const{...}-style leaf with all fields or an intentionally empty And/Or
			if len(missing) > 0 && len(cl.Elts) == 0 && (nt.Obj().Name() == "And" || nt.Obj().Name() == "Or") {
				r.OK("C05.R1", key, cl.Pos(), "empty conjunction/disjunction built on purpose")
				return true
			}
			r.Check(len(missing) == 0, "C05.R1", key, cl.Pos(), "all fields of the node are carried over", fmt.Sprintf("the rewrite rebuilds a %s without its field(s) %s: that part of the query is dropped by the rewrite and the rewritten query selects different documents", nt.Obj().Name(), strings.Join(missing, ", ")))
			return true
		})
	}
	r.Floor("C05.R1.rebuild-literals", 10, lits)
	c05Simplify(p, r)
	c05Identity(p, r, rewriters)
	c05Fold(p, r)
}

// c05Simplify: the per-shard simplification of repository atoms counts a
// repository as matching only if it is alive.
func c05Simplify(p *an.Prog, r *an.R) {
	r.Rule("C05.R2", "simplifyMultiRepo: the counter of matching repositories is incremented only where the repository's Tombstone flag tested false (otherwise `count == alive` folds an atom to TRUE although a live repository does not match)")
	f := p.Func("index", "(*indexData).simplifyMultiRepo")
	d := p.Decl(f)
	tomb := p.Field("", "Repository", "Tombstone")
	if !r.Anchor(d != nil && tomb != nil, "index.(*indexData).simplifyMultiRepo") {
		return
	}
	info := d.Pkg.TypesInfo
	g := an.NewG(info, d.Decl.Body)
	n := 0
	// the counters: variables compared with each other in `x == y`
	for _, l := range g.Locs(func(ast.Node) bool { return true }) {
		// x++, x += k, x = x + k
		var inc ast.Stmt
		switch st := g.Node(l).(type) {
		case *ast.IncDecStmt:
			if st.Tok.String() == "++" {
				inc = st
			}
		case *ast.AssignStmt:
			if len(st.Lhs) == 1 && len(st.Rhs) == 1 {
				if _, isID := st.Lhs[0].(*ast.Ident); isID {
					if st.Tok.String() == "+=" {
						inc = st
					} else if be, isB := ast.Unparen(st.Rhs[0]).(*ast.BinaryExpr); isB && st.Tok.String() == "=" && be.Op.String() == "+" && (sameExpr(be.X, st.Lhs[0]) || sameExpr(be.Y, st.Lhs[0])) {
						inc = st
					}
				}
			}
		}
		if inc == nil {
			continue
		}
		// the counter of *matching* repositories: incremented where the predicate parameter returned true
		predParam := an.Param(info, d.Decl, 1)
		countsMatches := g.GuardedBy(l, func(cond ast.Expr, truth bool) bool {
			c, ok := ast.Unparen(cond).(*ast.CallExpr)
			return ok && truth && an.UsesObj(info, c.Fun, predParam)
		}, nil)
		if !countsMatches {
			continue // some other counter (live or tombstoned repositories)
		}
		n++
		guarded := g.GuardedBy(l, func(cond ast.Expr, truth bool) bool {
			se, isSel := ast.Unparen(cond).(*ast.SelectorExpr)
			return isSel && info.Selections[se] != nil && info.Selections[se].Obj() == tomb && !truth
		}, nil)
		r.Check(guarded, "C05.R2", "index.(*indexData).simplifyMultiRepo/match-counter/only-live-repositories", inc.Pos(), "a repository is counted as matching only when it is not tombstoned", "a tombstoned repository can be counted as matching: `count == alive` then holds although a live repository does not match, the atom is folded to TRUE (or FALSE under Not) and the rewritten query selects other documents than the original")
	}
	r.Floor("C05.R2.match-counters", 1, n)
}

// c05Identity: rewrites must not identify sub-queries by their String() form.
func c05Identity(p *an.Prog, r *an.R, rewriters []struct{ pkg, fn string }) {
	r.Rule("C05.R3", "the rewriting functions never use Q.String() (a lossy, log-oriented rendering: RepoIDs prints only a count, Regexp omits flags) to decide anything")
	qI := p.Named("query", "Q")
	n := 0
	for _, rw := range rewriters {
		f := p.Func(rw.pkg, rw.fn)
		d := p.Decl(f)
		if d == nil {
			continue
		}
		info := d.Pkg.TypesInfo
		bad := false
		ast.Inspect(d.Decl.Body, func(nd ast.Node) bool {
			c, ok := nd.(*ast.CallExpr)
			if !ok {
				return true
			}
			se, ok := ast.Unparen(c.Fun).(*ast.SelectorExpr)
			if !ok || se.Sel.Name != "String" || len(c.Args) != 0 {
				return true
			}
			t := info.TypeOf(se.X)
			if t == nil {
				return true
			}
			isQ := types.Identical(t, qI)
			if nt := an.NamedOf(t); nt != nil && nt.Obj().Pkg() != nil && nt.Obj().Pkg().Path() == an.Mod+"/query" {
				isQ = true
			}
			if isQ {
				bad = true
				r.Bad("C05.R3", an.FuncName(f)+"/uses-Q.String", c.Pos(), "a rewrite consults Q.String(): different sub-queries can print identically (RepoIDs, BranchesRepos, large RepoSet/FileNameSet, Regexp flags), so treating equal strings as equal queries drops or merges operands")
			}
			return true
		})
		n++
		if !bad {
			r.OK("C05.R3", an.FuncName(f)+"/no-Q.String", d.Decl.Pos(), "does not consult String()")
		}
	}
	r.Floor("C05.R3.rewriters", 10, n)
}

// c05Fold: which wrapper nodes evalConstants may replace by the constant their child folded to. Type and Boost only
// say what kind of result is wanted / how it is scored; every other wrapper (Symbol, ...) restricts the set of
// matching documents, so `wrapper(TRUE)` is not TRUE.
func c05Fold(p *an.Prog, r *an.R) {
	r.Rule("C05.R4", "evalConstants returns the folded child in place of the node only in the clauses for *query.Type and *query.Boost (Not inverts it, And/Or have their own folding); no other wrapper is folded away")
	f := p.Func("query", "evalConstants")
	d := p.Decl(f)
	if !r.Anchor(d != nil, "query.evalConstants") {
		return
	}
	info := d.Pkg.TypesInfo
	r.Fn(an.FuncName(f))
	allowed := map[string]bool{"Type": true, "Boost": true}
	n := 0
	for _, ts := range an.TypeSwitches(info, d.Decl.Body) {
		for _, cc := range ts.AllClauses {
			if len(cc.List) != 1 {
				continue
			}
			tn := an.NamedOf(info.Types[cc.List[0]].Type)
			if tn == nil {
				continue
			}
			// `return ch` where ch was assigned from evalConstants(<child>)
			passes := false
			var at ast.Node
			for _, st := range cc.Body {
				ast.Inspect(st, func(m ast.Node) bool {
					rs, ok := m.(*ast.ReturnStmt)
					if !ok || len(rs.Results) != 1 {
						return true
					}
					res := ast.Unparen(rs.Results[0])
					if c, ok := res.(*ast.CallExpr); ok && an.Callee(info, c) == f {
						passes, at = true, rs
					}
					if id, ok := res.(*ast.Ident); ok {
						obj := info.ObjectOf(id)
						for _, st2 := range cc.Body {
							ast.Inspect(st2, func(k ast.Node) bool {
								as, ok := k.(*ast.AssignStmt)
								if !ok || len(as.Lhs) != 1 || len(as.Rhs) != 1 || !isIdentOf(info, as.Lhs[0], obj) {
									return true
								}
								if c, ok := ast.Unparen(as.Rhs[0]).(*ast.CallExpr); ok && an.Callee(info, c) == f {
									passes, at = true, rs
								}
								return true
							})
						}
					}
					return true
				})
			}
			if !passes {
				continue
			}
			n++
			name := tn.Obj().Name()
			r.Check(allowed[name], "C05.R4", "query.evalConstants/*query."+name+"/folded-to-its-child", at.Pos(), "only Type and Boost are replaced by the constant their child folded to",
				"evalConstants replaces a *query."+name+" node by the constant its child folded to: "+name+" restricts which documents match, so "+name+"(TRUE) is not TRUE - simplification selects documents the original query does not (and drops them under negation)")
		}
	}
	r.Floor("C05.R4.folding-wrappers", 2, n)
}
