package props

import (
	"fmt"
	"go/ast"
	"go/types"
	"sort"

	"golang.org/x/tools/go/callgraph"
	"golang.org/x/tools/go/ssa"

	"zverif/checker/an"
)

func init() { register("C08", c08) }

// folding relation of each primitive, with witnesses for the non-equivalent class
var c08Class = map[string]string{
	"unicode.SimpleFold": "orbit",
	"strings.EqualFold":  "orbit",
	"bytes.EqualFold":    "orbit",
	"unicode.ToLower":    "tolower",
	"unicode.ToUpper":    "tolower",
	"unicode.ToTitle":    "tolower",
	"strings.ToLower":    "tolower",
	"strings.ToUpper":    "tolower",
	"bytes.ToLower":      "tolower",
	"bytes.ToUpper":      "tolower",
}

func c08(p *an.Prog, r *an.R, tier string) {
	r.Explanation = "C08 (structural clause): sibling agreement of folding primitives. Every case-folding call on the case-insensitive substring path (the functions reachable from indexData.Search that compare or expand runes) uses a relation in the same equivalence class as the regexp engine's (?i), i.e. Unicode simple-fold orbits (unicode.SimpleFold / EqualFold). Equality of unicode.ToLower values is a different relation (witnesses: ſ/s, ẞ/ß, ς/σ/Σ, ǅ, K/k). The trigram variant expansion folds every rune position unconditionally. Does NOT decide agreement of the reported ranges nor completeness of the variant expansion beyond its use of the orbit primitive."
	r.Rule("C08.R1", "every folding primitive called on the search path of package index is in the simple-fold-orbit class (the regexp engine's class); ToLower/ToUpper-equality is not")
	r.Rule("C08.R2", "in generateCaseNgrams the call of unicode.SimpleFold is not conditional on a character-category predicate (unicode.IsLetter/IsUpper/IsLower/In...): code points outside those categories have fold partners too (Ⅻ/ⅻ, Ⓐ/ⓐ, ͅ)")
	r.Assume("Go's regexp (?i) folds with simple-fold orbits (regexp/syntax); grafana/regexp is a fork with the same folding")
	roots := []*ssa.Function{p.SSAFunc(p.Func("index", "(*indexData).Search"))}
	if !r.Anchor(roots[0] != nil, "index.(*indexData).Search") {
		return
	}
	reached := an.ReachFuncs(p.VTA(), roots, func(e *callgraph.Edge) bool {
		c := e.Callee.Func
		return c.Pkg != nil && c.Pkg.Pkg.Path() == an.Mod+"/index" && c.Blocks != nil
	})
	exceptions := map[string]string{
		"index.(*contentProvider).findSymbol/unicode.IsUpper": "",
	}
	_ = exceptions
	var fns []*ssa.Function
	for f := range reached {
		fns = append(fns, f)
	}
	sort.Slice(fns, func(i, j int) bool { return an.SSAName(fns[i]) < an.SSAName(fns[j]) })
	n, orbit := 0, 0
	for _, f := range fns {
		counts := map[string]int{}
		an.Instrs(f, func(b *ssa.BasicBlock, in ssa.Instruction) {
			c, ok := in.(ssa.CallInstruction)
			if !ok {
				return
			}
			cal := an.StaticCallee(c)
			if cal == nil || cal.Pkg() == nil {
				return
			}
			name := cal.Pkg().Path() + "." + cal.Name()
			cls, ok := c08Class[name]
			if !ok {
				return
			}
			n++
			r.Fn(an.SSAName(f))
			key := fmt.Sprintf("%s/%s", an.SSAName(f), name)
			counts[key]++
			if counts[key] > 1 {
				key = fmt.Sprintf("%s#%d", key, counts[key])
			}
			if cls == "orbit" {
				orbit++
				r.OK("C08.R1", key, in.Pos(), "simple-fold orbit: the same relation as regexp (?i)")
				return
			}
			r.Bad("C08.R1", key, in.Pos(), "case-insensitive matching on the substring path compares "+name+" values; that relation differs from the regexp engine's simple-fold orbits (ſ/s, ẞ/ß, ς/σ, K/k): a literal and the equivalent regexp return different files")
		})
	}
	r.Floor("C08.R1.folding-calls-on-search-path", 3, n)
	r.Floor("C08.R1.orbit-calls", 1, orbit)
	// R2
	gd := p.Decl(p.Func("index", "generateCaseNgrams"))
	sf := p.ExtFunc("unicode", "SimpleFold")
	if !r.Anchor(gd != nil && sf != nil, "index.generateCaseNgrams / unicode.SimpleFold") {
		return
	}
	info := gd.Pkg.TypesInfo
	k := 0
	for _, gdd := range calleeDecls(p, gd) {
		g := an.NewG(info, gdd.Decl.Body)
		for _, l := range g.Locs(func(nd ast.Node) bool { return len(an.CallsTo(info, nd, false, sf)) > 0 }) {
			k++
			catGuard := false
			// any condition on the way that calls a unicode category predicate
			for _, b := range g.C.Blocks {
				cond := an.CondOf(b)
				if cond == nil {
					continue
				}
				isCat := false
				ast.Inspect(cond, func(m ast.Node) bool {
					if c, ok := m.(*ast.CallExpr); ok {
						if cal := an.Callee(info, c); cal != nil && cal.Pkg() != nil && cal.Pkg().Path() == "unicode" && (len(cal.Name()) > 2 && cal.Name()[:2] == "Is" || cal.Name() == "In") {
							isCat = true
						}
					}
					return true
				})
				if !isCat {
					continue
				}
				// does this condition control whether the fold is reached? (one successor cannot reach it without coming back through the loop head)
				for i := range b.Succs {
					start := an.Loc{B: b.Succs[i], I: 0}
					if !g.Reach(start, false, &an.Search{Target: func(x an.Loc) bool { return x == l }, Cut: func(x an.Loc) bool { return x.B == b }}) {
						catGuard = true
					}
				}
			}
			r.Check(!catGuard, "C08.R2", "index.generateCaseNgrams/SimpleFold-unconditional", g.Node(l).Pos(), "every rune position is folded, whatever its category", "the fold of a rune position is skipped depending on a unicode category predicate: non-letter code points with fold partners (Ⅻ/ⅻ, Ⓐ/ⓐ) get no case variants, so the literal misses files the (?i) regexp finds")
		}
	}
	r.Floor("C08.R2.simplefold-sites", 1, k)
	_ = types.Typ
}
