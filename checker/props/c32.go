package props

import (
	"fmt"
	"go/ast"
	"go/token"
	"go/types"
	"strings"

	"golang.org/x/tools/go/cfg"
	"golang.org/x/tools/go/ssa"

	"zverif/checker/an"
)

func init() { register("C32", c32) }

func c32(p *an.Prog, r *an.R, tier string) {
	r.Explanation = "C32 (structural clauses) of cleanup(): trashed shards are permanently removed only on paths where they were found older than the minimum age or in conflict with an indexed copy, and the minimum age is 24 hours; the shards of every assigned repository are taken out of the candidate set before anything is moved to the trash or tombstoned; an assigned repository found in the trash is moved back into the index directory; shards are moved to the trash (not deleted) when a repository is unassigned. Does NOT decide which repositories end up where for a given directory (values: directory contents, mtimes, assignment sets), nor the compound-shard tombstone logic."
	r.Rule("C32.R1", "the removeAll of trashed shards is reached only under `conflicts || old`, `old` is set only where ModTime.Before(now - 24h)")
	r.Rule("C32.R2", "every path to the final moveAll(trashDir, …)/maybeSetTombstone passes the loop that deletes all assigned repositories from the candidate map")
	r.Rule("C32.R3", "inside the loop over assigned repositories a repository found in the trash is restored with moveAll(indexDir, …)")
	c32Vacuum(p, r)
	c32Compound(p, r)
	c32Inconsistent(p, r)
	c32SharedIDs(p, r)
	f := p.Func(isrv, "cleanup")
	d := p.Decl(f)
	removeAll := p.Func(isrv, "removeAll")
	moveAll := p.Func(isrv, "moveAll")
	maybeTomb := p.Func(isrv, "maybeSetTombstone")
	if !r.Anchor(d != nil && removeAll != nil && moveAll != nil && maybeTomb != nil, isrv+".cleanup / removeAll / moveAll / maybeSetTombstone") {
		return
	}
	r.Fn(an.FuncName(f))
	info := d.Pkg.TypesInfo
	g := an.NewG(info, d.Decl.Body)
	indexDir := an.Param(info, d.Decl, 0)
	repos := an.Param(info, d.Decl, 1)
	// local objects by name
	local := func(name string) types.Object {
		var o types.Object
		ast.Inspect(d.Decl.Body, func(n ast.Node) bool {
			if id, ok := n.(*ast.Ident); ok && id.Name == name && o == nil {
				if def := info.Defs[id]; def != nil {
					o = def
				}
			}
			return true
		})
		return o
	}
	trash, idxShards, trashDir, minAge, old := local("trash"), local("indexShards"), local("trashDir"), local("minAge"), local("old")
	if !r.Anchor(trash != nil && idxShards != nil && trashDir != nil && minAge != nil && old != nil, "cleanup locals trash/indexShards/trashDir/minAge/old") {
		return
	}
	// ---- R1
	for _, l := range g.Locs(func(n ast.Node) bool { return len(an.CallsTo(info, n, false, removeAll)) > 0 }) {
		// only the removal inside the loop over the trash
		inTrashLoop := false
		ast.Inspect(d.Decl.Body, func(n ast.Node) bool {
			if rs, ok := n.(*ast.RangeStmt); ok && an.UsesObj(info, rs.X, trash) && rs.Pos() <= g.Node(l).Pos() && g.Node(l).End() <= rs.End() {
				inTrashLoop = true
			}
			return true
		})
		if !inTrashLoop {
			continue
		}
		ok := g.GuardedBy(l, func(cond ast.Expr, truth bool) bool {
			// `!conflicts && !old` taken false, or `conflicts || old` taken true
			be, isB := ast.Unparen(cond).(*ast.BinaryExpr)
			if !isB {
				return false
			}
			mentionsOld := false
			ast.Inspect(be, func(m ast.Node) bool {
				if id, ok := m.(*ast.Ident); ok && info.ObjectOf(id) == old {
					mentionsOld = true
				}
				return true
			})
			if !mentionsOld {
				return false
			}
			negs := 0
			for _, e := range []ast.Expr{be.X, be.Y} {
				if u, ok := ast.Unparen(e).(*ast.UnaryExpr); ok && u.Op == token.NOT {
					negs++
				}
			}
			return (be.Op == token.LAND && negs == 2 && !truth) || (be.Op == token.LOR && negs == 0 && truth)
		}, nil)
		r.Check(ok, "C32.R1", isrv+".cleanup/trash-removal/only-when-old-or-conflicting", g.Node(l).Pos(), "trashed shards are deleted only when old or in conflict with an indexed copy", "trashed shards can be deleted permanently although they are neither older than the minimum age nor in conflict with an indexed copy: a repository that is re-assigned within 24 hours cannot be restored")
	}
	// old = true only under ModTime.Before(minAge); minAge = now.Add(-24 * time.Hour)
	for _, l := range g.Locs(func(ast.Node) bool { return true }) {
		as, ok := g.Node(l).(*ast.AssignStmt)
		if !ok || len(as.Lhs) != 1 || !an.UsesObj(info, as.Lhs[0], old) || as.Tok == token.DEFINE {
			continue
		}
		if tv := info.Types[as.Rhs[0]]; tv.Value == nil || tv.Value.String() != "true" {
			continue
		}
		ok = g.GuardedBy(l, func(cond ast.Expr, truth bool) bool {
			c, isC := ast.Unparen(cond).(*ast.CallExpr)
			if !isC || !truth {
				return false
			}
			se, isS := ast.Unparen(c.Fun).(*ast.SelectorExpr)
			return isS && se.Sel.Name == "Before" && len(c.Args) == 1 && an.UsesObj(info, c.Args[0], minAge)
		}, nil)
		r.Check(ok, "C32.R1", isrv+".cleanup/old-means-before-minAge", as.Pos(), "`old` is set only for shards whose ModTime is before the minimum age", "`old` can be set without ModTime.Before(minAge)")
	}
	okAge := false
	ast.Inspect(d.Decl.Body, func(n ast.Node) bool {
		as, ok := n.(*ast.AssignStmt)
		if !ok || len(as.Lhs) != 1 || !an.UsesObj(info, as.Lhs[0], minAge) {
			return true
		}
		if c, ok := ast.Unparen(as.Rhs[0]).(*ast.CallExpr); ok && len(c.Args) == 1 {
			if tv := info.Types[c.Args[0]]; tv.Value != nil && tv.Value.String() == "-86400000000000" {
				okAge = true
			}
		}
		return true
	})
	r.Check(okAge, "C32.R1", isrv+".cleanup/minimum-age-is-24h", d.Decl.Pos(), "the minimum age is now - 24h", "the minimum age of trashed shards is not now.Add(-24h)")
	// ---- R2
	var assignedLoopHead ast.Expr
	ast.Inspect(d.Decl.Body, func(n ast.Node) bool {
		rs, ok := n.(*ast.RangeStmt)
		if !ok || !an.UsesObj(info, rs.X, repos) {
			return true
		}
		deletes := false
		ast.Inspect(rs.Body, func(m ast.Node) bool {
			if c, ok := m.(*ast.CallExpr); ok && an.IsBuiltin(info, c, "delete") && an.UsesObj(info, c.Args[0], idxShards) && an.UsesObj(info, c.Args[1], info.ObjectOf(rs.Value.(*ast.Ident))) {
				deletes = true
			}
			return true
		})
		if deletes {
			assignedLoopHead = rs.X
			// every iteration deletes: from the first statement of the body, the
			// next iteration (or anything after the loop) is not reachable
			// without passing the delete
			first, ok := g.FirstIn(rs.Body.List[0])
			if !ok {
				r.Und("C32.R2", isrv+".cleanup/assigned-loop/every-iteration-excludes-the-repository", rs.Pos(), "first statement of the loop body not found in the CFG")
			} else {
				isDel := func(l an.Loc) bool {
					hit := false
					ast.Inspect(g.Node(l), func(m ast.Node) bool {
						if c, ok := m.(*ast.CallExpr); ok && an.IsBuiltin(info, c, "delete") && an.UsesObj(info, c.Args[0], idxShards) {
							hit = true
						}
						return true
					})
					return hit
				}
				skip := !isDel(first) && g.Reach(first, false, &an.Search{Target: func(l an.Loc) bool {
					n := g.Node(l)
					return n == ast.Node(rs.Value) || n.Pos() > rs.End()
				}, Cut: isDel, ExitIsTarget: true})
				r.Check(!skip, "C32.R2", isrv+".cleanup/assigned-loop/every-iteration-excludes-the-repository", rs.Pos(), "every iteration over the assigned repositories removes the repository from the candidate set", "an iteration over the assigned repositories can finish without removing the repository from the candidate set: its shards are then moved to the trash")
			}
		}
		// R3 inside this loop
		restores := false
		ast.Inspect(rs.Body, func(m ast.Node) bool {
			is, ok := m.(*ast.IfStmt)
			if !ok || is.Init == nil {
				return true
			}
			as, ok := is.Init.(*ast.AssignStmt)
			if !ok || len(as.Rhs) != 1 {
				return true
			}
			ix, ok := ast.Unparen(as.Rhs[0]).(*ast.IndexExpr)
			if !ok || !an.UsesObj(info, ix.X, trash) {
				return true
			}
			for _, c := range an.CallsTo(info, is.Body, false, moveAll) {
				if an.UsesObj(info, c.Args[0], indexDir) {
					restores = true
				}
			}
			return true
		})
		// the restore may live in a helper called from the loop: h(.., indexDir, .., trash, ..) whose body
		// moves the shards found under its trash parameter to its index-directory parameter
		ast.Inspect(rs.Body, func(m ast.Node) bool {
			c, ok := m.(*ast.CallExpr)
			if !ok || restores {
				return true
			}
			h := an.Callee(info, c)
			if h == nil || h.Pkg() != f.Pkg() {
				return true
			}
			hd := p.Decl(h)
			if hd == nil || hd.Decl.Body == nil {
				return true
			}
			var dirP, trashP types.Object
			for i, a := range c.Args {
				if an.UsesObj(info, a, indexDir) {
					dirP = an.Param(info, hd.Decl, i)
				}
				if an.UsesObj(info, a, trash) {
					trashP = an.Param(info, hd.Decl, i)
				}
			}
			if dirP == nil || trashP == nil {
				return true
			}
			ast.Inspect(hd.Decl.Body, func(k ast.Node) bool {
				is, ok := k.(*ast.IfStmt)
				if !ok || is.Init == nil {
					return true
				}
				as, ok := is.Init.(*ast.AssignStmt)
				if !ok || len(as.Rhs) != 1 {
					return true
				}
				ix, ok := ast.Unparen(as.Rhs[0]).(*ast.IndexExpr)
				if !ok || !an.UsesObj(info, ix.X, trashP) {
					return true
				}
				for _, mc := range an.CallsTo(info, is.Body, false, moveAll) {
					if an.UsesObj(info, mc.Args[0], dirP) {
						restores = true
					}
				}
				return true
			})
			return true
		})
		r.Check(restores, "C32.R3", isrv+".cleanup/assigned-repository-restored-from-trash", rs.Pos(), "an assigned repository found in the trash is moved back into the index directory", "an assigned repository that sits in the trash is not restored")
		return true
	})
	if r.Anchor(assignedLoopHead != nil, "cleanup/loop over assigned repositories deleting from indexShards") {
		var retireLoop *ast.RangeStmt
		ast.Inspect(d.Decl.Body, func(n ast.Node) bool {
			if rs, ok := n.(*ast.RangeStmt); ok {
				for _, c := range an.CallsTo(info, rs.Body, false, moveAll) {
					if an.UsesObj(info, c.Args[0], trashDir) {
						retireLoop = rs
					}
				}
			}
			return true
		})
		isHead := func(l an.Loc) bool { return g.Node(l) == ast.Node(assignedLoopHead) }
		n := 0
		for _, l := range g.Locs(func(ast.Node) bool { return true }) {
			isRetire := false
			for _, c := range an.CallsTo(info, g.Node(l), false, moveAll) {
				if an.UsesObj(info, c.Args[0], trashDir) {
					isRetire = true
				}
			}
			if !isRetire {
				// a helper that is handed the candidate map and the trash directory and moves shards there
				an.Inspect(g.Node(l), false, func(m ast.Node) bool {
					c, ok := m.(*ast.CallExpr)
					if !ok {
						return true
					}
					h := an.Callee(info, c)
					if h == nil || h.Pkg() != f.Pkg() || h == moveAll {
						return true
					}
					hd := p.Decl(h)
					if hd == nil || hd.Decl.Body == nil {
						return true
					}
					var trashP types.Object
					takesCandidates := false
					for i, a := range c.Args {
						if an.UsesObj(info, a, trashDir) {
							trashP = an.Param(info, hd.Decl, i)
						}
						if an.UsesObj(info, a, idxShards) {
							takesCandidates = true
						}
					}
					if trashP == nil || !takesCandidates {
						return true
					}
					for _, mc := range an.CallsTo(info, hd.Decl.Body, false, moveAll) {
						if an.UsesObj(info, mc.Args[0], trashP) {
							isRetire = true
						}
					}
					return true
				})
			}
			if !isRetire && len(an.CallsTo(info, g.Node(l), false, maybeTomb)) > 0 && retireLoop != nil && retireLoop.Pos() <= g.Node(l).Pos() && g.Node(l).End() <= retireLoop.End() {
				isRetire = true // tombstoning in the loop that retires unassigned repositories
			}
			if !isRetire {
				continue
			}
			n++
			skip := g.Reach(g.Entry(), false, &an.Search{Target: func(k an.Loc) bool { return k == l }, Cut: isHead})
			r.Check(!skip, "C32.R2", isrv+".cleanup/"+c32Kind(info, g.Node(l), maybeTomb)+"/after-assigned-repositories-were-excluded", g.Node(l).Pos(), "shards are moved to the trash only after the assigned repositories were removed from the candidate set", "shards can be moved to the trash before (or without) the assigned repositories having been taken out of the candidate set: an assigned repository disappears from the index")
		}
		r.Floor("C32.R2.trash-moves", 1, n)
	}
}

// c32Vacuum: removeTombstones rewrites a compound shard by merging it with
// itself; the old shard's files may be removed only once that merge succeeded.
func c32Vacuum(p *an.Prog, r *an.R) {
	r.Rule("C32.R4", "removeTombstones deletes the compound shard's files only on paths where the merge that rewrites it returned a nil error (a deferred deletion runs on the error returns too)")
	f := p.Func(isrv, "removeTombstones")
	d := p.Decl(f)
	rm, rmAll := p.ExtFunc("os", "Remove"), p.ExtFunc("os", "RemoveAll")
	if !r.Anchor(d != nil && rm != nil && rmAll != nil, isrv+".removeTombstones / os.Remove") {
		return
	}
	r.Fn(an.FuncName(f))
	info := d.Pkg.TypesInfo
	g := an.NewG(info, d.Decl.Body)
	// the merge call: a call of a local func() error value (runMerge), its error variable and the test that follows
	var mergeLoc *an.Loc
	var mergeErr types.Object
	for _, l := range g.Locs(func(ast.Node) bool { return true }) {
		as, ok := g.Node(l).(*ast.AssignStmt)
		if !ok || len(as.Lhs) != 1 || len(as.Rhs) != 1 {
			continue
		}
		c, ok := ast.Unparen(as.Rhs[0]).(*ast.CallExpr)
		if !ok || len(c.Args) != 0 {
			continue
		}
		id, ok := ast.Unparen(c.Fun).(*ast.Ident)
		if !ok {
			continue
		}
		if v, ok := info.ObjectOf(id).(*types.Var); ok {
			if sig, ok := v.Type().Underlying().(*types.Signature); ok && sig.Results().Len() == 1 && types.Identical(sig.Results().At(0).Type(), errorType) {
				ll := l
				mergeLoc = &ll
				mergeErr = info.ObjectOf(as.Lhs[0].(*ast.Ident))
			}
		}
	}
	if !r.Anchor(mergeLoc != nil && mergeErr != nil, "removeTombstones/err = runMerge()") {
		return
	}
	mergeOK := func(l an.Loc) bool {
		// reached only through the nil edge of a test of mergeErr that follows the merge call without reassignment
		return func() bool {
			// every path entry -> l passes: mergeLoc, then a nil-edge of `mergeErr != nil` with no assignment to mergeErr in between
			reassigned := func(k an.Loc) bool {
				if k == *mergeLoc {
					return false
				}
				as, ok := g.Node(k).(*ast.AssignStmt)
				if !ok {
					return false
				}
				for _, lh := range as.Lhs {
					if isIdentOf(info, lh, mergeErr) {
						return true
					}
				}
				return false
			}
			// (1) l is not reachable without passing the merge call
			if g.Reach(g.Entry(), false, &an.Search{Target: func(k an.Loc) bool { return k == l }, Cut: func(k an.Loc) bool { return k == *mergeLoc }}) {
				return false
			}
			// (2) from the merge call, l is not reachable when the non-nil edges of tests of mergeErr are cut
			//     and paths through a reassignment are treated as reaching (unknown)
			bad := g.Reach(*mergeLoc, true, &an.Search{
				Target: func(k an.Loc) bool { return k == l || reassigned(k) },
				CutEdge: func(b *cfg.Block, k int) bool {
					cond := an.CondOf(b)
					if cond == nil {
						return false
					}
					isT, nonNilOnTrue := isErrNilTest(info, cond, mergeErr)
					if !isT {
						return false
					}
					// cut the nil edge: we look for a way to l that avoids having seen err == nil
					return (k == 0) != nonNilOnTrue
				},
			})
			return !bad
		}()
	}
	n := 0
	var stack []ast.Node
	ast.Inspect(d.Decl.Body, func(nd ast.Node) bool {
		if nd == nil {
			stack = stack[:len(stack)-1]
			return true
		}
		stack = append(stack, nd)
		c, ok := nd.(*ast.CallExpr)
		if !ok {
			return true
		}
		cal := an.Callee(info, c)
		if cal != rm && cal != rmAll {
			return true
		}
		n++
		key := fmt.Sprintf("%s.removeTombstones/remove#%d/only-after-successful-merge", isrv, n)
		// inside a deferred literal?
		var deferStmt *ast.DeferStmt
		for i := len(stack) - 1; i >= 0; i-- {
			if ds, ok := stack[i].(*ast.DeferStmt); ok {
				deferStmt = ds
			}
		}
		if deferStmt != nil {
			// runs on every return after the defer statement: is there an error return reachable from it?
			dl, ok := g.Find(deferStmt)
			if !ok {
				r.Und("C32.R4", key, c.Pos(), "defer statement not in the CFG")
				return true
			}
			errRet := g.Reach(dl, true, &an.Search{Target: func(k an.Loc) bool {
				rs, ok := g.Node(k).(*ast.ReturnStmt)
				return ok && len(rs.Results) > 0 && !info.Types[rs.Results[len(rs.Results)-1]].IsNil()
			}})
			r.Check(!errRet, "C32.R4", key, c.Pos(), "the deferred removal cannot run on an error return", "the compound shard is removed by a deferred function that also runs when removeTombstones returns an error (the merge failed and nothing replaced the shard): every live repository in it disappears from the index")
			return true
		}
		l, ok := g.Find(c)
		if !ok {
			r.Und("C32.R4", key, c.Pos(), "removal not in the CFG")
			return true
		}
		r.Check(mergeOK(l), "C32.R4", key, c.Pos(), "the old shard is removed only after the merge succeeded", "the compound shard can be removed on a path where the merge was not seen to succeed")
		return true
	})
	r.Floor("C32.R4.removals", 1, n)
}

// c32Compound: outside error handling, cleanup must not delete a shard it has
// just recognised as a compound shard - other, assigned repositories live in it.
func c32Compound(p *an.Prog, r *an.R) {
	r.Rule("C32.R5", "in cleanup, moveAll and maybeSetTombstone no shard file is deleted on a path where the shard was recognised as a compound shard (HasPrefix(.., \"compound-\")), except inside the handling of an error")
	rm, rmAllOS := p.ExtFunc("os", "Remove"), p.ExtFunc("os", "RemoveAll")
	removeAll := p.Func(isrv, "removeAll")
	if !r.Anchor(rm != nil && rmAllOS != nil && removeAll != nil, "os.Remove / "+isrv+".removeAll") {
		return
	}
	n := 0
	for _, name := range []string{"cleanup", "moveAll", "maybeSetTombstone"} {
		f := p.Func(isrv, name)
		d := p.Decl(f)
		if !r.Anchor(d != nil, isrv+"."+name) {
			continue
		}
		r.Fn(an.FuncName(f))
		info := d.Pkg.TypesInfo
		g := an.NewG(info, d.Decl.Body)
		isCompoundFact := func(cond ast.Expr, truth bool) bool {
			neg := false
			e := ast.Unparen(cond)
			if u, ok := e.(*ast.UnaryExpr); ok && u.Op == token.NOT {
				neg = true
				e = ast.Unparen(u.X)
			}
			c, ok := e.(*ast.CallExpr)
			if !ok || len(c.Args) != 2 {
				return false
			}
			cal := an.Callee(info, c)
			if cal == nil || cal.Pkg() == nil || cal.Pkg().Path() != "strings" || cal.Name() != "HasPrefix" {
				return false
			}
			if sv, ok := an.StringConst(info, c.Args[1]); !ok || sv != "compound-" {
				return false
			}
			return truth != neg
		}
		k := 0
		for _, l := range g.Locs(func(ast.Node) bool { return true }) {
			if len(an.CallsTo(info, g.Node(l), false, rm, rmAllOS, removeAll)) == 0 {
				continue
			}
			if !g.GuardedBy(l, isCompoundFact, nil) {
				continue
			}
			k++
			n++
			key := fmt.Sprintf("%s.%s/removal-of-a-compound-shard#%d", isrv, name, k)
			if inErrorCleanup(g, info, l) {
				r.Except(key, "inside error handling (the tombstone could not be written): faults are outside C32's quantifier")
				continue
			}
			r.Bad("C32.R5", key, g.Node(l).Pos(), "the whole compound shard is deleted because one repository in it has to go: every other repository in that shard, assigned ones included, disappears from the index")
		}
	}
	r.Floor("C32.R5.compound-removals", 1, n)
}

// c32Inconsistent: shards taken from the index map are handed to removeAll only
// after the tombstone route was offered for each of them individually.
func c32Inconsistent(p *an.Prog, r *an.R) {
	r.Rule("C32.R6", "cleanup hands index shards to removeAll only element-wise filtered: every element appended to the removed slice is on the not-taken edge of maybeSetTombstone([]shard{element}, ..); the raw shard list of a repository is never removed")
	f := p.Func(isrv, "cleanup")
	d := p.Decl(f)
	removeAll := p.Func(isrv, "removeAll")
	tomb := p.Func(isrv, "maybeSetTombstone")
	if !r.Anchor(d != nil && removeAll != nil && tomb != nil, isrv+".cleanup / removeAll / maybeSetTombstone") {
		return
	}
	info := d.Pkg.TypesInfo
	g := an.NewG(info, d.Decl.Body)
	var trash types.Object
	ast.Inspect(d.Decl.Body, func(n ast.Node) bool {
		if id, ok := n.(*ast.Ident); ok && id.Name == "trash" && trash == nil && info.Defs[id] != nil {
			trash = info.Defs[id]
		}
		return true
	})
	rangeOf := func(v types.Object) *ast.RangeStmt {
		var out *ast.RangeStmt
		ast.Inspect(d.Decl.Body, func(n ast.Node) bool {
			if rs, ok := n.(*ast.RangeStmt); ok && rs.Value != nil {
				if id, ok := rs.Value.(*ast.Ident); ok && info.ObjectOf(id) == v {
					out = rs
				}
			}
			return true
		})
		return out
	}
	n := 0
	for _, c := range an.CallsTo(info, d.Decl.Body, false, removeAll) {
		if len(c.Args) != 1 {
			continue
		}
		id, ok := ast.Unparen(c.Args[0]).(*ast.Ident)
		if !ok {
			continue
		}
		v := info.ObjectOf(id)
		if rs := rangeOf(v); rs != nil {
			if isIdentOf(info, rs.X, trash) {
				continue // shards that already sit in the trash
			}
			n++
			r.Bad("C32.R6", fmt.Sprintf("%s.cleanup/removeAll#%d/raw-shard-list", isrv, n), c.Pos(), "the complete shard list of a repository in the index is removed without offering the tombstone route per shard: a compound shard in that list is deleted together with the other repositories it holds")
			continue
		}
		// a local slice: every append is on the not-taken edge of maybeSetTombstone([]shard{elem})
		n++
		key := fmt.Sprintf("%s.cleanup/removeAll#%d/elements-filtered", isrv, n)
		okAll, nApp := true, 0
		for _, l := range g.Locs(func(ast.Node) bool { return true }) {
			as, isA := g.Node(l).(*ast.AssignStmt)
			if !isA || len(as.Lhs) != 1 || !isIdentOf(info, as.Lhs[0], v) {
				continue
			}
			ac, isC := ast.Unparen(as.Rhs[0]).(*ast.CallExpr)
			if !isC || !an.IsBuiltin(info, ac, "append") || len(ac.Args) != 2 {
				continue
			}
			nApp++
			elem := ac.Args[1]
			offered := g.GuardedBy(l, func(cond ast.Expr, truth bool) bool {
				if truth {
					return false
				}
				hit := false
				ast.Inspect(cond, func(m ast.Node) bool {
					tc, isT := m.(*ast.CallExpr)
					if !isT || an.Callee(info, tc) != tomb {
						return true
					}
					if cl, isL := ast.Unparen(tc.Args[0]).(*ast.CompositeLit); isL && len(cl.Elts) == 1 && sameExpr(cl.Elts[0], elem) {
						hit = true
					}
					return true
				})
				return hit
			}, nil)
			if !offered {
				okAll = false
			}
		}
		r.Check(okAll && nApp > 0, "C32.R6", key, c.Pos(), "each removed shard was first offered the tombstone route", "a shard can be put on the list handed to removeAll without the tombstone route having been offered for it: a compound shard is deleted together with the other repositories it holds")
	}
	r.Floor("C32.R6.removals-of-index-shards", 1, n)
}

// c32SharedIDs: the assigned-ID list is handed to the cleanup goroutine and to
// the queue; nobody may write through it.
func c32SharedIDs(p *an.Prog, r *an.R) {
	r.Rule("C32.R7", "no function of the indexserver package writes through a []uint32 parameter (element store, or append onto a re-slice of it): the assigned-ID list is shared between cleanup and the queue")
	pkg := p.Pkg(isrv)
	if !r.Anchor(pkg != nil, isrv) {
		return
	}
	nFn, nBad := 0, 0
	for _, f := range p.SSAFuncs() {
		if f.Pkg == nil || f.Pkg.Pkg != pkg.Types || f.Synthetic != "" {
			continue
		}
		if strings.HasSuffix(p.Fset.Position(f.Pos()).Filename, "_test.go") {
			continue
		}
		var params []ssa.Value
		for _, pr := range f.Params {
			if sl, ok := pr.Type().Underlying().(*types.Slice); ok {
				if b, ok := sl.Elem().Underlying().(*types.Basic); ok && b.Kind() == types.Uint32 {
					params = append(params, pr)
				}
			}
		}
		if len(params) == 0 {
			continue
		}
		nFn++
		// values that share the parameter's backing array
		shared := map[ssa.Value]bool{}
		for _, pr := range params {
			shared[pr] = true
		}
		for changed := true; changed; {
			changed = false
			an.Instrs(f, func(b *ssa.BasicBlock, in ssa.Instruction) {
				switch x := in.(type) {
				case *ssa.Slice:
					if shared[x.X] && !shared[x] {
						shared[x] = true
						changed = true
					}
				case *ssa.Phi:
					for _, e := range x.Edges {
						if shared[e] && !shared[x] {
							shared[x] = true
							changed = true
						}
					}
				case *ssa.Call:
					// append(shared, ...) may write into the shared array and returns a value that may still share it
					if bi, ok := x.Common().Value.(*ssa.Builtin); ok && bi.Name() == "append" && len(x.Common().Args) > 0 && shared[x.Common().Args[0]] && !shared[x] {
						shared[x] = true
						changed = true
					}
				}
			})
		}
		an.Instrs(f, func(b *ssa.BasicBlock, in ssa.Instruction) {
			switch x := in.(type) {
			case *ssa.Call:
				if bi, ok := x.Common().Value.(*ssa.Builtin); ok && bi.Name() == "append" && len(x.Common().Args) > 0 && shared[x.Common().Args[0]] {
					// appending onto the parameter itself at full length reallocates unless cap > len; onto a shorter re-slice it overwrites
					if _, isParam := x.Common().Args[0].(*ssa.Parameter); isParam {
						return
					}
					nBad++
					r.Bad("C32.R7", an.SSAName(f)+"/append-onto-reslice-of-parameter", x.Pos(), "appends onto a re-slice of its []uint32 parameter: the caller's list is overwritten in place (the assigned-ID list is read by cleanup concurrently and afterwards)")
				}
			case *ssa.Store:
				if ia, ok := x.Addr.(*ssa.IndexAddr); ok && shared[ia.X] {
					nBad++
					r.Bad("C32.R7", an.SSAName(f)+"/element-store-into-parameter", x.Pos(), "stores into an element of its []uint32 parameter: the caller's list is modified")
				}
			}
		})
	}
	if nBad == 0 {
		r.OK("C32.R7", isrv+"/uint32-slice-parameters-read-only", 0, fmt.Sprintf("%d functions with a []uint32 parameter, none writes through it", nFn))
	}
	r.Floor("C32.R7.functions-with-id-list-parameters", 3, nFn)
}

func c32Kind(info *types.Info, n ast.Node, tomb *types.Func) string {
	if len(an.CallsTo(info, n, false, tomb)) > 0 {
		return "tombstoning"
	}
	return "trashing"
}
