package props

import (
	"fmt"
	"go/constant"
	"go/token"
	"go/types"
	"strings"

	"golang.org/x/tools/go/ssa"

	"zverif/checker/an"
)

func init() { register("C36", c36) }

func c36(p *an.Prog, r *an.R, tier string) {
	r.Explanation = "C36 (structural clauses): every byte the web package writes to an http.ResponseWriter comes from html/template (a buffer filled only by (*html/template.Template).Execute), from http.Error, from a JSON encoder after Content-Type: application/json, or is raw content sent after Content-Type: text/plain and X-Content-Type-Options: nosniff; nothing in package web converts a value to one of html/template's 'trusted' types (HTML, HTMLAttr, JS, JSStr, CSS, URL, Srcset), which would switch contextual escaping off; the page templates are html/template templates. Does NOT decide that rendering never fails (slicing inside template functions is value-level), nor html/template's own correctness."
	r.Rule("C36.R1", "inventory of ResponseWriter uses in package web: Write only of html/template-rendered buffers or of raw content after text/plain + nosniff; as a writer argument only to http.Error, http.Redirect, json.NewEncoder (after application/json) or functions of package web")
	r.Rule("C36.R2", "no value is converted to, and no function/field of package web has, a type html/template.HTML/HTMLAttr/JS/JSStr/CSS/URL/Srcset")
	r.Rule("C36.R3", "the Server's page templates are *html/template.Template; buffers rendered by text/template never reach a ResponseWriter")
	r.Assume("html/template escapes every interpolated value according to its context unless it has one of the trusted types")
	web := p.Pkg("web")
	ht := p.TPkgs["html/template"]
	nh := p.TPkgs["net/http"]
	if !r.Anchor(web != nil && ht != nil && nh != nil, "web / html/template / net/http") {
		return
	}
	rwT := nh.Scope().Lookup("ResponseWriter").Type()
	htmlTmpl := ht.Scope().Lookup("Template").Type()
	trusted := map[string]bool{}
	for _, n := range []string{"HTML", "HTMLAttr", "JS", "JSStr", "CSS", "URL", "Srcset"} {
		if o := ht.Scope().Lookup(n); o != nil {
			trusted[n] = true
		}
	}
	r.Floor("C36.R2.trusted-types-resolved", 7, len(trusted))
	isTrusted := func(t types.Type) string {
		nt, ok := t.(*types.Named)
		if ok && nt.Obj().Pkg() == ht && trusted[nt.Obj().Name()] {
			return nt.Obj().Name()
		}
		return ""
	}
	isHTMLExecute := func(c ssa.CallInstruction) bool {
		cal := an.StaticCallee(c)
		return cal != nil && cal.Pkg() == ht && (cal.Name() == "Execute" || cal.Name() == "ExecuteTemplate")
	}
	// header facts: must-precede within the function (SSA block dominance is
	// too strict for headers set in the same straight-line code; we use
	// "a dominating block or the same block earlier")
	headerSet := func(f *ssa.Function, before ssa.Instruction, key string, valPrefix string) bool {
		ok := false
		an.Instrs(f, func(b *ssa.BasicBlock, in ssa.Instruction) {
			c, isC := in.(ssa.CallInstruction)
			if !isC || ok {
				return
			}
			cal := an.StaticCallee(c)
			if cal == nil || !an.IsPkgFunc(cal, "net/http", "Header.Set", "Header.Add") {
				return
			}
			args := c.Common().Args
			k, isK := args[len(args)-2].(*ssa.Const)
			v, isV := args[len(args)-1].(*ssa.Const)
			if !isK || !isV || k.Value == nil || v.Value == nil {
				return
			}
			if !strings.EqualFold(constant.StringVal(k.Value), key) || !strings.HasPrefix(constant.StringVal(v.Value), valPrefix) {
				return
			}
			if b == before.Block() {
				for _, x := range b.Instrs {
					if x == in {
						ok = true
						break
					}
					if x == before {
						break
					}
				}
			} else if b.Dominates(before.Block()) {
				ok = true
			}
		})
		return ok
	}
	writes, args := 0, 0
	for _, f := range p.SSAFuncs() {
		if f.Pkg == nil || f.Pkg.Pkg != web.Types {
			continue
		}
		fname := an.SSAName(f)
		an.Instrs(f, func(b *ssa.BasicBlock, in ssa.Instruction) {
			// R2: conversions
			if v, ok := in.(ssa.Value); ok {
				switch in.(type) {
				case *ssa.ChangeType, *ssa.Convert, *ssa.MakeInterface:
					var t types.Type = v.Type()
					if mi, ok := in.(*ssa.MakeInterface); ok {
						t = mi.X.Type()
					}
					if n := isTrusted(t); n != "" {
						if _, isMI := in.(*ssa.MakeInterface); !isMI {
							r.Bad("C36.R2", fname+"/converts-to/template."+n, in.Pos(), "a value is converted to html/template."+n+": html/template stops escaping it, so index or request text inside it is emitted as markup/script")
						}
					}
				}
			}
			c, ok := in.(ssa.CallInstruction)
			if !ok {
				return
			}
			common := c.Common()
			// invoke on a ResponseWriter
			if common.IsInvoke() && types.Identical(common.Value.Type(), rwT) {
				r.Fn(fname)
				switch common.Method.Name() {
				case "Write":
					writes++
					key := fmt.Sprintf("%s/ResponseWriter.Write", fname)
					src := common.Args[0]
					// buf.Bytes()
					if bc, ok := src.(*ssa.Call); ok {
						if cal := an.StaticCallee(bc); cal != nil && an.IsPkgFunc(cal, "bytes", "Buffer.Bytes") {
							buf := bc.Call.Args[0]
							htmlOnly, used := true, false
							if al, ok := buf.(*ssa.Alloc); ok {
								for _, ref := range *al.Referrers() {
									mi, ok := ref.(*ssa.MakeInterface)
									if !ok {
										continue
									}
									for _, r2 := range *mi.Referrers() {
										if cc, ok := r2.(ssa.CallInstruction); ok {
											used = true
											if !isHTMLExecute(cc) {
												htmlOnly = false
											}
										}
									}
								}
							} else {
								htmlOnly = false
							}
							r.Check(htmlOnly && used, "C36.R1", key+"/html-template-buffer", in.Pos(), "writes a buffer that was filled only by html/template Execute", "the bytes written to the response come from a buffer that is (also) filled by something other than html/template Execute: index/request text reaches an HTML response unescaped")
							return
						}
					}
					// raw content: needs text/plain + nosniff
					okCT := headerSet(f, in, "Content-Type", "text/plain")
					okNS := headerSet(f, in, "X-Content-Type-Options", "nosniff")
					r.Check(okCT && okNS, "C36.R1", key+"/raw-after-text/plain+nosniff", in.Pos(), "raw bytes are sent only after Content-Type: text/plain and X-Content-Type-Options: nosniff", "raw bytes (file content) are written to the response without Content-Type: text/plain and nosniff on every path: a browser may render indexed content as HTML")
				case "Header", "WriteHeader":
				default:
					r.Bad("C36.R1", fname+"/ResponseWriter."+common.Method.Name(), in.Pos(), "unexpected ResponseWriter method")
				}
				return
			}
			// ResponseWriter passed as an argument
			for _, a := range common.Args {
				base := a
				if mi, ok := a.(*ssa.MakeInterface); ok {
					base = mi.X
				}
				if ci, ok := a.(*ssa.ChangeInterface); ok {
					base = ci.X
				}
				if !types.Identical(base.Type(), rwT) {
					continue
				}
				args++
				cal := an.CalleeAny(c)
				key := fmt.Sprintf("%s/ResponseWriter-passed-to/%s", fname, calleeShort(cal))
				switch {
				case cal == nil:
					r.Bad("C36.R1", key, in.Pos(), "the ResponseWriter is passed to a dynamic call")
				case an.IsPkgFunc(cal, "net/http", "Error", "Redirect", "NotFound"):
					r.OK("C36.R1", key, in.Pos(), "net/http helper (text/plain with nosniff, or a redirect)")
				case an.IsPkgFunc(cal, "encoding/json", "NewEncoder"):
					ok := headerSet(f, in, "Content-Type", "application/json")
					r.Check(ok, "C36.R1", key+"/after-application/json", in.Pos(), "JSON is sent after Content-Type: application/json", "a JSON encoder writes to the response without Content-Type: application/json having been set: browsers sniff the body as HTML")
				case cal.Pkg() != nil && cal.Pkg() == web.Types:
					r.OK("C36.R1", key, in.Pos(), "handed to a function of package web (analysed there)")
				case cal.Pkg() != nil && cal.Pkg().Path() == "net/http" && (cal.Name() == "ServeHTTP" || cal.Name() == "HandleFunc"):
					r.OK("C36.R1", key, in.Pos(), "dispatch to another handler")
				default:
					r.Bad("C36.R1", key, in.Pos(), "the ResponseWriter is handed to "+calleeShort(cal)+", which is not in the inventory of safe writers (html/template buffers, http.Error, JSON after its content type)")
				}
			}
		})
	}
	r.Floor("C36.R1.response-writes", 6, writes)
	r.Floor("C36.R1.writer-arguments", 8, args)
	// R2: declared types in package web
	n := 0
	scope := web.Types.Scope()
	for _, name := range scope.Names() {
		obj := scope.Lookup(name)
		check := func(t types.Type, what string) {
			n++
			var walk func(t types.Type, depth int) string
			walk = func(t types.Type, depth int) string {
				if depth > 4 {
					return ""
				}
				if s := isTrusted(t); s != "" {
					return s
				}
				switch x := t.(type) {
				case *types.Pointer:
					return walk(x.Elem(), depth+1)
				case *types.Slice:
					return walk(x.Elem(), depth+1)
				case *types.Map:
					if s := walk(x.Key(), depth+1); s != "" {
						return s
					}
					return walk(x.Elem(), depth+1)
				case *types.Signature:
					for i := 0; i < x.Results().Len(); i++ {
						if s := walk(x.Results().At(i).Type(), depth+1); s != "" {
							return s
						}
					}
				case *types.Struct:
					for i := 0; i < x.NumFields(); i++ {
						if s := walk(x.Field(i).Type(), depth+1); s != "" {
							return s
						}
					}
				}
				return ""
			}
			if s := walk(t, 0); s != "" {
				r.Bad("C36.R2", "web."+what+"/has-type/template."+s, obj.Pos(), "web."+what+" has (or returns, or contains) html/template."+s+": values of that type bypass contextual escaping in the page templates")
			}
		}
		switch o := obj.(type) {
		case *types.Func:
			check(o.Type(), o.Name())
		case *types.TypeName:
			check(o.Type().Underlying(), o.Name())
		case *types.Var:
			check(o.Type(), o.Name())
		}
	}
	// function literals in Funcmap: results of the literal's signature
	for _, f := range p.SSAFuncs() {
		if f.Pkg != nil && f.Pkg.Pkg == web.Types && f.Parent() != nil {
			for i := 0; i < f.Signature.Results().Len(); i++ {
				if s := isTrusted(f.Signature.Results().At(i).Type()); s != "" {
					r.Bad("C36.R2", an.SSAName(f)+"/returns/template."+s, f.Pos(), "a template function returns html/template."+s)
				}
			}
		}
	}
	if true {
		r.OK("C36.R2", "web/no-trusted-template-types", token.NoPos, fmt.Sprintf("%d package-level declarations and all conversions inspected", n))
	}
	// R3
	srv := p.Struct("web", "Server")
	if r.Anchor(srv != nil, "web.Server") {
		k := 0
		for _, name := range []string{"Top", "repolist", "search", "result", "print", "about", "robots"} {
			f := p.Field("web", "Server", name)
			if f == nil {
				continue
			}
			k++
			pt, ok := f.Type().(*types.Pointer)
			r.Check(ok && types.Identical(pt.Elem(), htmlTmpl), "C36.R3", "web.Server."+name+"/is-html-template", f.Pos(), "page template is *html/template.Template", "page template "+name+" is not an html/template template: its output is not contextually escaped")
		}
		r.Floor("C36.R3.page-templates", 5, k)
	}
}
