package props

import (
	"fmt"
	"go/ast"
	"go/types"

	"zverif/checker/an"
)

// errCheckedBefore: for every error variable assigned in the function, every
// target location that an assignment of it can reach must be guarded by the
// "== nil" edge of a test of that variable taken after the last assignment.
// Returns the error variables found.
func errCheckedBefore(r *an.R, rule string, d *an.DeclInfo, g *an.G, fname, what string, targets []an.Loc, consequence string) map[types.Object]bool {
	info := d.Pkg.TypesInfo
	// error variables assigned in this function (outermost scope objects)
	errVars := map[types.Object]bool{}
	an.Inspect(d.Decl.Body, false, func(n ast.Node) bool {
		if as, ok := n.(*ast.AssignStmt); ok {
			for _, l := range as.Lhs {
				if id, ok := l.(*ast.Ident); ok && id.Name != "_" {
					o := info.ObjectOf(id)
					if o != nil && types.Identical(o.Type(), types.Universe.Lookup("error").Type()) {
						errVars[o] = true
					}
				}
			}
		}
		return true
	})
	assignsTo := func(n ast.Node, o types.Object) bool {
		as, ok := n.(*ast.AssignStmt)
		if !ok {
			return false
		}
		for _, l := range as.Lhs {
			if id, ok := l.(*ast.Ident); ok && info.ObjectOf(id) == o {
				return true
			}
		}
		return false
	}
	for o := range errVars {
		o := o
		for _, t := range targets {
			// skip targets that (re)assign this error themselves: the fact is needed before the call
			ok := g.GuardedBy(t, func(cond ast.Expr, truth bool) bool {
				be, isB := ast.Unparen(cond).(*ast.BinaryExpr)
				if !isB {
					return false
				}
				if !an.UsesObj(info, be.X, o) || !info.Types[be.Y].IsNil() {
					return false
				}
				return (be.Op.String() == "!=" && !truth) || (be.Op.String() == "==" && truth)
			}, func(l an.Loc) bool { return l != t && assignsTo(g.Node(l), o) })
			// the fact is only required if an assignment to o can reach the target at all
			assigned := false
			for _, al := range g.Locs(func(n ast.Node) bool { return assignsTo(n, o) }) {
				if al == t {
					continue
				}
				if g.Reach(al, true, &an.Search{Target: func(l an.Loc) bool { return l == t }}) {
					assigned = true
				}
			}
			if !assigned {
				continue
			}
			key := fmt.Sprintf("%s/err-checked-before-"+what+"/%s@%s", fname, o.Name(), declOrdinal(info, d.Decl, o))
			r.Check(ok, "C07.R4", key, g.Node(t).Pos(), "every assignment of this error is tested (== nil edge) before the Searcher call",
				"the call is reachable with this error assigned and untested: "+consequence)
		}
	}
	return errVars
}
