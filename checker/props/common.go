package props

import (
	"fmt"
	"go/ast"
	"go/types"
	"strings"

	"golang.org/x/tools/go/cfg"

	"zverif/checker/an"
)

// errCheckedBefore: for every error variable assigned in the function, every
// target location that an assignment of it can reach must be guarded by the
// "== nil" edge of a test of that variable taken after the last assignment.
// Returns the error variables found.
func errCheckedBefore(r *an.R, rule string, d *an.DeclInfo, g *an.G, fname, what string, targets []an.Loc, consequence string) map[types.Object]bool {
	info := d.Pkg.TypesInfo
	// error variables assigned in this function (outermost scope objects)
	errVars := map[types.Object]bool{}
	an.Inspect(d.Decl.Body, false, func(n ast.Node) bool {
		if as, ok := n.(*ast.AssignStmt); ok {
			for _, l := range as.Lhs {
				if id, ok := l.(*ast.Ident); ok && id.Name != "_" {
					o := info.ObjectOf(id)
					if o != nil && types.Identical(o.Type(), types.Universe.Lookup("error").Type()) {
						errVars[o] = true
					}
				}
			}
		}
		return true
	})
	assignsTo := func(n ast.Node, o types.Object) bool {
		as, ok := n.(*ast.AssignStmt)
		if !ok {
			return false
		}
		for _, l := range as.Lhs {
			if id, ok := l.(*ast.Ident); ok && info.ObjectOf(id) == o {
				return true
			}
		}
		return false
	}
	for o := range errVars {
		o := o
		isAssign := func(l an.Loc) bool { return assignsTo(g.Node(l), o) }
		for _, t := range targets {
			for _, al := range g.Locs(func(n ast.Node) bool { return assignsTo(n, o) }) {
				if al == t {
					continue
				}
				// a path from the assignment to the target that never takes an
				// edge establishing o == nil (and is not re-assigned) is a violation
				unchecked := g.Reach(al, true, &an.Search{
					// reaching the target, or overwriting the error on the way to
					// it, without the == nil edge
					Target: func(l an.Loc) bool { return l == t || (l != al && isAssign(l) && reachesLoc(g, l, t)) },
					CutEdge: func(b *cfg.Block, k int) bool {
						return g.EdgeImplies(b, k, func(atom ast.Expr, truth bool) bool {
							be, isB := ast.Unparen(atom).(*ast.BinaryExpr)
							if !isB || !an.UsesObj(info, be.X, o) || !info.Types[be.Y].IsNil() {
								return false
							}
							return (be.Op.String() == "!=" && !truth) || (be.Op.String() == "==" && truth)
						})
					},
				})
				reaches := g.Reach(al, true, &an.Search{Target: func(l an.Loc) bool { return l == t }, Cut: func(l an.Loc) bool { return l != t && isAssign(l) }})
				if !reaches && !unchecked {
					continue
				}
				key := fmt.Sprintf("%s/err-checked-before-"+what+"/%s@%s", fname, o.Name(), declOrdinal(info, d.Decl, o))
				r.Check(!unchecked, rule, key, g.Node(t).Pos(), "every assignment of this error is tested (== nil edge) before the call",
					"the call is reachable with this error assigned and untested: "+consequence)
			}
		}
	}
	return errVars
}

func reachesLoc(g *an.G, from, to an.Loc) bool {
	return from == to || g.Reach(from, true, &an.Search{Target: func(l an.Loc) bool { return l == to }})
}

// calleeDecls returns d followed by the declarations of the same-package
// functions that d's body calls directly (one level; no test files): rules
// that look for a construct "in function F" also look in the helpers F was
// split into.
func calleeDecls(p *an.Prog, d *an.DeclInfo) []*an.DeclInfo {
	out := []*an.DeclInfo{d}
	if d == nil || d.Decl.Body == nil {
		return out
	}
	info := d.Pkg.TypesInfo
	seen := map[*an.DeclInfo]bool{d: true}
	ast.Inspect(d.Decl.Body, func(n ast.Node) bool {
		c, ok := n.(*ast.CallExpr)
		if !ok {
			return true
		}
		fn := an.Callee(info, c)
		if fn == nil || fn.Pkg() == nil || fn.Pkg() != d.Pkg.Types {
			return true
		}
		hd := p.Decl(fn)
		if hd == nil || hd.Decl.Body == nil || seen[hd] || strings.HasSuffix(p.Fset.Position(hd.Decl.Pos()).Filename, "_test.go") {
			return true
		}
		seen[hd] = true
		out = append(out, hd)
		return true
	})
	return out
}
