package props

import (
	"go/ast"
	"go/token"
	"go/types"
	"strings"

	"zverif/checker/an"
)

func init() { register("C35", c35) }

// errFallbackOK: the node classifies the error (errors.Is/As, os.IsNotExist):
// the branch is a documented fallback, not a swallowed failure.
func errFallbackOK(info *types.Info, n ast.Node) bool {
	found := false
	an.Inspect(n, false, func(m ast.Node) bool {
		if c, ok := m.(*ast.CallExpr); ok {
			cal := an.Callee(info, c)
			if an.IsPkgFunc(cal, "errors", "Is", "As") || an.IsPkgFunc(cal, "os", "IsNotExist", "IsExist") {
				found = true
			}
		}
		return true
	})
	return found
}

func c35(p *an.Prog, r *an.R, tier string) {
	r.Explanation = "C35 (structural clauses): zoekt-merge-index's merge and index.Explode report every failure of the calls that make the operation take effect (open, NewIndexFile, Merge/explode, IndexFilePaths, Remove, Rename), and main exits non-zero on any returned error; in merge every removal of an input shard precedes the rename that makes the compound shard visible, in Explode the removal of the compound shard (shard file before its .meta) precedes every rename of an exploded shard; compound and exploded shards are written under .tmp names. Every element of IndexFilePaths' result reaches os.Remove in the removal loop. Does NOT decide completeness of the merged content (C16) nor kill points inside one rename(2)."
	r.Rule("C35.R1", "error discipline in cmd/zoekt-merge-index.merge, mergeCmd, explodeCmd and index.Explode, index.Merge, index.builderWriteAll: every fallible call's error is tested and propagated; main passes every error to log.Fatal")
	r.Rule("C35.R2", "no-duplicate ordering: no os.Remove of an input is reachable after the os.Rename that publishes the output, every path to that rename passes the removal loop, and the removal loop walks IndexFilePaths' result forwards (shard before .meta)")
	r.Rule("C35.R3", "the names handed to builderWriteAll by Merge/explode end in .tmp")

	const cmdPkg = "cmd/zoekt-merge-index"
	for _, fn := range []struct{ pkg, name string }{
		{cmdPkg, "merge"}, {cmdPkg, "mergeCmd"}, {cmdPkg, "explodeCmd"},
		{"index", "Explode"}, {"index", "Merge"}, {"index", "builderWriteAll"},
	} {
		f := p.Func(fn.pkg, fn.name)
		if !r.Anchor(f != nil, fn.pkg+"."+fn.name) {
			continue
		}
		errDiscipline(p, r, "C35.R1", f, errOpts{
			swallowOK: errFallbackOK,
			only: func(cal *types.Func) bool {
				// hash.Hash.Write never fails; fmt printing to stderr is not part of the effect
				if cal.Pkg() != nil && (cal.Pkg().Path() == "fmt" || cal.Pkg().Path() == "hash" || cal.Pkg().Path() == "io") {
					return false
				}
				return true
			},
			exempt: map[string]string{
				"cmd/zoekt-merge-index.merge/os.File.Close/error-discarded-in-defer": "input shard opened read-only: nothing is lost if Close fails",
				"index.Explode/os.File.Close/error-discarded-in-defer":               "input shard opened read-only: nothing is lost if Close fails",
				"index.builderWriteAll/os.File.Close/error-discarded-in-defer":       "a second Close after the checked one (cleanup on error paths)",
				"index.builderWriteAll/os.Remove/error-discarded-in-defer":           "best-effort removal of the temp file on error paths",
			},
		})
	}
	// helpers extracted from those functions: a function of the same package, called from one of them,
	// that removes or renames files is held to the same discipline
	{
		rm, rn := p.ExtFunc("os", "Remove"), p.ExtFunc("os", "Rename")
		listed := map[*types.Func]bool{}
		for _, fn := range []struct{ pkg, name string }{{cmdPkg, "merge"}, {cmdPkg, "mergeCmd"}, {cmdPkg, "explodeCmd"}, {"index", "Explode"}, {"index", "Merge"}, {"index", "builderWriteAll"}} {
			if f := p.Func(fn.pkg, fn.name); f != nil {
				listed[f] = true
			}
		}
		seenH := map[*types.Func]bool{}
		for f := range listed {
			d := p.Decl(f)
			if d == nil || d.Decl.Body == nil {
				continue
			}
			ast.Inspect(d.Decl.Body, func(n ast.Node) bool {
				c, ok := n.(*ast.CallExpr)
				if !ok {
					return true
				}
				h := an.Callee(d.Pkg.TypesInfo, c)
				if h == nil || listed[h] || seenH[h] || h.Pkg() != f.Pkg() {
					return true
				}
				hd := p.Decl(h)
				if hd == nil || hd.Decl.Body == nil || len(an.CallsTo(hd.Pkg.TypesInfo, hd.Decl.Body, true, rm, rn)) == 0 {
					return true
				}
				seenH[h] = true
				errDiscipline(p, r, "C35.R1", h, errOpts{swallowOK: errFallbackOK})
				return true
			})
		}
	}
	// main: every error returned by mergeCmd/explodeCmd is fatal
	if md := p.Decl(p.Func(cmdPkg, "main")); r.Anchor(md != nil, cmdPkg+".main") {
		info := md.Pkg.TypesInfo
		g := an.NewG(info, md.Decl.Body)
		n := 0
		for _, name := range []string{"mergeCmd", "explodeCmd"} {
			f := p.Func(cmdPkg, name)
			for _, l := range g.Locs(func(ast.Node) bool { return true }) {
				if !g.HasCallTo(f)(l) {
					continue
				}
				n++
				as, ok := g.Node(l).(*ast.AssignStmt)
				key := cmdPkg + ".main/" + name + "/error-is-fatal"
				if !ok {
					r.Bad("C35.R1", key, g.Node(l).Pos(), "the error of "+name+" is not bound in main: a failure exits 0")
					continue
				}
				id, _ := as.Lhs[len(as.Lhs)-1].(*ast.Ident)
				if id == nil || id.Name == "_" {
					r.Bad("C35.R1", key, as.Pos(), "the error of "+name+" is discarded in main: a failure exits 0")
					continue
				}
				obj := info.ObjectOf(id)
				verdict, pos := errVarFate(g, info, l, obj, false, errOpts{})
				r.Check(verdict == "", "C35.R1", key, posOr(pos, as.Pos()), "a non-nil error ends in log.Fatal (non-zero exit)", "main: "+verdict+" — the command exits 0 although it failed")
			}
		}
		r.Floor("C35.R1.main-command-sites", 2, n)
	}
	c35Order(p, r, cmdPkg, "merge")
	c35Order(p, r, "index", "Explode")
	c35TmpNames(p, r)
}

func posOr(a, b token.Pos) token.Pos {
	if a.IsValid() {
		return a
	}
	return b
}

// c35Order: Remove-before-Rename.
func c35Order(p *an.Prog, r *an.R, pkg, name string) {
	f := p.Func(pkg, name)
	d := p.Decl(f)
	rename := p.ExtFunc("os", "Rename")
	remove := p.ExtFunc("os", "Remove")
	ifp := p.Func("index", "IndexFilePaths")
	if !r.Anchor(d != nil && rename != nil && remove != nil && ifp != nil, pkg+"."+name+" / os.Rename / os.Remove") {
		return
	}
	info := d.Pkg.TypesInfo
	// the removal and the publishing rename may have been split off into a helper of the package
	if len(an.CallsTo(info, d.Decl.Body, false, rename)) == 0 {
		var hf *types.Func
		var hdd *an.DeclInfo
		p.AllDecls(func(cf *types.Func, cd *an.DeclInfo) {
			if cd.Pkg != d.Pkg || cd.Decl.Body == nil || cf == f || len(an.CallsTo(info, d.Decl.Body, false, cf)) == 0 {
				return
			}
			if len(an.CallsTo(cd.Pkg.TypesInfo, cd.Decl.Body, false, rename)) > 0 && len(an.CallsTo(cd.Pkg.TypesInfo, cd.Decl.Body, false, remove)) > 0 {
				hf, hdd = cf, cd // the helper does both steps: the ordering is decided there
			}
		})
		if hf != nil {
			f, d = hf, hdd
			r.Fn(an.FuncName(f))
		}
	}
	fname := an.FuncName(f)
	g := an.NewG(info, d.Decl.Body)
	isRename := g.HasCallTo(rename)
	// functions of the same package whose body removes files: a call to one of them is a removal site
	var removers []*types.Func
	removers = append(removers, remove)
	helperBodies := map[*types.Func]*an.DeclInfo{}
	p.AllDecls(func(hf *types.Func, hd *an.DeclInfo) {
		if hd.Pkg != d.Pkg || hf == f || hd.Decl.Body == nil || strings.HasSuffix(p.Fset.Position(hd.Decl.Pos()).Filename, "_test.go") {
			return
		}
		if len(an.CallsTo(info, d.Decl.Body, false, hf)) > 0 && len(an.CallsTo(hd.Pkg.TypesInfo, hd.Decl.Body, false, remove)) > 0 && len(an.CallsTo(hd.Pkg.TypesInfo, hd.Decl.Body, false, rename)) == 0 {
			removers = append(removers, hf)
			helperBodies[hf] = hd
		}
	})
	isRemove := g.HasCallTo(removers...)
	// likewise for the publishing renames
	renamers := []*types.Func{rename}
	p.AllDecls(func(hf *types.Func, hd *an.DeclInfo) {
		if hd.Pkg != d.Pkg || hf == f || hd.Decl.Body == nil || strings.HasSuffix(p.Fset.Position(hd.Decl.Pos()).Filename, "_test.go") {
			return
		}
		if len(an.CallsTo(info, d.Decl.Body, false, hf)) > 0 && len(an.CallsTo(hd.Pkg.TypesInfo, hd.Decl.Body, false, rename)) > 0 && len(an.CallsTo(hd.Pkg.TypesInfo, hd.Decl.Body, false, remove)) == 0 {
			renamers = append(renamers, hf)
		}
	})
	isRename = g.HasCallTo(renamers...)
	renames := g.Locs(func(n ast.Node) bool { return len(an.CallsTo(info, n, false, renamers...)) > 0 })
	removes := g.Locs(func(n ast.Node) bool {
		if _, isDefer := n.(*ast.DeferStmt); isDefer {
			return false
		}
		return len(an.CallsTo(info, n, false, removers...)) > 0
	})
	if !r.Anchor(len(renames) > 0 && len(removes) > 0, fname+"/rename and remove sites") {
		return
	}
	for _, rn := range renames {
		after := g.Reach(rn, true, &an.Search{Target: isRemove})
		r.Check(!after, "C35.R2", fname+"/no-remove-after-rename", g.Node(rn).Pos(),
			"no removal of an input is reachable after the output was renamed into place",
			"an os.Remove of an input shard is reachable after the os.Rename that publishes the output: if that removal fails or the process is killed in between, the repository is visible in two shards")
		// every path to the rename passes the removal loop: cut at the range
		// expression of loops that contain a Remove
		var loopHeads []ast.Expr
		ast.Inspect(d.Decl.Body, func(n ast.Node) bool {
			if _, isLit := n.(*ast.FuncLit); isLit {
				return false
			}
			switch x := n.(type) {
			case *ast.RangeStmt:
				if len(an.CallsTo(info, x.Body, false, remove)) > 0 {
					loopHeads = append(loopHeads, x.X)
				}
			case *ast.ForStmt:
				if len(an.CallsTo(info, x.Body, false, remove)) > 0 && x.Cond != nil {
					loopHeads = append(loopHeads, x.Cond)
				}
			}
			return true
		})
		isHead := func(l an.Loc) bool {
			if len(removers) > 1 && len(an.CallsTo(info, g.Node(l), false, removers[1:]...)) > 0 {
				return true // the removal loop lives in the helper
			}
			for _, h := range loopHeads {
				if g.Node(l) == ast.Node(h) || (g.Node(l).Pos() <= h.Pos() && h.End() <= g.Node(l).End()) {
					return true
				}
			}
			return false
		}
		skips := g.Reach(g.Entry(), false, &an.Search{Target: func(l an.Loc) bool { return l == rn }, Cut: func(l an.Loc) bool { return isHead(l) || isRemove(l) }})
		r.Check(!skips, "C35.R2", fname+"/removal-precedes-rename", g.Node(rn).Pos(),
			"every path to the publishing rename passes the loop that removes the inputs",
			"the rename that publishes the output is reachable without passing the removal of the inputs: input and output shards are visible together")
		_ = isRename
	}
	// removal order of IndexFilePaths' result (in the function itself and in its removal helpers)
	n := 0
	scanBodies := []*ast.BlockStmt{d.Decl.Body}
	for _, hd := range helperBodies {
		scanBodies = append(scanBodies, hd.Decl.Body)
	}
	for _, scanBody := range scanBodies {
		scanBody := scanBody
		ast.Inspect(scanBody, func(nd ast.Node) bool {
			if _, isLit := nd.(*ast.FuncLit); isLit {
				return false
			}
			var body *ast.BlockStmt
			reversed := false
			switch x := nd.(type) {
			case *ast.RangeStmt:
				body = x.Body
				// slices.Backward(paths) / reversed copies
				ast.Inspect(x.X, func(m ast.Node) bool {
					if c, ok := m.(*ast.CallExpr); ok {
						if cal := an.Callee(info, c); cal != nil && (cal.Name() == "Backward" || cal.Name() == "Reverse") {
							reversed = true
						}
					}
					return true
				})
			case *ast.ForStmt:
				body = x.Body
				if post, ok := x.Post.(*ast.IncDecStmt); ok && post.Tok == token.DEC {
					reversed = true
				}
			default:
				return true
			}
			if len(an.CallsTo(info, body, false, remove)) == 0 {
				return true
			}
			// does the loop remove elements of a variable assigned from IndexFilePaths?
			fromIFP := false
			ast.Inspect(nd, func(m ast.Node) bool {
				if id, ok := m.(*ast.Ident); ok {
					if o := info.ObjectOf(id); o != nil && assignedFrom(info, scanBody, o, ifp) {
						fromIFP = true
					}
				}
				return true
			})
			if !fromIFP {
				return true
			}
			n++
			// every element is removed: the os.Remove is a top-level statement of the loop (or the init of one)
			// and no continue/break ahead of it can pass an element over
			rmIdx := -1
			innermost := true
			for _, st := range body.List {
				ast.Inspect(st, func(m ast.Node) bool {
					switch y := m.(type) {
					case *ast.RangeStmt:
						if len(an.CallsTo(info, y.Body, false, remove)) > 0 {
							innermost = false
						}
					case *ast.ForStmt:
						if len(an.CallsTo(info, y.Body, false, remove)) > 0 {
							innermost = false
						}
					}
					return true
				})
			}
			for si, st := range body.List {
				if len(an.CallsTo(info, st, false, remove)) > 0 && rmIdx < 0 {
					rmIdx = si
				}
			}
			skipsElem := rmIdx < 0
			if rmIdx >= 0 {
				for _, st := range body.List[:rmIdx] {
					if stmtLeavesIteration(st) {
						skipsElem = true
					}
				}
				// the removal itself must not be conditional on anything but its own error
				switch st := body.List[rmIdx].(type) {
				case *ast.IfStmt:
					if st.Init == nil || len(an.CallsTo(info, st.Init, false, remove)) == 0 {
						skipsElem = true
					}
				case *ast.AssignStmt, *ast.ExprStmt:
				default:
					skipsElem = true
				}
			}
			r.Check(!skipsElem || !innermost, "C35.R2", fname+"/IndexFilePaths-every-file-removed", nd.Pos(),
				"every file named by IndexFilePaths reaches os.Remove (no element of the loop is passed over)",
				"an element of IndexFilePaths' result can be passed over by the removal loop (continue/break or a condition ahead of os.Remove): an input shard stays while its .meta sidecar - the tombstones - is removed, or the other way round, and a repository is visible in two shards")
			r.Check(!reversed, "C35.R2", fname+"/IndexFilePaths-removed-in-order", nd.Pos(),
				"the files named by IndexFilePaths are removed in the order returned (shard, then .meta)",
				"the files named by IndexFilePaths are removed in reverse: the .meta sidecar (tombstones) goes before the shard, so a failure or kill in between leaves the shard loadable without its tombstones and tombstoned repositories re-appear next to their re-indexed copies")
			return true
		})
	}
	r.Floor("C35.R2."+name+".IndexFilePaths-removal-loops", 1, n)
}

func assignedFrom(info *types.Info, body ast.Node, o types.Object, fn *types.Func) bool {
	found := false
	ast.Inspect(body, func(n ast.Node) bool {
		as, ok := n.(*ast.AssignStmt)
		if !ok || len(as.Rhs) != 1 || len(an.CallsTo(info, as.Rhs[0], false, fn)) == 0 {
			return true
		}
		if id, ok := as.Lhs[0].(*ast.Ident); ok && info.ObjectOf(id) == o {
			found = true
		}
		return true
	})
	return found
}

// c35TmpNames: the file name handed to builderWriteAll is a concatenation
// ending in ".tmp".
func c35TmpNames(p *an.Prog, r *an.R) {
	bwa := p.Func("index", "builderWriteAll")
	if !r.Anchor(bwa != nil, "index.builderWriteAll") {
		return
	}
	n := 0
	p.AllDecls(func(fn *types.Func, d *an.DeclInfo) {
		if d.Decl.Body == nil || d.Pkg.PkgPath != an.Mod+"/index" {
			return
		}
		info := d.Pkg.TypesInfo
		for _, c := range an.CallsTo(info, d.Decl.Body, true, bwa) {
			n++
			ok := endsInTmp(info, d.Decl.Body, c.Args[0], 0)
			r.Check(ok, "C35.R3", an.FuncName(fn)+"/builderWriteAll/name-ends-in-.tmp", c.Pos(),
				"the shard is written under a name ending in .tmp (invisible to the loader until renamed)",
				"builderWriteAll is handed a name that is not recognisably a .tmp name: the shard becomes visible to the loader before the inputs are removed")
		}
	})
	r.Floor("C35.R3.builderWriteAll-sites", 2, n)
}

// endsInTmp: e is X + ".tmp" or a variable assigned exactly once from such an
// expression.
func endsInTmp(info *types.Info, body ast.Node, e ast.Expr, depth int) bool {
	e = ast.Unparen(e)
	if s, ok := an.StringConst(info, e); ok {
		return len(s) >= 4 && s[len(s)-4:] == ".tmp"
	}
	if be, ok := e.(*ast.BinaryExpr); ok && be.Op == token.ADD {
		return endsInTmp(info, body, be.Y, depth)
	}
	if id, ok := e.(*ast.Ident); ok && depth < 3 {
		o := info.ObjectOf(id)
		var rhs []ast.Expr
		ast.Inspect(body, func(n ast.Node) bool {
			if as, ok := n.(*ast.AssignStmt); ok {
				for i, lh := range as.Lhs {
					if lid, ok := lh.(*ast.Ident); ok && info.ObjectOf(lid) == o && i < len(as.Rhs) && len(as.Lhs) == len(as.Rhs) {
						rhs = append(rhs, as.Rhs[i])
					}
				}
			}
			return true
		})
		if len(rhs) == 0 {
			return false
		}
		for _, x := range rhs {
			if !endsInTmp(info, body, x, depth+1) {
				return false
			}
		}
		return true
	}
	return false
}

// stmtLeavesIteration: st contains (outside nested loops and function literals) a continue, a labelled branch, a goto,
// or a break that is not inside a switch/select of its own - i.e. control can go on to the next iteration or out of
// the loop from within st.
func stmtLeavesIteration(st ast.Stmt) bool {
	leaves := false
	var walk func(n ast.Node, inLoop, inSwitch bool)
	walk = func(n ast.Node, inLoop, inSwitch bool) {
		ast.Inspect(n, func(m ast.Node) bool {
			if m == nil || m == n {
				return true
			}
			switch x := m.(type) {
			case *ast.FuncLit:
				return false
			case *ast.ForStmt, *ast.RangeStmt:
				walk(m, true, false)
				return false
			case *ast.SwitchStmt, *ast.TypeSwitchStmt, *ast.SelectStmt:
				walk(m, inLoop, true)
				return false
			case *ast.BranchStmt:
				switch {
				case x.Label != nil || x.Tok == token.GOTO:
					leaves = true
				case inLoop:
				case x.Tok == token.CONTINUE:
					leaves = true
				case x.Tok == token.BREAK && !inSwitch:
					leaves = true
				}
			}
			return true
		})
	}
	walk(st, false, false)
	return leaves
}
