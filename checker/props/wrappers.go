package props

import (
	"go/ast"
	"go/token"
	"go/types"
	"strings"

	"zverif/checker/an"
)

// A guard may be moved into a small predicate helper:
//
//	func repoVisible(ctx context.Context, md *zoekt.Repository) bool {
//		if md.Tombstone { return false }
//		return tenant.HasAccess(ctx, md.TenantID)
//	}
//
// wrapperSummary evaluates such a helper abstractly (an.BoolEval: all
// assignments of truth values to the per-repository conditions it tests) and
// reports which per-repository facts a given result establishes.

type wrapperFact struct {
	kind    string // "Tombstone" (repository is live), "tenant.HasAccess", "FileTombstones" (path not tombstoned)
	result  bool   // the helper's result that establishes the fact
	repoArg int    // position (in the ssa call's argument list: receiver first) of the repository record
	ctxArg  int    // position of the context for tenant.HasAccess, else -1 (-2: a captured context variable)
	// byIndex: the argument at repoArg is the index of the repository in the per-repository arrays
	byIndex bool
	// capturedCtx: the captured context variable of a closure (ctxArg == -2)
	capturedCtx types.Object
}

var wrapperCache = map[*types.Func][]wrapperFact{}

// wrapperSkip[fn][r]: the reasons (C01.R1) that justify passing over a document when the helper returned r
var wrapperSkip = map[*types.Func]map[bool]string{}

func wrapperSummary(p *an.Prog, fn *types.Func) []wrapperFact {
	if fn == nil {
		return nil
	}
	if s, ok := wrapperCache[fn]; ok {
		return s
	}
	wrapperCache[fn] = nil
	d := p.Decl(fn)
	if d == nil || d.Decl.Body == nil {
		return nil
	}
	out, skip := wrapperSummaryOf(d.Pkg.TypesInfo, d.Decl.Recv, d.Decl.Type, d.Decl.Body)
	wrapperCache[fn] = out
	wrapperSkip[fn] = skip
	return out
}

var closureWrapperCache = map[*ast.FuncLit][]wrapperFact{}

// wrapperSummaryLit is wrapperSummary for a function literal bound to a local (`listable := func(i int) bool {..}`).
func wrapperSummaryLit(info *types.Info, lit *ast.FuncLit) []wrapperFact {
	if s, ok := closureWrapperCache[lit]; ok {
		return s
	}
	out, _ := wrapperSummaryOf(info, nil, lit.Type, lit.Body)
	closureWrapperCache[lit] = out
	return out
}

func wrapperSummaryOf(info *types.Info, recv *ast.FieldList, ftype *ast.FuncType, body *ast.BlockStmt) ([]wrapperFact, map[bool]string) {
	if ftype.Results == nil || len(ftype.Results.List) != 1 {
		return nil, nil
	}
	if t := info.TypeOf(ftype.Results.List[0].Type); t == nil || t.String() != "bool" {
		return nil, nil
	}
	d := struct {
		Decl struct {
			Body *ast.BlockStmt
		}
	}{}
	d.Decl.Body = body
	// parameter positions as in ssa call arguments (receiver first)
	pos := map[types.Object]int{}
	k := 0
	if recv != nil {
		for _, f := range recv.List {
			for _, nm := range f.Names {
				pos[info.ObjectOf(nm)] = k
			}
			k++
		}
	}
	for _, f := range ftype.Params.List {
		for _, nm := range f.Names {
			pos[info.ObjectOf(nm)] = k
			k++
		}
		if len(f.Names) == 0 {
			k++
		}
	}
	byIndex := map[int]bool{} // parameter positions that are indexes into the per-repository array
	paramOf := func(e ast.Expr) (int, bool) {
		e = ast.Unparen(e)
		if u, ok := e.(*ast.StarExpr); ok {
			e = ast.Unparen(u.X)
		}
		// <x>.repoMetaData[P] with P a parameter: the record of repository P
		if ix, ok := e.(*ast.IndexExpr); ok {
			if se, ok := ast.Unparen(ix.X).(*ast.SelectorExpr); ok && se.Sel.Name == "repoMetaData" {
				if id, ok := ast.Unparen(ix.Index).(*ast.Ident); ok {
					if i, ok := pos[info.ObjectOf(id)]; ok {
						byIndex[i] = true
						return i, true
					}
				}
			}
			return 0, false
		}
		id, ok := e.(*ast.Ident)
		if !ok {
			return 0, false
		}
		i, ok := pos[info.ObjectOf(id)]
		return i, ok
	}
	// ok-variables of lookups in P.FileTombstones
	ftOK := map[types.Object]int{}
	ast.Inspect(d.Decl.Body, func(n ast.Node) bool {
		as, ok := n.(*ast.AssignStmt)
		if !ok || len(as.Lhs) != 2 || len(as.Rhs) != 1 {
			return true
		}
		ix, ok := ast.Unparen(as.Rhs[0]).(*ast.IndexExpr)
		if !ok {
			return true
		}
		se, ok := ast.Unparen(ix.X).(*ast.SelectorExpr)
		if !ok || se.Sel.Name != "FileTombstones" {
			return true
		}
		if pi, ok := paramOf(se.X); ok {
			if id, ok := as.Lhs[1].(*ast.Ident); ok {
				ftOK[info.ObjectOf(id)] = pi
			}
		}
		return true
	})
	repoOf := map[string]int{}
	ctxOf := -1
	var capturedCtx types.Object
	_ = capturedCtx
	atom := func(e ast.Expr) (string, bool, bool) {
		switch x := ast.Unparen(e).(type) {
		case *ast.Ident:
			if pi, ok := ftOK[info.ObjectOf(x)]; ok {
				repoOf["F"] = pi
				return "F", false, true
			}
		case *ast.SelectorExpr:
			if x.Sel.Name == "Tombstone" {
				if pi, ok := paramOf(x.X); ok {
					repoOf["T"] = pi
					return "T", false, true
				}
			}
		case *ast.CallExpr:
			if f := an.Callee(info, x); f != nil && f.Pkg() != nil && f.Name() == "HasAccess" && strings.HasSuffix(f.Pkg().Path(), "internal/tenant") && len(x.Args) == 2 {
				if se, ok := ast.Unparen(x.Args[1]).(*ast.SelectorExpr); ok && se.Sel.Name == "TenantID" {
					if pi, ok := paramOf(se.X); ok {
						if ci, ok := paramOf(x.Args[0]); ok {
							repoOf["H"] = pi
							ctxOf = ci
							return "H", false, true
						}
						// a closure may use the captured request context: remembered as position -2
						if cid, ok := ast.Unparen(x.Args[0]).(*ast.Ident); ok && info.ObjectOf(cid) != nil && info.ObjectOf(cid).Type().String() == "context.Context" {
							repoOf["H"] = pi
							ctxOf = -2
							capturedCtx = info.ObjectOf(cid)
							return "H", false, true
						}
					}
				}
			}
		case *ast.BinaryExpr:
			// len(P.FileTombstones) > 0 (and its spellings)
			f, isCmp := an.IntCompare(info, x, true, func(e ast.Expr) bool {
				c, ok := ast.Unparen(e).(*ast.CallExpr)
				if !ok || !an.IsBuiltin(info, c, "len") {
					return false
				}
				se, ok := ast.Unparen(c.Args[0]).(*ast.SelectorExpr)
				if !ok || se.Sel.Name != "FileTombstones" {
					return false
				}
				pi, ok := paramOf(se.X)
				if ok {
					repoOf["L"] = pi
				}
				return ok
			})
			if isCmp {
				if f.AtLeast(1) {
					return "L", false, true // non-empty
				}
				if f.AtMost(0) {
					return "L", true, true // empty
				}
			}
		}
		return "", false, false
	}
	res, why := an.BoolEval(info, d.Decl.Body, []string{"T", "H", "F", "L"}, atom)
	if why != "" {
		return nil, nil
	}
	type formula struct {
		kind  string
		holds func(w string) bool
		atoms []string
	}
	has := func(w, a string) bool { return strings.Contains(w, a+"=1") }
	formulas := []formula{
		{"Tombstone", func(w string) bool { return !has(w, "T") }, []string{"T"}},
		{"tenant.HasAccess", func(w string) bool { return has(w, "H") }, []string{"H"}},
		{"FileTombstones", func(w string) bool { return !has(w, "L") || !has(w, "F") }, []string{"F"}},
	}
	// C01.R1: result r justifies a skip iff in every world with that result the repository is tombstoned,
	// or the tenant has no access, or the path is tombstoned (only conditions the helper looks at count)
	_, usesT := repoOf["T"]
	_, usesH := repoOf["H"]
	_, usesF := repoOf["F"]
	_, usesL := repoOf["L"]
	skip := map[bool]string{}
	for _, r := range []bool{true, false} {
		all, some := true, false
		for w, got := range res {
			if got != r {
				continue
			}
			some = true
			ok := (usesT && has(w, "T")) || (usesH && !has(w, "H")) || (usesF && has(w, "F") && (!usesL || has(w, "L")))
			if !ok {
				all = false
			}
		}
		if all && some {
			var rs []string
			if usesT {
				rs = append(rs, "tombstoned-repository")
			}
			if usesH {
				rs = append(rs, "tenant-without-access")
			}
			if usesF {
				rs = append(rs, "file-tombstone")
			}
			skip[r] = strings.Join(rs, "-or-")
		}
	}
	var out []wrapperFact
	for _, fm := range formulas {
		used := true
		for _, a := range fm.atoms {
			if _, ok := repoOf[a]; !ok {
				used = false
			}
		}
		if !used {
			continue // the helper does not look at this condition at all
		}
		for _, r := range []bool{true, false} {
			all, some := true, false
			for w, got := range res {
				if got != r {
					continue
				}
				some = true
				if !fm.holds(w) {
					all = false
				}
			}
			if all && some {
				wf := wrapperFact{kind: fm.kind, result: r, repoArg: repoOf[fm.atoms[0]], ctxArg: -1, byIndex: byIndex[repoOf[fm.atoms[0]]], capturedCtx: capturedCtx}
				if fm.kind == "tenant.HasAccess" {
					wf.ctxArg = ctxOf
				}
				out = append(out, wf)
			}
		}
	}
	return out, skip
}

// wrapperReason: for C01.R1 - cond (taken with truth) is a call to a helper
// whose other result establishes that the document's repository is live /
// accessible / the path not tombstoned; the skip is then justified by the
// corresponding reason.
func wrapperReason(p *an.Prog, info *types.Info, cond ast.Expr, truth bool) string {
	neg := false
	e := ast.Unparen(cond)
	for {
		if u, ok := e.(*ast.UnaryExpr); ok && u.Op == token.NOT {
			neg = !neg
			e = ast.Unparen(u.X)
			continue
		}
		break
	}
	c, ok := e.(*ast.CallExpr)
	if !ok {
		return ""
	}
	fn := an.Callee(info, c)
	if fn == nil || fn.Pkg() == nil || !an.InModule(fn.Pkg()) {
		return ""
	}
	val := truth != neg // value of the call on this edge
	wrapperSummary(p, fn)
	return wrapperSkip[fn][val]
}
