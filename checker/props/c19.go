package props

import (
	"fmt"
	"go/ast"
	"go/token"
	"go/types"
	"strings"

	"golang.org/x/tools/go/ssa"

	"zverif/checker/an"
)

func init() { register("C19", c19) }

func c19(p *an.Prog, r *an.R, tier string) {
	defer c19Detach(p, r)
	r.Explanation = "C19 (structural clauses): the shard map of the sharded searcher is only touched under its mutex and the published shard list only through its atomic.Value; the published list is copy-on-write: what is stored is a slice freshly made in replace, and no code mutates (element store, append, sort, slices.Delete*/Reverse/Sort*) a slice obtained from the published list; a replaced shard is closed only by the finalizer installed in replace (or, for a shard that was never published, by the failed-load path); every caller of streamSearch calls the returned done() on every path and only after its last flush/send; the watcher reloads a shard whenever its recorded timestamp differs from the current one (not only when it is newer). Does NOT decide data-race freedom in general, 'one consistent version per repository', or convergence of the loaded set."
	r.Rule("C19.R1", "lockset: shardedSearcher.shards only under shardedSearcher.mu; shardedSearcher.ranked only as receiver of atomic Load/Store")
	r.Rule("C19.R2", "copy-on-write: ranked.Store gets a slice made in the same function; values derived from ranked.Load()/getLoaded() are never appended to, stored into, sorted or compacted in place")
	r.Rule("C19.R3", "who-may-close: in package search a shard's Close is called only inside the finalizer closure of replace, on the failed-load path of loadShard, or by shardedSearcher.Close via replace")
	r.Rule("C19.R4", "keep-alive: after streamSearch returns, done() is called on every path, and no flush()/Send is reachable after done()")
	r.Rule("C19.R6", "the memory-mapped searcher stays attached to the object whose finalizer unmaps it: in package search (outside mkRankedShard, which builds the pair) a value read from the embedded field rankedShard.Searcher is only used in place - as the receiver of a method call, in a comparison, or as the argument of a synchronous call; it is never sent on a channel, passed to a go statement, captured by a closure, stored, or returned, because a goroutine that holds only the inner searcher does not keep the *rankedShard reachable and the finalizer armed by replace closes the shard under it")
	r.Rule("C19.R5", "DirectoryWatcher.scan reloads on timestamp inequality (t != mtime), not on an ordering comparison")
	sp := p.Pkg("search")
	shardsF := p.Field("search", "shardedSearcher", "shards")
	muF := p.Field("search", "shardedSearcher", "mu")
	rankedF := p.Field("search", "shardedSearcher", "ranked")
	if !r.Anchor(sp != nil && shardsF != nil && muF != nil && rankedF != nil, "search.shardedSearcher fields") {
		return
	}
	info := sp.TypesInfo
	// ---- R1
	acc := 0
	p.AllDecls(func(fn *types.Func, d *an.DeclInfo) {
		if d.Pkg != sp || d.Decl.Body == nil {
			return
		}
		g := an.NewG(info, d.Decl.Body)
		fname := an.FuncName(fn)
		var locs []an.Loc
		for _, l := range g.Locs(func(ast.Node) bool { return true }) {
			if g.Contains(l, func(m ast.Node) bool { e, ok := m.(ast.Expr); return ok && selField(info, e, shardsF) }) {
				locs = append(locs, l)
			}
		}
		if len(locs) > 0 && fn.Name() != "newShardedSearcher" {
			r.Fn(fname)
			ok := true
			for _, l := range locs {
				acc++
				if !lockHeldAt(g, info, l, muF, "Lock", "RLock") {
					ok = false
				}
			}
			if !ok {
				// a helper that expects the lock: every call site in the package holds it
				callers, allHold := 0, true
				p.AllDecls(func(cf *types.Func, cd *an.DeclInfo) {
					if cd.Pkg != sp || cd.Decl.Body == nil || cf == fn {
						return
					}
					cg := an.NewG(info, cd.Decl.Body)
					for _, cl := range cg.Locs(func(n ast.Node) bool { return len(an.CallsTo(info, n, false, fn)) > 0 }) {
						callers++
						if !lockHeldAt(cg, info, cl, muF, "Lock", "RLock") {
							allHold = false
						}
					}
				})
				if callers > 0 && allHold {
					ok = true
				}
			}
			r.Check(ok, "C19.R1", fname+"/shards-under-mu", d.Decl.Pos(), fmt.Sprintf("%d accesses to the shard map, all under mu", len(locs)), "the shard map is accessed on a path where shardedSearcher.mu is not held: replace() and this access race")
		}
		// ranked only via Load/Store
		ast.Inspect(d.Decl.Body, func(n ast.Node) bool {
			se, ok := n.(*ast.SelectorExpr)
			if !ok || !selField(info, se, rankedF) {
				return true
			}
			return true
		})
	})
	r.Floor("C19.R1.shard-map-accesses", 5, acc)
	// uses of the ranked field: parent must be a selector .Load/.Store call
	usesRanked, okRanked := 0, true
	for _, f := range sp.Syntax {
		var stack []ast.Node
		ast.Inspect(f, func(n ast.Node) bool {
			if n == nil {
				stack = stack[:len(stack)-1]
				return true
			}
			stack = append(stack, n)
			se, ok := n.(*ast.SelectorExpr)
			if !ok || !selField(info, se, rankedF) {
				return true
			}
			usesRanked++
			if len(stack) < 2 {
				okRanked = false
				return true
			}
			par, ok := stack[len(stack)-2].(*ast.SelectorExpr)
			if !ok || (par.Sel.Name != "Load" && par.Sel.Name != "Store") {
				okRanked = false
				r.Bad("C19.R1", "search/ranked-only-through-atomic", se.Pos(), "shardedSearcher.ranked is used other than through its atomic Load/Store")
			}
			return true
		})
	}
	if okRanked {
		r.OK("C19.R1", "search/ranked-only-through-atomic", token.NoPos, fmt.Sprintf("%d uses, all Load/Store", usesRanked))
	}
	r.Floor("C19.R1.ranked-uses", 2, usesRanked)

	// ---- R2 (SSA)
	getLoaded := p.Func("search", "(*shardedSearcher).getLoaded")
	stores, derived := 0, 0
	mutators := map[string]bool{"sort.Slice": true, "sort.SliceStable": true, "sort.Sort": true, "sort.Stable": true, "slices.Sort": true, "slices.SortFunc": true, "slices.SortStableFunc": true, "slices.Reverse": true, "slices.Delete": true, "slices.DeleteFunc": true, "slices.Compact": true, "slices.CompactFunc": true, "slices.Insert": true, "slices.Replace": true, "rand.Shuffle": true}
	for _, f := range p.SSAFuncs() {
		if f.Pkg == nil || f.Pkg.Pkg != sp.Types {
			continue
		}
		fname := an.SSAName(f)
		shared := map[ssa.Value]bool{}
		an.Instrs(f, func(b *ssa.BasicBlock, in ssa.Instruction) {
			c, ok := in.(*ssa.Call)
			if !ok {
				return
			}
			cal := an.StaticCallee(c)
			// ranked.Load()
			if cal != nil && an.IsPkgFunc(cal, "sync/atomic", "Value.Load") {
				if c19IsField(c.Call.Args[0], rankedF) {
					shared[c] = true
				}
			}
			if cal == getLoaded {
				shared[c] = true
			}
			// ranked.Store(x): x must be made here
			if cal != nil && an.IsPkgFunc(cal, "sync/atomic", "Value.Store") {
				if c19IsField(c.Call.Args[0], rankedF) {
					stores++
					v := c.Call.Args[1]
					if mi, ok := v.(*ssa.MakeInterface); ok {
						v = mi.X
					}
					fresh := c19Fresh(v, map[ssa.Value]bool{})
					r.Check(fresh, "C19.R2", fname+"/ranked.Store/fresh-slice", c.Pos(), "the published list is a slice made in this function", "the slice stored as the published shard list is not freshly allocated here: it may be the very slice running searches are iterating over")
				}
			}
		})
		// parameters of type []*rankedShard receive (parts of) the published list
		for _, prm := range f.Params {
			if sl, ok := prm.Type().Underlying().(*types.Slice); ok && strings.HasSuffix(an.TypeName(sl.Elem()), "rankedShard") {
				shared[prm] = true
			}
		}
		if len(shared) == 0 {
			continue
		}
		r.Fn(fname)
		// propagate through extracts, type asserts, field reads, slices, phis
		changed := true
		for changed {
			changed = false
			for v := range shared {
				if v.Referrers() == nil {
					continue
				}
				for _, ref := range *v.Referrers() {
					var nv ssa.Value
					switch x := ref.(type) {
					case *ssa.TypeAssert:
						nv = x
					case *ssa.Extract:
						nv = x
					case *ssa.Field:
						if _, isSlice := x.Type().Underlying().(*types.Slice); isSlice {
							nv = x
						}
					case *ssa.Slice:
						nv = x
					case *ssa.Phi:
						nv = x
					case *ssa.Store:
						// spilled local (captured by a closure): its loads are the same slice
						if al, ok := x.Addr.(*ssa.Alloc); ok && x.Val == v {
							for _, r2 := range *al.Referrers() {
								if u, ok := r2.(*ssa.UnOp); ok && !shared[u] {
									shared[u] = true
									changed = true
								}
								// a struct holding the list: loads of its slice-typed fields
								if fa, ok := r2.(*ssa.FieldAddr); ok {
									for _, r3 := range *fa.Referrers() {
										if u, ok := r3.(*ssa.UnOp); ok && !shared[u] {
											if _, isSlice := u.Type().Underlying().(*types.Slice); isSlice {
												shared[u] = true
												changed = true
											}
										}
									}
								}
							}
						}
					}
					if nv != nil && !shared[nv] {
						shared[nv] = true
						changed = true
					}
				}
			}
		}
		for v := range shared {
			if _, isSlice := v.Type().Underlying().(*types.Slice); !isSlice || v.Referrers() == nil {
				continue
			}
			derived++
			refs := append([]ssa.Instruction(nil), *v.Referrers()...)
			for _, ref := range *v.Referrers() {
				// sort.Slice(x any, ...) takes the slice boxed in an interface
				if mi, ok := ref.(*ssa.MakeInterface); ok {
					refs = append(refs, *mi.Referrers()...)
				}
			}
			for _, ref := range refs {
				what := ""
				switch x := ref.(type) {
				case *ssa.IndexAddr:
					for _, r2 := range *x.Referrers() {
						if st, ok := r2.(*ssa.Store); ok && st.Addr == x {
							what = "an element store"
						}
					}
				case *ssa.Call:
					if bi, ok := x.Call.Value.(*ssa.Builtin); ok && bi.Name() == "append" && x.Call.Args[0] == v {
						what = "append (writes into the shared backing array when capacity allows)"
					}
					if bi, ok := x.Call.Value.(*ssa.Builtin); ok && bi.Name() == "clear" {
						what = "clear"
					}
					if cal := an.StaticCallee(x); cal != nil && cal.Pkg() != nil {
						n := cal.Pkg().Name() + "." + cal.Name()
						if mutators[n] {
							for _, a := range x.Call.Args {
								a2 := a
								if mi, ok := a.(*ssa.MakeInterface); ok {
									a2 = mi.X
								}
								if a2 == v {
									what = n
								}
							}
						}
					}
				}
				if what != "" {
					r.Bad("C19.R2", fname+"/mutates-published-shard-list/"+strings.Fields(what)[0], ref.Pos(), "a slice obtained from the published shard list is modified in place by "+what+": searches that hold the same snapshot see shards shift, disappear or become nil")
				}
			}
		}
	}
	r.Floor("C19.R2.ranked-stores", 1, stores)
	r.Floor("C19.R2.derived-slices", 3, derived)
	if true {
		r.OK("C19.R2", "search/published-list-not-mutated", token.NoPos, fmt.Sprintf("%d slice values derived from the published list inspected", derived))
	}

	// ---- R3
	closes := 0
	allowedClose := map[string]string{
		"search.(*shardedSearcher).replace$2": "finalizer installed on the replaced shard",
		"search.loadShard":                    "failed load of a shard that was never published",
		"search.loadShard$1":                  "failed load (panic) of a shard that was never published",
		"search.(*typeRepoSearcher).Close":    "closes the wrapped streamer (delegation)",
		"search.(*directorySearcher).Close":   "shuts the directory searcher down: closes the wrapped sharded searcher, which goes through replace",
	}
	searcherT := p.Named("", "Searcher")
	for _, f := range p.SSAFuncs() {
		if f.Pkg == nil || f.Pkg.Pkg != sp.Types {
			continue
		}
		an.Instrs(f, func(b *ssa.BasicBlock, in ssa.Instruction) {
			c, ok := in.(ssa.CallInstruction)
			if !ok {
				return
			}
			m := an.CalleeAny(c)
			if m == nil || m.Name() != "Close" {
				return
			}
			// Close of a Searcher / rankedShard / IndexFile
			recvT := ""
			if c.Common().IsInvoke() {
				recvT = an.TypeName(c.Common().Value.Type())
			} else if len(c.Common().Args) > 0 {
				recvT = an.TypeName(c.Common().Args[0].Type())
			}
			if !(strings.Contains(recvT, "Searcher") || strings.Contains(recvT, "rankedShard") || strings.Contains(recvT, "IndexFile") || strings.Contains(recvT, "Streamer")) {
				return
			}
			closes++
			fname := an.SSAName(f)
			r.Fn(fname)
			why, ok := allowedClose[fname]
			if !ok {
				// a helper split off an allowed function: every caller of its top-level function is allowed
				top := f
				for top.Parent() != nil {
					top = top.Parent()
				}
				if tobj, isF := top.Object().(*types.Func); isF {
					callers, allAllowed := 0, true
					var via string
					p.AllDecls(func(cf *types.Func, cd *an.DeclInfo) {
						if cd.Pkg != sp || cd.Decl.Body == nil || cf == tobj {
							return
						}
						if len(an.CallsTo(info, cd.Decl.Body, true, tobj)) > 0 {
							callers++
							if _, okc := allowedClose[an.FuncName(cf)]; !okc {
								allAllowed = false
							}
							via = an.FuncName(cf)
						}
					})
					if callers > 0 && allAllowed {
						ok, why = true, "helper called only from "+via+" ("+allowedClose[via]+")"
					}
				}
			}
			if !ok && c19OnlyFinalizer(p, sp.Types, f) {
				ok, why = true, "a function used only as the finalizer argument of runtime.SetFinalizer"
			}
			r.Check(ok, "C19.R3", fname+"/closes-shard", in.Pos(), "allowed: "+why, "a shard ("+recvT+") is closed directly in "+fname+": searches that still hold the old shard list read unmapped memory (the close must be left to the finalizer installed in replace)")
		})
	}
	_ = searcherT
	r.Floor("C19.R3.close-sites", 3, closes)

	// ---- R4
	stream := p.Func("search", "streamSearch")
	nCallers := 0
	p.AllDecls(func(fn *types.Func, d *an.DeclInfo) {
		if d.Pkg != sp || d.Decl.Body == nil || len(an.CallsTo(info, d.Decl.Body, false, stream)) == 0 {
			return
		}
		g := an.NewG(info, d.Decl.Body)
		fname := an.FuncName(fn)
		r.Fn(fname)
		for _, l := range g.Locs(func(n ast.Node) bool { return len(an.CallsTo(info, n, false, stream)) > 0 }) {
			as, ok := g.Node(l).(*ast.AssignStmt)
			if !ok {
				r.Bad("C19.R4", fname+"/streamSearch/done-bound", g.Node(l).Pos(), "the done function returned by streamSearch is not bound")
				continue
			}
			nCallers++
			id, _ := as.Lhs[0].(*ast.Ident)
			doneObj := info.ObjectOf(id)
			isDone := func(k an.Loc) bool {
				found := false
				ast.Inspect(g.Node(k), func(m ast.Node) bool {
					if c, ok := m.(*ast.CallExpr); ok && an.UsesObj(info, c.Fun, doneObj) {
						found = true
					}
					return true
				})
				return found
			}
			leak := g.Reach(l, true, &an.Search{ExitIsTarget: true, Cut: isDone})
			r.Check(!leak, "C19.R4", fname+"/streamSearch/done-called-on-every-path", as.Pos(), "done() (possibly deferred) is reached on every path after streamSearch", "the function can return without calling the done() of streamSearch: the shards' mmap data is not kept alive until the results were copied out (or the keep-alive never ends)")
			// nothing sent/flushed after an explicit (non-deferred) done()
			for _, dl := range g.Locs(func(n ast.Node) bool { _, isDefer := n.(*ast.DeferStmt); return !isDefer }) {
				if !isDone(dl) {
					continue
				}
				after := g.Reach(dl, true, &an.Search{Target: func(k an.Loc) bool {
					found := false
					ast.Inspect(g.Node(k), func(m ast.Node) bool {
						if c, ok := m.(*ast.CallExpr); ok {
							if id, ok := ast.Unparen(c.Fun).(*ast.Ident); ok && id.Name == "flush" {
								found = true
							}
							if se, ok := ast.Unparen(c.Fun).(*ast.SelectorExpr); ok && se.Sel.Name == "Send" {
								found = true
							}
						}
						return true
					})
					return found
				}})
				r.Check(!after, "C19.R4", fname+"/no-send-after-done", g.Node(dl).Pos(), "nothing is flushed or sent after done()", "results are flushed/sent after done(): they reference mmap data that may already have been unmapped")
			}
		}
	})
	r.Floor("C19.R4.streamSearch-callers", 2, nCallers)

	// ---- R5
	sd := p.Decl(p.Func("search", "(*DirectoryWatcher).scan"))
	tsF := p.Field("search", "DirectoryWatcher", "timestamps")
	if r.Anchor(sd != nil && tsF != nil, "search.(*DirectoryWatcher).scan / timestamps") {
		r.Fn("search.(*DirectoryWatcher).scan")
		found := 0
		for _, scd := range calleeDecls(p, sd) {
			ast.Inspect(scd.Decl.Body, func(n ast.Node) bool {
				is, ok := n.(*ast.IfStmt)
				if !ok || is.Init == nil {
					return true
				}
				as, ok := is.Init.(*ast.AssignStmt)
				if !ok || len(as.Rhs) != 1 {
					return true
				}
				ix, ok := ast.Unparen(as.Rhs[0]).(*ast.IndexExpr)
				if !ok || !selField(info, ix.X, tsF) || len(as.Lhs) != 2 {
					return true
				}
				found++
				tObj := info.ObjectOf(as.Lhs[0].(*ast.Ident))
				// the condition must contain `t != X` or `!t.Equal(X)`, and no After/Before on t
				neq, ordering := false, false
				ast.Inspect(is.Cond, func(m ast.Node) bool {
					switch x := m.(type) {
					case *ast.BinaryExpr:
						if x.Op == token.NEQ && (an.UsesObj(info, x.X, tObj) || an.UsesObj(info, x.Y, tObj)) {
							neq = true
						}
					case *ast.CallExpr:
						if se, ok := ast.Unparen(x.Fun).(*ast.SelectorExpr); ok {
							involves := an.UsesObj(info, se.X, tObj)
							for _, a := range x.Args {
								if an.UsesObj(info, a, tObj) {
									involves = true
								}
							}
							if involves && (se.Sel.Name == "After" || se.Sel.Name == "Before") {
								ordering = true
							}
							if involves && se.Sel.Name == "Equal" {
								neq = true
							}
						}
					}
					return true
				})
				r.Check(neq && !ordering, "C19.R5", "search.(*DirectoryWatcher).scan/reload-on-inequality", is.Pos(), "a shard is reloaded whenever its recorded timestamp differs from the current one", "the reload decision uses an ordering comparison on timestamps: a shard whose effective timestamp goes backwards (sidecar removed, older file renamed over it) is never reloaded, so the loaded set does not converge to disk")
				return true
			})
		}
		r.Floor("C19.R5.reload-decisions", 1, found)
	}
}

// c19Fresh: v is (a slice of / append to) a MakeSlice made in this function.
func c19Fresh(v ssa.Value, seen map[ssa.Value]bool) bool {
	if seen[v] {
		return true
	}
	seen[v] = true
	switch x := v.(type) {
	case *ssa.MakeSlice:
		return true
	case *ssa.Slice:
		return c19Fresh(x.X, seen)
	case *ssa.Phi:
		for _, e := range x.Edges {
			if !c19Fresh(e, seen) {
				return false
			}
		}
		return true
	case *ssa.Call:
		if bi, ok := x.Call.Value.(*ssa.Builtin); ok && bi.Name() == "append" {
			return c19Fresh(x.Call.Args[0], seen)
		}
		// a helper of the same package that builds the list: every value it returns is fresh
		if callee := x.Call.StaticCallee(); callee != nil && len(callee.Blocks) > 0 && x.Parent() != nil && callee.Pkg == x.Parent().Pkg {
			rets, all := 0, true
			an.Instrs(callee, func(_ *ssa.BasicBlock, in ssa.Instruction) {
				if rt, ok := in.(*ssa.Return); ok && len(rt.Results) == 1 {
					rets++
					if !c19Fresh(rt.Results[0], seen) {
						all = false
					}
				}
			})
			return rets > 0 && all
		}
	case *ssa.UnOp:
		if al, ok := x.X.(*ssa.Alloc); ok {
			// local variable spilled (captured by the sort closure): all stores must be fresh
			all := true
			n := 0
			for _, ref := range *al.Referrers() {
				if st, ok := ref.(*ssa.Store); ok && st.Addr == al {
					n++
					if !c19Fresh(st.Val, seen) {
						all = false
					}
				}
			}
			return all && n > 0
		}
	}
	return false
}

// c19IsField: v is the address of field f, possibly of a struct embedded in it
// (go.uber.org/atomic.Value embeds sync/atomic.Value).
func c19IsField(v ssa.Value, f *types.Var) bool {
	for i := 0; i < 3; i++ {
		fa, ok := v.(*ssa.FieldAddr)
		if !ok {
			return false
		}
		if an.StructFields(an.Deref(fa.X.Type()))[fa.Field] == f {
			return true
		}
		v = fa.X
	}
	return false
}

// c19Detach: R6.
func c19Detach(p *an.Prog, r *an.R) {
	sp := p.Pkg("search")
	innerF := p.Field("search", "rankedShard", "Searcher")
	if !r.Anchor(sp != nil && innerF != nil, "search.rankedShard.Searcher") {
		return
	}
	reads := 0
	for _, f := range p.SSAFuncs() {
		if p.PkgOfSSA(f) != sp || f.Name() == "mkRankedShard" {
			continue
		}
		inFn := 0
		an.Instrs(f, func(b *ssa.BasicBlock, in ssa.Instruction) {
			var v ssa.Value
			switch x := in.(type) {
			case *ssa.UnOp:
				if x.Op == token.MUL && c19IsField(x.X, innerF) {
					v = x
				}
			case *ssa.Field:
				if an.StructFields(x.X.Type())[x.Field] == innerF {
					v = x
				}
			}
			if v == nil {
				return
			}
			reads++
			inFn++
			r.Fn(an.SSAName(f))
			how, at := c19Leaves(v, map[ssa.Value]bool{})
			pos := in.Pos()
			if at != token.NoPos {
				pos = at
			}
			r.Check(how == "", "C19.R6", an.SSAName(f)+"/inner-searcher-stays-attached#"+fmt.Sprint(inFn), pos, "the inner searcher read here is used in place (method receiver, comparison, synchronous call argument)",
				"the inner searcher of a *rankedShard is "+how+": whoever receives it uses the memory-mapped shard without keeping the *rankedShard reachable, so after the watcher replaces or drops the shard the finalizer armed by replace closes (unmaps) it under a running request")
		})
	}
	r.Floor("C19.R6.reads-of-rankedShard.Searcher", 1, reads)
}

// c19Leaves follows a value through interface conversions and phis and says how it leaves the frame, if it does.
func c19Leaves(v ssa.Value, seen map[ssa.Value]bool) (string, token.Pos) {
	if seen[v] || v.Referrers() == nil {
		return "", token.NoPos
	}
	seen[v] = true
	for _, ref := range *v.Referrers() {
		switch x := ref.(type) {
		case *ssa.Send:
			if x.X == v {
				return "sent on a channel", x.Pos()
			}
		case *ssa.Go:
			return "passed to a go statement", x.Pos()
		case *ssa.Defer:
			// runs in this frame
		case *ssa.MakeClosure:
			return "captured by a closure", x.Pos()
		case *ssa.Store:
			if x.Val == v {
				// a local variable whose address stays in the frame: follow what is loaded from it
				if a, ok := x.Addr.(*ssa.Alloc); ok && !a.Heap && a.Referrers() != nil {
					for _, ar := range *a.Referrers() {
						if ld, ok := ar.(*ssa.UnOp); ok && ld.Op == token.MUL {
							if how, at := c19Leaves(ld, seen); how != "" {
								return how, at
							}
						}
					}
					continue
				}
				return "stored", x.Pos()
			}
		case *ssa.MapUpdate:
			return "stored in a map", x.Pos()
		case *ssa.Return:
			return "returned", x.Pos()
		case *ssa.MakeInterface, *ssa.ChangeInterface, *ssa.ChangeType, *ssa.Phi, *ssa.TypeAssert, *ssa.Extract, *ssa.Slice:
			if how, at := c19Leaves(x.(ssa.Value), seen); how != "" {
				return how, at
			}
		}
	}
	return "", token.NoPos
}

// c19OnlyFinalizer: every use of the named function f in its package is as the finalizer argument of
// runtime.SetFinalizer (a finalizer closure that was turned into a named function).
func c19OnlyFinalizer(p *an.Prog, pkg *types.Package, f *ssa.Function) bool {
	if f.Parent() != nil {
		return false
	}
	uses, okAll := 0, true
	for _, g := range p.SSAFuncs() {
		if g.Pkg == nil || g.Pkg.Pkg != pkg {
			continue
		}
		an.Instrs(g, func(b *ssa.BasicBlock, in ssa.Instruction) {
			for _, op := range in.Operands(nil) {
				if *op != ssa.Value(f) {
					continue
				}
				uses++
				mi, isMI := in.(*ssa.MakeInterface)
				if !isMI || mi.Referrers() == nil {
					okAll = false
					continue
				}
				for _, ref := range *mi.Referrers() {
					c, isCall := ref.(ssa.CallInstruction)
					if _, isDbg := ref.(*ssa.DebugRef); isDbg {
						continue
					}
					if !isCall || !an.IsPkgFunc(an.StaticCallee(c), "runtime", "SetFinalizer") || len(c.Common().Args) != 2 || c.Common().Args[1] != ssa.Value(mi) {
						okAll = false
					}
				}
			}
		})
	}
	return uses > 0 && okAll
}
