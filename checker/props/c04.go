package props

import (
	"fmt"
	"go/ast"
	"go/token"
	"go/types"
	"sort"
	"strings"

	"golang.org/x/tools/go/callgraph"
	"golang.org/x/tools/go/ssa"

	"zverif/checker/an"
)

func init() { register("C04", c04) }

func c04(p *an.Prog, r *an.R, tier string) {
	r.Explanation = "C04 (structural clauses): shard-lifetime state is immutable on the search path. A node type with per-search cursor state that is held by (or handed to) a shard-lifetime container never escapes into a match tree; no function reachable from indexData.Search/List stores through indexData, its read-only-after-load parts, or a package-level variable; the match-tree cache's map is only touched under its mutex; the cache is owned by exactly one shard. Does NOT decide equality of results across histories in general."
	r.Rule("C04.R1", "a pointer to a cursor-state match-tree type obtained from, or handed to, a shard-lifetime container does not flow into a return value, an interface, or a store (a fresh copy must be handed out)")
	r.Rule("C04.R2", "no function reachable from (*indexData).Search/List stores through *indexData, a read-only-after-load type reachable from it, or a package-level variable (table of exceptions)")
	r.Rule("C04.R3", "every access to docMatchTreeCache.cache is under mu (writes under Lock), directly or because every caller holds it")
	r.Rule("C04.R4", "indexData's shard-lifetime container fields are initialised from a constructor whose results are fresh allocations (one owner per shard)")
	idx := p.Pkg("index")
	idata := p.Named("index", "indexData")
	mtI := p.Named("index", "matchTree")
	if !r.Anchor(idx != nil && idata != nil && mtI != nil, "index.indexData / index.matchTree") {
		return
	}
	mtIface, _ := mtI.Underlying().(*types.Interface)

	// --- cursor-state types: matchTree implementations with fields written by their own methods
	cursor := map[*types.Named][]string{}
	for _, t := range an.Implementers(idx.Types, mtIface) {
		nt := an.NamedOf(t)
		if nt == nil {
			continue
		}
		written := map[string]bool{}
		for i := 0; i < nt.NumMethods(); i++ {
			f := p.SSAFunc(nt.Method(i))
			if f == nil || f.Blocks == nil || len(f.Params) == 0 {
				continue
			}
			an.Instrs(f, func(b *ssa.BasicBlock, in ssa.Instruction) {
				st, ok := in.(*ssa.Store)
				if !ok {
					return
				}
				if fa, ok := st.Addr.(*ssa.FieldAddr); ok && fa.X == f.Params[0] {
					written[an.StructFields(nt)[fa.Field].Name()] = true
				}
			})
		}
		if len(written) > 0 {
			cursor[nt] = keys(written)
		}
	}
	r.Floor("C04.cursor-state-types", 5, len(cursor))
	r.Extra["C04.cursor_state_types"] = func() map[string][]string {
		m := map[string][]string{}
		for k, v := range cursor {
			m[k.Obj().Name()] = v
		}
		return m
	}()
	isCursorPtr := func(t types.Type) *types.Named {
		pt, ok := t.(*types.Pointer)
		if !ok {
			return nil
		}
		nt, _ := pt.Elem().(*types.Named)
		if nt != nil && cursor[nt] != nil {
			return nt
		}
		return nil
	}

	// --- shard-lifetime types: named struct types of package index reachable from indexData's fields
	shard := map[*types.Named]bool{}
	var visit func(t types.Type)
	visit = func(t types.Type) {
		switch x := t.(type) {
		case *types.Pointer:
			visit(x.Elem())
		case *types.Slice:
			visit(x.Elem())
		case *types.Array:
			visit(x.Elem())
		case *types.Map:
			visit(x.Key())
			visit(x.Elem())
		case *types.Named:
			if x.Obj().Pkg() == nil || !an.InModule(x.Obj().Pkg()) || shard[x] {
				return
			}
			if st, ok := x.Underlying().(*types.Struct); ok {
				if cursor[x] != nil {
					return
				}
				shard[x] = true
				for i := 0; i < st.NumFields(); i++ {
					visit(st.Field(i).Type())
				}
			}
		}
	}
	visit(idata)
	containers := map[*types.Named]bool{}
	for nt := range shard {
		if nt != idata && nt.Obj().Pkg() == idx.Types {
			containers[nt] = true
		}
	}
	r.Floor("C04.shard-lifetime-types", 4, len(shard))
	hasMutex := func(nt *types.Named) bool {
		for _, f := range an.StructFields(nt) {
			if s := f.Type().String(); s == "sync.Mutex" || s == "sync.RWMutex" {
				return true
			}
		}
		return false
	}

	returnsFresh := func(f *ssa.Function) bool {
		if f == nil || f.Blocks == nil {
			return false
		}
		ok := true
		found := false
		an.Instrs(f, func(b *ssa.BasicBlock, in ssa.Instruction) {
			ret, isRet := in.(*ssa.Return)
			if !isRet {
				return
			}
			for _, v := range ret.Results {
				if _, isPtr := v.Type().(*types.Pointer); !isPtr {
					continue
				}
				found = true
				if al, isAl := v.(*ssa.Alloc); !isAl || !al.Heap {
					ok = false
				}
			}
		})
		return ok && found
	}

	// --- R1
	sharedSites := 0
	for _, f := range p.SSAFuncs() {
		if f.Pkg == nil || f.Pkg.Pkg != idx.Types {
			continue
		}
		shared := map[ssa.Value]string{}
		an.Instrs(f, func(b *ssa.BasicBlock, in ssa.Instruction) {
			call, ok := in.(ssa.CallInstruction)
			if !ok {
				return
			}
			callee := call.Common().StaticCallee()
			if callee == nil || callee.Signature.Recv() == nil {
				return
			}
			rn := an.NamedOf(callee.Signature.Recv().Type())
			if rn == nil || !containers[rn] {
				return
			}
			cname := an.SSAName(callee)
			// results
			if v, ok := in.(ssa.Value); ok {
				if isCursorPtr(v.Type()) != nil {
					shared[v] = "result of " + cname
				}
				if tup, ok := v.Type().(*types.Tuple); ok {
					for _, ref := range *v.Referrers() {
						if ex, ok := ref.(*ssa.Extract); ok && isCursorPtr(tup.At(ex.Index).Type()) != nil {
							shared[ex] = "result of " + cname
						}
					}
				}
			}
			for _, a := range call.Common().Args[1:] {
				if isCursorPtr(a.Type()) != nil {
					shared[a] = "argument handed to " + cname
				}
			}
		})
		// loads of cursor pointers out of shard-lifetime structures
		an.Instrs(f, func(b *ssa.BasicBlock, in ssa.Instruction) {
			var v ssa.Value
			var base ssa.Value
			switch x := in.(type) {
			case *ssa.UnOp:
				if x.Op == token.MUL {
					v, base = x, x.X
				}
			case *ssa.Lookup:
				v, base = x, x.X
			}
			if v == nil || isCursorPtr(v.Type()) == nil {
				return
			}
			if root := storeRoot(base); root != nil {
				if nt := an.NamedOf(root.Type()); nt != nil && shard[nt] {
					shared[v] = "loaded from shard-lifetime " + nt.Obj().Name()
				}
			}
		})
		if len(shared) == 0 {
			continue
		}
		r.Fn(an.SSAName(f))
		// propagate through phi / fresh-less calls, then look for sinks
		changed := true
		for changed {
			changed = false
			for v, why := range shared {
				for _, ref := range *v.Referrers() {
					switch x := ref.(type) {
					case *ssa.Phi:
						if _, ok := shared[x]; !ok {
							shared[x] = why
							changed = true
						}
					case *ssa.Call:
						if isCursorPtr(x.Type()) != nil && !returnsFresh(x.Common().StaticCallee()) {
							if _, ok := shared[x]; !ok {
								shared[x] = why + ", passed through " + calleeName(x)
								changed = true
							}
						}
					}
				}
			}
		}
		var vs []ssa.Value
		for v := range shared {
			vs = append(vs, v)
		}
		sort.Slice(vs, func(i, j int) bool { return vs[i].Pos() < vs[j].Pos() })
		for _, v := range vs {
			why := shared[v]
			sharedSites++
			nt := isCursorPtr(v.Type())
			escapes := ""
			var pos token.Pos
			for _, ref := range *v.Referrers() {
				switch x := ref.(type) {
				case *ssa.Return:
					escapes, pos = "is returned", x.Pos()
				case *ssa.MakeInterface:
					escapes, pos = "is converted to "+an.TypeName(x.Type())+" (becomes a node of a per-search match tree)", x.Pos()
				case *ssa.Store:
					if x.Val == v {
						escapes, pos = "is stored", x.Pos()
					}
				case *ssa.FieldAddr:
					// writes through the shared node (initialising a node this
					// function allocated itself is not one)
					if _, isAlloc := v.(*ssa.Alloc); isAlloc {
						continue
					}
					for _, r2 := range *x.Referrers() {
						if st, ok := r2.(*ssa.Store); ok && st.Addr == x {
							escapes, pos = "has its field "+an.StructFields(nt)[x.Field].Name()+" written", st.Pos()
						}
					}
				}
			}
			key := fmt.Sprintf("%s/shared-%s/%s", an.SSAName(f), nt.Obj().Name(), strings.SplitN(why, ",", 2)[0])
			if pos == token.NoPos {
				pos = v.Pos()
			}
			r.Check(escapes == "", "C04.R1", key, pos,
				"shared node is only read (copied from) here",
				fmt.Sprintf("a *%s that is %s %s: its cursor fields %v are then shared between searches (stale iteration state on the next search, data race under concurrency)", nt.Obj().Name(), why, escapes, cursor[nt]))
		}
	}
	r.Floor("C04.R1.shared-values", 2, sharedSites)

	// --- R2: stores on the search path
	var roots []*ssa.Function
	for _, m := range []string{"(*indexData).Search", "(*indexData).List"} {
		f := p.SSAFunc(p.Func("index", m))
		if !r.Anchor(f != nil, "index."+m) {
			return
		}
		roots = append(roots, f)
	}
	reached := an.ReachFuncs(p.VTA(), roots, func(e *callgraph.Edge) bool {
		c := e.Callee.Func
		return c.Pkg != nil && an.InModule(c.Pkg.Pkg) && c.Blocks != nil
	})
	r.Floor("C04.R2.functions-reached", 150, len(reached))
	var fns []*ssa.Function
	for f := range reached {
		fns = append(fns, f)
	}
	sort.Slice(fns, func(i, j int) bool { return an.SSAName(fns[i]) < an.SSAName(fns[j]) })
	r2table := map[string]string{
		"index.(*docMatchTreeCache).Add/store/docMatchTreeCache.cache[]":         "the cache's own map, guarded by mu (C04.R3); entries are templates that never leave the cache un-copied (C04.R1)",
		"index.(*docMatchTreeCache).evictRandom/store/docMatchTreeCache.cache[]": "the cache's own map, guarded by mu through its only caller Add (C04.R3)",
	}
	stores := 0
	for _, f := range fns {
		r.Fn(an.SSAName(f))
		an.Instrs(f, func(b *ssa.BasicBlock, in ssa.Instruction) {
			var addr ssa.Value
			what := ""
			switch x := in.(type) {
			case *ssa.Store:
				addr = x.Addr
			case *ssa.MapUpdate:
				addr = x.Map
				what = "[]"
			case ssa.CallInstruction:
				// delete(m, k) on a shared map
				if bi, ok := x.Common().Value.(*ssa.Builtin); ok && bi.Name() == "delete" {
					addr = x.Common().Args[0]
					what = "[]"
				}
				// mutating methods of sync.Map / sync/atomic values that live in
				// shard-lifetime state (a memo keyed by request data). sync.Once
				// (deterministic lazy initialisation) is deliberately not a sink.
				if cal := an.StaticCallee(x); cal != nil && cal.Pkg() != nil && len(x.Common().Args) > 0 {
					pk := cal.Pkg().Path()
					switch {
					case pk == "sync" && an.IsPkgFunc(cal, "sync", "Map.Store", "Map.LoadOrStore", "Map.LoadAndDelete", "Map.Delete", "Map.Swap", "Map.CompareAndSwap", "Map.CompareAndDelete", "Map.Clear"):
						addr = x.Common().Args[0]
						what = "." + cal.Name() + "()"
					case pk == "sync/atomic" && (strings.HasPrefix(cal.Name(), "Store") || strings.HasPrefix(cal.Name(), "Add") || strings.HasPrefix(cal.Name(), "Swap") || strings.HasPrefix(cal.Name(), "CompareAndSwap") || cal.Name() == "Or" || cal.Name() == "And"):
						addr = x.Common().Args[0]
						what = "." + cal.Name() + "()"
					}
				}
			}
			if addr == nil {
				return
			}
			stores++
			root, path := storeRootPath(addr)
			if root == nil {
				return
			}
			target := ""
			switch x := root.(type) {
			case *ssa.Global:
				if x.Pkg != nil && an.InModule(x.Pkg.Pkg) {
					target = "global " + x.Pkg.Pkg.Name() + "." + x.Name()
				}
			default:
				// a store is to shard-lifetime state if its address chain is
				// rooted at (not a local allocation of) an index-package type
				// reachable from indexData: *indexData itself, btreeIndex, ...
				// Types of other packages reachable from indexData
				// (zoekt.RepoStats, zoekt.Repository) are also used for
				// per-search results, so a parameter of such a type proves nothing.
				if nt := an.NamedOf(root.Type()); nt != nil && shard[nt] && nt.Obj().Pkg() == idx.Types {
					if _, isAlloc := root.(*ssa.Alloc); !isAlloc {
						target = nt.Obj().Name() + path
					}
				}
			}
			if target == "" {
				return
			}
			key := an.SSAName(f) + "/store/" + target + what
			if why, ok := r2table[key]; ok {
				r.OK("C04.R2", key, in.Pos(), "table: "+why)
				r.Except(key, why)
				return
			}
			r.Bad("C04.R2", key, in.Pos(), "search-reachable code writes to "+target+what+", which outlives the search: later or concurrent searches observe it ("+an.PathTo(reached, f)+")")
		})
	}
	r.Extra["C04.R2.store_instructions_inspected"] = stores

	// --- R3: lockset on containers that carry a mutex
	for nt := range containers {
		if !hasMutex(nt) {
			continue
		}
		c04Lockset(p, r, nt)
	}

	// --- R4: container fields of indexData are freshly allocated
	nR4 := 0
	for _, f := range an.StructFields(idata) {
		nt := an.NamedOf(f.Type())
		if nt == nil || !containers[nt] || !hasMutex(nt) {
			continue
		}
		if _, isPtr := f.Type().(*types.Pointer); !isPtr {
			continue
		}
		// every store to this field in the module
		for _, fn := range p.SSAFuncs() {
			an.Instrs(fn, func(b *ssa.BasicBlock, in ssa.Instruction) {
				st, ok := in.(*ssa.Store)
				if !ok {
					return
				}
				fa, ok := st.Addr.(*ssa.FieldAddr)
				if !ok || an.NamedOf(fa.X.Type()) != idata || an.StructFields(idata)[fa.Field] != f {
					return
				}
				nR4++
				fresh := false
				how := "value of unknown origin"
				switch v := st.Val.(type) {
				case *ssa.Alloc:
					fresh = v.Heap
				case *ssa.Call:
					fresh = returnsFresh(v.Common().StaticCallee())
					how = "result of " + calleeName(v)
				}
				key := fmt.Sprintf("%s/init/indexData.%s", an.SSAName(fn), f.Name())
				r.Check(fresh, "C04.R4", key, st.Pos(), "initialised with a fresh allocation ("+how+")",
					"indexData."+f.Name()+" is initialised with a "+how+" that is not a fresh allocation: the container may be shared between shards, whose cached nodes close over a different shard")
			})
		}
	}
	r.Floor("C04.R4.container-inits", 1, nR4)
}

func calleeName(c ssa.CallInstruction) string {
	if f := c.Common().StaticCallee(); f != nil {
		return an.SSAName(f)
	}
	return "dynamic call"
}

// storeRoot walks an address expression back to the value it is rooted at.
func storeRoot(v ssa.Value) ssa.Value {
	r, _ := storeRootPath(v)
	return r
}

func storeRootPath(v ssa.Value) (ssa.Value, string) {
	path := ""
	for i := 0; i < 32; i++ {
		switch x := v.(type) {
		case *ssa.FieldAddr:
			st := an.Deref(x.X.Type()).Underlying().(*types.Struct)
			path = "." + st.Field(x.Field).Name() + path
			v = x.X
		case *ssa.Field:
			st := x.X.Type().Underlying().(*types.Struct)
			path = "." + st.Field(x.Field).Name() + path
			v = x.X
		case *ssa.IndexAddr:
			path = "[]" + path
			v = x.X
		case *ssa.Index:
			path = "[]" + path
			v = x.X
		case *ssa.Lookup:
			path = "[]" + path
			v = x.X
		case *ssa.UnOp:
			if x.Op != token.MUL {
				return v, path
			}
			// a load: if it loads a pointer out of a named shard-lifetime
			// structure keep walking, otherwise stop at the loaded value
			v = x.X
		case *ssa.Slice:
			v = x.X
		case *ssa.ChangeType:
			v = x.X
		case *ssa.Phi:
			// choose any edge that is not a local allocation
			var pick ssa.Value
			for _, e := range x.Edges {
				if _, isAlloc := e.(*ssa.Alloc); !isAlloc {
					pick = e
					break
				}
			}
			if pick == nil {
				return v, path
			}
			v = pick
		default:
			return v, path
		}
	}
	return v, path
}

// c04Lockset: accesses to the map fields of a mutex-carrying container.
func c04Lockset(p *an.Prog, r *an.R, nt *types.Named) {
	idx := p.Pkg("index")
	info := idx.TypesInfo
	var guarded []*types.Var
	var mu *types.Var
	for _, f := range an.StructFields(nt) {
		switch f.Type().Underlying().(type) {
		case *types.Map, *types.Slice:
			guarded = append(guarded, f)
		}
		if s := f.Type().String(); s == "sync.Mutex" || s == "sync.RWMutex" {
			mu = f
		}
	}
	if !r.Anchor(mu != nil && len(guarded) > 0, nt.Obj().Name()+" mutex and guarded fields") {
		return
	}
	type acc struct {
		fn    *types.Func
		d     *an.DeclInfo
		node  ast.Node
		write bool
		field string
	}
	var accs []acc
	p.AllDecls(func(fn *types.Func, d *an.DeclInfo) {
		if d.Pkg != idx || d.Decl.Body == nil {
			return
		}
		parents := map[ast.Node]ast.Node{}
		var stack []ast.Node
		ast.Inspect(d.Decl.Body, func(n ast.Node) bool {
			if n == nil {
				stack = stack[:len(stack)-1]
				return true
			}
			if len(stack) > 0 {
				parents[n] = stack[len(stack)-1]
			}
			stack = append(stack, n)
			return true
		})
		ast.Inspect(d.Decl.Body, func(n ast.Node) bool {
			se, ok := n.(*ast.SelectorExpr)
			if !ok {
				return true
			}
			sel := info.Selections[se]
			if sel == nil || sel.Kind() != types.FieldVal {
				return true
			}
			for _, gf := range guarded {
				if sel.Obj() == gf {
					write := false
					// m[k] = v ; delete(m,k) ; m = ...
					par := parents[se]
					if ix, ok := par.(*ast.IndexExpr); ok {
						if as, ok := parents[ix].(*ast.AssignStmt); ok {
							for _, l := range as.Lhs {
								if l == ix {
									write = true
								}
							}
						}
					}
					if as, ok := par.(*ast.AssignStmt); ok {
						for _, l := range as.Lhs {
							if l == se {
								write = true
							}
						}
					}
					if call, ok := par.(*ast.CallExpr); ok && an.IsBuiltin(info, call, "delete") {
						write = true
					}
					accs = append(accs, acc{fn, d, se, write, gf.Name()})
				}
			}
			return true
		})
	})
	r.Floor("C04.R3.guarded-accesses", 3, len(accs))
	lockCall := func(info *types.Info, n ast.Node, names ...string) bool {
		found := false
		an.Inspect(n, false, func(m ast.Node) bool {
			call, ok := m.(*ast.CallExpr)
			if !ok {
				return true
			}
			se, ok := ast.Unparen(call.Fun).(*ast.SelectorExpr)
			if !ok {
				return true
			}
			inner, ok := ast.Unparen(se.X).(*ast.SelectorExpr)
			if !ok {
				return true
			}
			if s := info.Selections[inner]; s == nil || s.Obj() != mu {
				return true
			}
			for _, nme := range names {
				if se.Sel.Name == nme {
					found = true
				}
			}
			return true
		})
		return found
	}
	// holds(fn, loc, needWrite): lock call precedes loc on every path and no unlock in between other than deferred
	holdsAt := func(d *an.DeclInfo, node ast.Node, needWrite bool) bool {
		g := an.NewG(d.Pkg.TypesInfo, d.Decl.Body)
		loc, ok := g.Find(node)
		if !ok {
			return false
		}
		locks := []string{"Lock"}
		if !needWrite {
			locks = append(locks, "RLock")
		}
		isLock := func(l an.Loc) bool {
			if _, isDefer := g.Node(l).(*ast.DeferStmt); isDefer {
				return false
			}
			return lockCall(d.Pkg.TypesInfo, g.Node(l), locks...)
		}
		isUnlock := func(l an.Loc) bool {
			if _, isDefer := g.Node(l).(*ast.DeferStmt); isDefer {
				return false
			}
			return lockCall(d.Pkg.TypesInfo, g.Node(l), "Unlock", "RUnlock")
		}
		// every path entry->loc passes a lock
		if g.Reach(g.Entry(), false, &an.Search{Target: func(l an.Loc) bool { return l == loc }, Cut: isLock}) {
			return false
		}
		// no path lock->unlock->loc: approximated by "no explicit (non-deferred) unlock can reach loc"
		for _, ul := range g.Locs(func(n ast.Node) bool { return true }) {
			if isUnlock(ul) && g.Reach(ul, true, &an.Search{Target: func(l an.Loc) bool { return l == loc }, Cut: isLock}) {
				return false
			}
		}
		return true
	}
	for _, a := range accs {
		key := fmt.Sprintf("%s/access/%s.%s", an.FuncName(a.fn), nt.Obj().Name(), a.field)
		if a.write {
			key += "(write)"
		}
		if holdsAt(a.d, a.node, a.write) {
			r.OK("C04.R3", key, a.node.Pos(), "access is preceded by mu.Lock/RLock on every path in the same function")
			continue
		}
		// helper: every caller holds the lock at the call
		callers, allHold := 0, true
		p.AllDecls(func(fn *types.Func, d *an.DeclInfo) {
			if d.Decl.Body == nil || d.Pkg != idx {
				return
			}
			for _, call := range an.CallsTo(d.Pkg.TypesInfo, d.Decl.Body, true, a.fn) {
				callers++
				if !holdsAt(d, call, a.write) {
					allHold = false
				}
			}
		})
		r.Check(callers > 0 && allHold, "C04.R3", key, a.node.Pos(),
			fmt.Sprintf("no lock in this function, but all %d callers hold mu at the call", callers),
			"the cache map is accessed without holding mu (neither here nor in every caller): concurrent searches race on it")
	}
}
