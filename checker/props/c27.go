package props

import (
	"go/ast"
	"go/constant"
	"go/token"
	"go/types"
	"sort"
	"strconv"
	"strings"

	"zverif/checker/an"
)

func init() { register("C27", c27) }

// opsWithSub: regexp/syntax operators whose meaning lies in Sub.
var opsWithSub = map[string]bool{"OpCapture": true, "OpStar": true, "OpPlus": true, "OpQuest": true, "OpRepeat": true, "OpConcat": true, "OpAlternate": true}

func c27(p *an.Prog, r *an.R, tier string) {
	r.Explanation = "C27 (structural clauses): the printer handles every regexp/syntax operator (no operator falls into the `<invalid op>` default), every operator that carries sub-expressions prints them by recursion over re.Sub, the nested operator switch of the repetition clause covers every operator of that clause; the optimiser's in-place rewrite (uncapture) changes only capture nodes - the only operator it ever stores is a grouping operator, under an Op == OpCapture test, it stores no other field of a non-capture node, and it rebuilds every Sub entry from the recursive result of the same entry; convertCapture returns its parameter on every error path. Does NOT decide that the printed text re-parses to the same language (escaping, flag groups, precedence parentheses, class printing are value-level), nor that Simplify preserves the language (standard library)."
	r.Rule("C27.R1", "writeRegexp's switch on re.Op has a case for every exported regexp/syntax.Op constant; nested switches on re.Op cover the operators of their clause")
	r.Rule("C27.R2", "each clause for an operator with sub-expressions contains a recursive writeRegexp call on (an element of) re.Sub")
	r.Rule("C27.R3", "uncapture stores into *syntax.Regexp only: Op (a grouping operator, under Op == OpCapture), Cap and Name (under the same test), Sub[i] = uncapture(Sub[i])")
	r.Rule("C27.R4", "convertCapture returns its parameter on every path where a parse error was seen")
	const su = "internal/syntaxutil"
	wr := p.Decl(p.Func(su, "writeRegexp"))
	var synPkg *types.Package
	for _, tp := range p.TPkgs {
		if tp.Path() == "regexp/syntax" {
			synPkg = tp
		}
	}
	if !r.Anchor(wr != nil && synPkg != nil, su+".writeRegexp / regexp/syntax") {
		return
	}
	opT := synPkg.Scope().Lookup("Op").Type()
	var allOps []string
	for _, name := range synPkg.Scope().Names() {
		if c, ok := synPkg.Scope().Lookup(name).(*types.Const); ok && c.Exported() && types.Identical(c.Type(), opT) {
			allOps = append(allOps, name)
		}
	}
	sort.Strings(allOps)
	r.Floor("C27.R1.syntax-ops", 19, len(allOps))
	info := wr.Pkg.TypesInfo
	r.Fn(su + ".writeRegexp")
	re := an.Param(info, wr.Decl, 1)
	isReOp := func(e ast.Expr) bool {
		se, ok := ast.Unparen(e).(*ast.SelectorExpr)
		return ok && se.Sel.Name == "Op" && an.UsesObj(info, se.X, re) && func() bool { id, ok := ast.Unparen(se.X).(*ast.Ident); return ok && info.ObjectOf(id) == re }()
	}
	caseOps := func(cc *ast.CaseClause) []string {
		var out []string
		for _, e := range cc.List {
			if tv := info.Types[e]; tv.Value != nil && types.Identical(tv.Type, opT) {
				for _, n := range allOps {
					if constant.Compare(synPkg.Scope().Lookup(n).(*types.Const).Val(), token.EQL, tv.Value) {
						out = append(out, n)
					}
				}
			}
		}
		return out
	}
	var outer *ast.SwitchStmt
	for _, st := range wr.Decl.Body.List {
		if sw, ok := st.(*ast.SwitchStmt); ok && sw.Tag != nil && isReOp(sw.Tag) {
			outer = sw
		}
	}
	if !r.Anchor(outer != nil, su+".writeRegexp/switch re.Op") {
		return
	}
	covered := map[string]*ast.CaseClause{}
	for _, st := range outer.Body.List {
		cc := st.(*ast.CaseClause)
		for _, o := range caseOps(cc) {
			covered[o] = cc
		}
	}
	self := p.Func(su, "writeRegexp")
	for _, o := range allOps {
		cc := covered[o]
		r.Check(cc != nil, "C27.R1", su+".writeRegexp/case/"+o, outer.Pos(), "operator "+o+" has a printing clause", "operator "+o+" has no clause in the printer: it prints as `<invalid op>` and re-parses to a different expression")
		if cc == nil || !opsWithSub[o] {
			continue
		}
		// R2: recursive call on re.Sub
		rec := false
		for _, st := range cc.Body {
			for _, c := range an.CallsTo(info, st, false, self) {
				if len(c.Args) == 2 && c27FromSub(info, cc, c.Args[1], re) {
					// n-ary operators: every element, i.e. a range over re.Sub
					if _, isIdx := ast.Unparen(c.Args[1]).(*ast.IndexExpr); (o == "OpConcat" || o == "OpAlternate") && (isIdx || !c27RangeValue(info, cc, c.Args[1])) {
						continue
					}
					rec = true
				}
			}
		}
		r.Check(rec, "C27.R2", su+".writeRegexp/case/"+o+"/prints-sub-expressions", cc.Pos(), "the clause recurses into re.Sub", "the clause for "+o+" does not print its sub-expressions by a recursive call on re.Sub")
		// nested switches on re.Op cover the clause's operators
		for _, st := range cc.Body {
			ast.Inspect(st, func(n ast.Node) bool {
				sw, ok := n.(*ast.SwitchStmt)
				if !ok || sw.Tag == nil || !isReOp(sw.Tag) {
					return true
				}
				has := false
				for _, s2 := range sw.Body.List {
					c2 := s2.(*ast.CaseClause)
					if c2.List == nil {
						continue
					}
					for _, o2 := range caseOps(c2) {
						if o2 == o {
							has = true
						}
					}
				}
				r.Check(has, "C27.R1", su+".writeRegexp/case/"+o+"/nested-switch", sw.Pos(), "the nested operator switch handles "+o, "the nested operator switch in the clause of "+o+" has no case for it: its suffix is not printed")
				return true
			})
		}
	}
	// ---- R3, R4
	unc := p.Decl(p.Func("query", "uncapture"))
	cc := p.Decl(p.Func("query", "convertCapture"))
	if !r.Anchor(unc != nil && cc != nil, "query.uncapture / query.convertCapture") {
		return
	}
	r.Fn("query.uncapture")
	r.Fn("query.convertCapture")
	qi := unc.Pkg.TypesInfo
	rp := an.Param(qi, unc.Decl, 0)
	g := an.NewG(qi, unc.Decl.Body)
	uncF := p.Func("query", "uncapture")
	isCaptureTest := func(cond ast.Expr, truth bool) bool {
		be, ok := ast.Unparen(cond).(*ast.BinaryExpr)
		if !ok || !(be.Op == token.EQL && truth || be.Op == token.NEQ && !truth) {
			return false
		}
		for _, pair := range [][2]ast.Expr{{be.X, be.Y}, {be.Y, be.X}} {
			se, ok := ast.Unparen(pair[0]).(*ast.SelectorExpr)
			if ok && se.Sel.Name == "Op" && an.UsesObj(qi, se.X, rp) {
				if tv := qi.Types[pair[1]]; tv.Value != nil && constant.Compare(tv.Value, token.EQL, synPkg.Scope().Lookup("OpCapture").(*types.Const).Val()) {
					return true
				}
			}
		}
		return false
	}
	nStores := 0
	for _, l := range g.Locs(func(ast.Node) bool { return true }) {
		as, ok := g.Node(l).(*ast.AssignStmt)
		if !ok {
			continue
		}
		for k, lhs := range as.Lhs {
			field, idx := c27RegexpFieldIn(qi, unc.Decl.Body, lhs)
			if field == "" {
				continue
			}
			nStores++
			key := "query.uncapture/store/" + field
			switch field {
			case "Op", "Cap", "Name":
				guarded := g.GuardedBy(l, isCaptureTest, nil)
				r.Check(guarded, "C27.R3", key+"/only-on-capture-nodes", as.Pos(), "stored only under Op == OpCapture", "the optimiser overwrites "+field+" of a node that is not known to be a capture group")
				if field == "Op" && len(as.Rhs) == len(as.Lhs) {
					tv := qi.Types[as.Rhs[k]]
					ok := false
					for _, grp := range []string{"OpConcat", "OpAlternate"} {
						if tv.Value != nil && constant.Compare(tv.Value, token.EQL, synPkg.Scope().Lookup(grp).(*types.Const).Val()) {
							ok = true
						}
					}
					r.Check(ok, "C27.R3", key+"/becomes-a-grouping-operator", as.Pos(), "a capture becomes a plain group (concatenation of its single sub-expression)", "a capture node is rewritten to an operator other than a plain group of its single sub-expression: the matched language changes")
				}
			case "Sub":
				// r.Sub[i] = uncapture(s) with i,s ranging over r.Sub
				ok := false
				if idx != nil && len(as.Rhs) == len(as.Lhs) {
					if c, isC := ast.Unparen(as.Rhs[k]).(*ast.CallExpr); isC && an.Callee(qi, c) == uncF && len(c.Args) == 1 {
						ok = c27SameElement(qi, unc.Decl.Body, idx, c.Args[0], rp)
					}
				}
				r.Check(ok, "C27.R3", key+"/rebuilt-from-the-same-entry", as.Pos(), "Sub[i] is replaced by uncapture(Sub[i])", "a Sub entry is replaced by something other than the recursive result for the same entry: sub-expressions are dropped, duplicated or reordered")
			default:
				r.Bad("C27.R3", key+"/not-a-capture-field", as.Pos(), "the optimiser overwrites "+field+" of a regexp node; only Op/Cap/Name of capture nodes and Sub entries may be rewritten without changing the language")
			}
		}
	}
	r.Floor("C27.R3.stores", 4, nStores)
	// R4
	ci := cc.Pkg.TypesInfo
	cp := an.Param(ci, cc.Decl, 0)
	cg := an.NewG(ci, cc.Decl.Body)
	nErrRet := 0
	for _, l := range cg.Locs(func(n ast.Node) bool { _, ok := n.(*ast.ReturnStmt); return ok }) {
		rs := cg.Node(l).(*ast.ReturnStmt)
		underErr := inErrorCleanup(cg, ci, l)
		if !underErr {
			continue
		}
		nErrRet++
		id, ok := ast.Unparen(rs.Results[0]).(*ast.Ident)
		r.Check(ok && ci.ObjectOf(id) == cp, "C27.R4", "query.convertCapture/error-return/"+strconv.Itoa(nErrRet)+"/returns-the-original", rs.Pos(), "on a parse error the original expression is returned", "on a parse error convertCapture returns `"+types.ExprString(rs.Results[0])+"` instead of the original expression")
	}
	r.Floor("C27.R4.error-returns", 2, nErrRet)
	c27LiteralShortcut(p, r)
}

// c27LiteralShortcut: turning a regexp that is a single literal into a
// Substring query drops everything but the runes. A fold-case literal
// ((?i)foo) stores folded runes and must match case-insensitively, so the
// shortcut has to look at the FoldCase flag.
func c27LiteralShortcut(p *an.Prog, r *an.R) {
	r.Rule("C27.R5", "every query.Substring literal whose Pattern is string(R.Rune) of a *syntax.Regexp R is built where R.Flags was consulted (guard on FoldCase, or CaseSensitive derived from it)")
	exceptions := map[string]string{
		"index.(*indexData).simplify": "the pattern is always `(?i)(ext|ext...)$`: it ends in an anchor and never parses to a bare literal (the shortcut is a dead copy of query.RegexpQuery)",
	}
	n := 0
	p.AllDecls(func(fn *types.Func, d *an.DeclInfo) {
		if d.Decl.Body == nil || strings.HasSuffix(p.Fset.Position(d.Decl.Pos()).Filename, "_test.go") {
			return
		}
		info := d.Pkg.TypesInfo
		var stack []ast.Node
		ast.Inspect(d.Decl.Body, func(nd ast.Node) bool {
			if nd == nil {
				stack = stack[:len(stack)-1]
				return true
			}
			stack = append(stack, nd)
			cl, ok := nd.(*ast.CompositeLit)
			if !ok || !strings.HasSuffix(an.TypeName(info.TypeOf(cl)), "query.Substring") {
				return true
			}
			pat := litField(cl, "Pattern")
			if dd := defOf(info, d.Decl.Body, pat); dd != nil {
				pat = dd
			}
			// string(R.Rune)
			conv, ok := ast.Unparen(pat).(*ast.CallExpr)
			if pat == nil || !ok || len(conv.Args) != 1 {
				return true
			}
			se, ok := ast.Unparen(conv.Args[0]).(*ast.SelectorExpr)
			if !ok || se.Sel.Name != "Rune" {
				return true
			}
			rid, ok := ast.Unparen(se.X).(*ast.Ident)
			if !ok || !strings.HasSuffix(an.TypeName(info.TypeOf(rid)), "syntax.Regexp") {
				return true
			}
			robj := info.ObjectOf(rid)
			n++
			fname := an.FuncName(fn)
			key := fname + "/literal-shortcut/fold-flag-consulted"
			// the regexp can never be a bare literal when it was parsed from a pattern that ends in an anchor
			anchored := false
			ast.Inspect(d.Decl.Body, func(m ast.Node) bool {
				as, ok := m.(*ast.AssignStmt)
				if !ok || len(as.Rhs) != 1 || len(as.Lhs) == 0 || !isIdentOf(info, as.Lhs[0], robj) {
					return true
				}
				pc, ok := ast.Unparen(as.Rhs[0]).(*ast.CallExpr)
				if !ok || len(pc.Args) == 0 {
					return true
				}
				if cal := an.Callee(info, pc); cal == nil || cal.Name() != "Parse" {
					return true
				}
				pat := pc.Args[0]
				if dd := defOf(info, d.Decl.Body, pat); dd != nil {
					pat = dd
				}
				ast.Inspect(pat, func(k ast.Node) bool {
					if e, ok := k.(ast.Expr); ok {
						if sv, ok := an.StringConst(info, e); ok && strings.HasSuffix(sv, "$") {
							anchored = true
						}
					}
					return true
				})
				return true
			})
			if why, ok := exceptions[fname]; ok || anchored {
				if !ok {
					why = "the pattern is built from a format that ends in `$`: it never parses to a bare literal"
				}
				r.OK("C27.R5", key, cl.Pos(), "exception: "+why)
				r.Except(fname, why)
				return true
			}
			r.Fn(fname)
			usesFlags := func(e ast.Node) bool {
				hit := false
				ast.Inspect(e, func(m ast.Node) bool {
					if s2, ok := m.(*ast.SelectorExpr); ok && s2.Sel.Name == "Flags" && isIdentOf(info, s2.X, robj) {
						hit = true
					}
					return true
				})
				return hit
			}
			consulted := false
			// (a) an enclosing condition mentions R.Flags
			for i := len(stack) - 2; i >= 0; i-- {
				if is, ok := stack[i].(*ast.IfStmt); ok && (usesFlags(is.Cond) || usesFlags(an.InlinePredicates(info, is.Cond))) {
					consulted = true // directly, or inside a small predicate helper such as isPlainLiteral(r)
				}
			}
			// (a') every path to the literal passes a test that found the flag clear (early-return style,
			// possibly inside a predicate helper)
			if !consulted {
				cg := an.NewG(info, d.Decl.Body)
				if l, ok := cg.Find(cl); ok {
					consulted = cg.GuardedBy(l, func(cond ast.Expr, truth bool) bool {
						f, isCmp := an.IntCompare(info, cond, truth, func(e ast.Expr) bool { return usesFlags(e) })
						return isCmp && f.AtMost(0) && f.AtLeast(0)
					}, nil)
				}
			}
			// (b) the literal's CaseSensitive field derives from R.Flags (directly or through one local)
			if cs := litField(cl, "CaseSensitive"); cs != nil {
				if usesFlags(cs) {
					consulted = true
				}
				ast.Inspect(cs, func(m ast.Node) bool {
					if id, ok := m.(*ast.Ident); ok {
						if dd := defOf(info, d.Decl.Body, id); dd != nil && usesFlags(dd) {
							consulted = true
						}
					}
					return true
				})
			}
			r.Check(consulted, "C27.R5", key, cl.Pos(), "the fold-case flag of the literal is taken into account", "a regexp that is a single literal is turned into a plain substring query without looking at its FoldCase flag: (?i)foo becomes the case-sensitive substring FOO (the folded runes) and no longer matches foo")
			return true
		})
	})
	r.Floor("C27.R5.literal-shortcuts", 2, n)
}

// c27FromSub: e is re.Sub[k], or an identifier bound to a range over re.Sub, or
// defined from re.Sub[k], inside clause cc.
func c27FromSub(info *types.Info, scope ast.Node, e ast.Expr, re types.Object) bool {
	isSub := func(x ast.Expr) bool {
		if dd := defOf(info, scope, x); dd != nil {
			x = dd // `subs := re.Sub`
		}
		se, ok := ast.Unparen(x).(*ast.SelectorExpr)
		if !ok || se.Sel.Name != "Sub" {
			return false
		}
		id, ok := ast.Unparen(se.X).(*ast.Ident)
		return ok && info.ObjectOf(id) == re
	}
	switch x := ast.Unparen(e).(type) {
	case *ast.IndexExpr:
		return isSub(x.X)
	case *ast.Ident:
		obj := info.ObjectOf(x)
		found := false
		ast.Inspect(scope, func(n ast.Node) bool {
			switch s := n.(type) {
			case *ast.RangeStmt:
				if v, ok := s.Value.(*ast.Ident); ok && info.ObjectOf(v) == obj && isSub(s.X) {
					found = true
				}
			case *ast.AssignStmt:
				for k, l := range s.Lhs {
					if id, ok := l.(*ast.Ident); ok && info.ObjectOf(id) == obj && len(s.Lhs) == len(s.Rhs) {
						if ix, ok := ast.Unparen(s.Rhs[k]).(*ast.IndexExpr); ok && isSub(ix.X) {
							found = true
						}
					}
				}
			}
			return true
		})
		return found
	}
	return false
}

// c27RegexpField: lhs is x.F or x.Sub[i] with x of type *syntax.Regexp.
func c27RegexpField(info *types.Info, lhs ast.Expr) (string, ast.Expr) {
	return c27RegexpFieldIn(info, nil, lhs)
}

// c27RegexpFieldIn also resolves `subs := r.Sub; subs[i] = ..` when body is given.
func c27RegexpFieldIn(info *types.Info, body ast.Node, lhs ast.Expr) (string, ast.Expr) {
	var idx ast.Expr
	e := ast.Unparen(lhs)
	if ix, ok := e.(*ast.IndexExpr); ok {
		idx = ix.Index
		e = ast.Unparen(ix.X)
		if body != nil {
			if dd := defOf(info, body, e); dd != nil {
				e = ast.Unparen(dd)
			}
		}
	}
	se, ok := e.(*ast.SelectorExpr)
	if !ok || info.Selections[se] == nil {
		return "", nil
	}
	n := an.NamedOf(info.Selections[se].Recv())
	if n == nil || n.Obj().Pkg() == nil || n.Obj().Pkg().Path() != "regexp/syntax" || n.Obj().Name() != "Regexp" {
		return "", nil
	}
	return se.Sel.Name, idx
}

// c27SameElement: idx and elem are the key and value of one `range r.Sub`, or
// elem is r.Sub[idx].
func c27SameElement(info *types.Info, body ast.Node, idx, elem ast.Expr, rp types.Object) bool {
	if ix, ok := ast.Unparen(elem).(*ast.IndexExpr); ok {
		return types.ExprString(ix.Index) == types.ExprString(idx) && c27FromSub(info, body, elem, rp)
	}
	ii, ok1 := ast.Unparen(idx).(*ast.Ident)
	ei, ok2 := ast.Unparen(elem).(*ast.Ident)
	if !ok1 || !ok2 {
		return false
	}
	same := false
	ast.Inspect(body, func(n ast.Node) bool {
		if rs, ok := n.(*ast.RangeStmt); ok {
			k, okk := rs.Key.(*ast.Ident)
			v, okv := rs.Value.(*ast.Ident)
			if okk && okv && info.ObjectOf(k) == info.ObjectOf(ii) && info.ObjectOf(v) == info.ObjectOf(ei) {
				if se, ok := ast.Unparen(rs.X).(*ast.SelectorExpr); ok && se.Sel.Name == "Sub" && an.UsesObj(info, se.X, rp) {
					same = true
				}
			}
		}
		return true
	})
	return same
}

// c27RangeValue: e is the value variable of some range statement in scope.
func c27RangeValue(info *types.Info, scope ast.Node, e ast.Expr) bool {
	id, ok := ast.Unparen(e).(*ast.Ident)
	if !ok {
		return false
	}
	found := false
	ast.Inspect(scope, func(n ast.Node) bool {
		if rs, ok := n.(*ast.RangeStmt); ok {
			if v, ok := rs.Value.(*ast.Ident); ok && info.ObjectOf(v) == info.ObjectOf(id) {
				found = true
			}
		}
		return true
	})
	return found
}
