package props

import (
	"fmt"
	"go/ast"
	"go/token"
	"go/types"
	"strings"

	"golang.org/x/tools/go/ssa"

	"zverif/checker/an"
)

func init() {
	register("C22", c22)
	register("C37", c37)
}

func c22(p *an.Prog, r *an.R, tier string) {
	r.Explanation = "C22 (structural clauses): display truncation only ever takes prefixes and never reorders. In the display-limit code (index/limit.go) every slice expression applied to the result's files, line matches, chunk matches, ranges, symbol infos, line fragments or chunk content starts at the beginning (no low bound); none of these slices is sorted, appended to, or has elements assigned; every function that creates a display truncator and applies it itself ranks the files with SortFiles first, on every path; the streaming collector ends collecting (and flushes the limited aggregate) only on the wall-time timer or at the final flush. These are necessary conditions of 'what is returned is the beginning of the unlimited ranked result'. Does NOT decide the counts (at most N files / M matches), the position of the cut in the last file, or the whole-lines arithmetic of a shortened chunk (value-level; one defect of that arithmetic was found by reading and repaired, see known_findings.json)."
	r.Rule("C22.R1", "every slice expression in the display-limit functions over result data is a prefix (low bound absent or 0)")
	r.Rule("C22.R2", "the display-limit functions do not reorder or grow result data: no sort/slices mutator, no append, no element assignment on those slices")
	r.Rule("C22.R3", "every function that calls NewDisplayTruncator and applies the truncator itself calls SortFiles before, on every path")
	idx := p.Pkg("index")
	if !r.Anchor(idx != nil, "index package") {
		return
	}
	isResultData := func(t types.Type) bool {
		sl, ok := t.Underlying().(*types.Slice)
		if !ok {
			return false
		}
		en := an.TypeName(sl.Elem())
		switch en {
		case "zoekt.FileMatch", "zoekt.LineMatch", "zoekt.ChunkMatch", "zoekt.Range", "zoekt.LineFragmentMatch", "*zoekt.Symbol", "byte", "uint8":
			return true
		}
		return false
	}
	fnNames := map[string]bool{"NewDisplayTruncator": true, "limitMatches": true, "limitChunkMatches": true, "limitLineMatches": true, "SortAndTruncateFiles": true}
	slices, funcs := 0, 0
	for _, f := range p.SSAFuncs() {
		if f.Pkg == nil || f.Pkg.Pkg != idx.Types {
			continue
		}
		top := f
		for top.Parent() != nil {
			top = top.Parent()
		}
		if !fnNames[top.Name()] {
			continue
		}
		funcs++
		fname := an.SSAName(f)
		r.Fn(fname)
		counts := map[string]int{}
		an.Instrs(f, func(b *ssa.BasicBlock, in ssa.Instruction) {
			switch x := in.(type) {
			case *ssa.Slice:
				if !isResultData(x.X.Type()) {
					return
				}
				slices++
				key := fmt.Sprintf("%s/slice-of-%s/is-prefix", fname, an.TypeName(x.X.Type()))
				counts[key]++
				if counts[key] > 1 {
					key = fmt.Sprintf("%s#%d", key, counts[key])
				}
				ok := x.Low == nil
				if c, isC := x.Low.(*ssa.Const); isC && c.Value != nil && c.Value.String() == "0" {
					ok = true
				}
				r.Check(ok, "C22.R1", key, x.Pos(), "takes a prefix", "display truncation takes a slice that does not start at the beginning: what is returned is not the leading part of the ranked result")
			case *ssa.Store:
				if ia, ok := x.Addr.(*ssa.IndexAddr); ok && isResultData(ia.X.Type()) {
					if _, isStruct := x.Val.Type().Underlying().(*types.Struct); isStruct || an.TypeName(x.Val.Type()) == "*zoekt.Symbol" {
						r.Bad("C22.R2", fname+"/assigns-element-of-"+an.TypeName(ia.X.Type()), x.Pos(), "display truncation assigns an element of the result: the returned items are not the original leading items")
					}
				}
			case *ssa.Call:
				if bi, ok := x.Call.Value.(*ssa.Builtin); ok && bi.Name() == "append" && isResultData(x.Call.Args[0].Type()) && an.TypeName(x.Call.Args[0].Type()) != "[]byte" {
					r.Bad("C22.R2", fname+"/appends-to-"+an.TypeName(x.Call.Args[0].Type()), x.Pos(), "display truncation appends to result data")
				}
				if cal := an.StaticCallee(x); cal != nil && cal.Pkg() != nil && (cal.Pkg().Path() == "sort" || cal.Pkg().Path() == "slices") && top.Name() != "SortAndTruncateFiles" {
					r.Bad("C22.R2", fname+"/reorders-with-"+cal.Pkg().Name()+"."+cal.Name(), x.Pos(), "display truncation reorders result data")
				}
			}
		})
	}
	r.Floor("C22.R1.result-slices", 6, slices)
	r.Floor("C22.R1.functions", 5, funcs)
	if slices > 0 {
		r.OK("C22.R2", "index/display-limit/no-reordering", 0, "no sort, append or element assignment on result data in the display-limit functions")
	}
	sortFiles := p.Func("index", "SortFiles")
	newTrunc := p.Func("index", "NewDisplayTruncator")
	if r.Anchor(sortFiles != nil && newTrunc != nil, "index.SortFiles / NewDisplayTruncator") {
		// every function that creates a truncator and applies it itself
		nApply := 0
		p.AllDecls(func(fn *types.Func, d *an.DeclInfo) {
			if d.Decl.Body == nil || strings.HasSuffix(p.Fset.Position(d.Decl.Pos()).Filename, "_test.go") || len(an.CallsTo(d.Pkg.TypesInfo, d.Decl.Body, false, newTrunc)) == 0 {
				return
			}
			info := d.Pkg.TypesInfo
			g := an.NewG(info, d.Decl.Body)
			for _, l := range g.Locs(func(ast.Node) bool { return true }) {
				// the truncator call: a call of a func value of type DisplayTruncator (not inside a nested literal)
				isTrunc := g.Contains(l, func(m ast.Node) bool {
					c, ok := m.(*ast.CallExpr)
					if !ok {
						return false
					}
					t := info.TypeOf(c.Fun)
					return t != nil && strings.HasSuffix(an.TypeName(t), "DisplayTruncator")
				})
				if !isTrunc {
					continue
				}
				nApply++
				r.Fn(an.FuncName(fn))
				skip := g.Reach(g.Entry(), false, &an.Search{Target: func(k an.Loc) bool { return k == l }, Cut: g.HasCallTo(sortFiles)})
				r.Check(!skip, "C22.R3", an.FuncName(fn)+"/sort-precedes-truncate", g.Node(l).Pos(), "files are ranked with SortFiles before they are cut", "files are truncated without having been ranked by SortFiles on every path: the cut keeps files that are not the top of the ranking")
			}
		})
		r.Floor("C22.R3.truncating-functions", 1, nApply)
	}
	c22Flush(p, r)
}

// c22Flush: in the streaming collector the only triggers of the early flush
// are the wall-time timer and the final flush. Any other trigger makes the
// streamed, limited result depend on arrival order.
func c22Flush(p *an.Prog, r *an.R) {
	r.Rule("C22.R4", "newFlushCollectSender: the closure that ends collecting (calls collectSender.Done) is invoked only from a select case on the FlushWallTime timer and from the final-flush function that is returned to the caller")
	f := p.Func("search", "newFlushCollectSender")
	d := p.Decl(f)
	done := p.Func("search", "(*collectSender).Done")
	if !r.Anchor(d != nil && done != nil, "search.newFlushCollectSender / (*collectSender).Done") {
		return
	}
	r.Fn(an.FuncName(f))
	info := d.Pkg.TypesInfo
	// closures calling Done
	var stops []types.Object
	ast.Inspect(d.Decl.Body, func(n ast.Node) bool {
		as, ok := n.(*ast.AssignStmt)
		if !ok || len(as.Lhs) != 1 || len(as.Rhs) != 1 {
			return true
		}
		if fl, ok := as.Rhs[0].(*ast.FuncLit); ok && len(an.CallsTo(info, fl.Body, false, done)) > 0 {
			if id, ok := as.Lhs[0].(*ast.Ident); ok {
				stops = append(stops, info.ObjectOf(id))
			}
		}
		return true
	})
	if !r.Anchor(len(stops) >= 1, "newFlushCollectSender/closure that calls collectSender.Done") {
		return
	}
	// Done itself must not be called outside those closures
	// the returned final-flush function
	finals := map[types.Object]bool{}
	var finalLits []*ast.FuncLit
	ast.Inspect(d.Decl.Body, func(n ast.Node) bool {
		if _, ok := n.(*ast.FuncLit); ok {
			return false // returns of nested literals are not the function's
		}
		rs, ok := n.(*ast.ReturnStmt)
		if !ok || len(rs.Results) != 2 {
			return true
		}
		switch x := ast.Unparen(rs.Results[1]).(type) {
		case *ast.Ident:
			finals[info.ObjectOf(x)] = true
		case *ast.FuncLit:
			finalLits = append(finalLits, x)
		}
		return true
	})
	ast.Inspect(d.Decl.Body, func(n ast.Node) bool {
		as, ok := n.(*ast.AssignStmt)
		if ok && len(as.Lhs) == 1 && len(as.Rhs) == 1 {
			if id, ok := as.Lhs[0].(*ast.Ident); ok && finals[info.ObjectOf(id)] {
				if fl, ok := as.Rhs[0].(*ast.FuncLit); ok {
					finalLits = append(finalLits, fl)
				}
			}
		}
		return true
	})
	within := func(n ast.Node, outer ast.Node) bool { return outer.Pos() <= n.Pos() && n.End() <= outer.End() }
	nCalls, nTimer, nFinal := 0, 0, 0
	var stack []ast.Node
	ast.Inspect(d.Decl.Body, func(n ast.Node) bool {
		if n == nil {
			stack = stack[:len(stack)-1]
			return true
		}
		stack = append(stack, n)
		c, ok := n.(*ast.CallExpr)
		if !ok {
			return true
		}
		isStop := false
		for _, s := range stops {
			if isIdentOf(info, c.Fun, s) {
				isStop = true
			}
		}
		if !isStop {
			return true
		}
		nCalls++
		kind := ""
		for _, fl := range finalLits {
			if within(c, fl) {
				kind = "final-flush"
				nFinal++
			}
		}
		if kind == "" {
			for i := len(stack) - 1; i >= 0; i-- {
				cc, ok := stack[i].(*ast.CommClause)
				if !ok || cc.Comm == nil {
					continue
				}
				ast.Inspect(cc.Comm, func(m ast.Node) bool {
					if ue, ok := m.(*ast.UnaryExpr); ok && ue.Op == token.ARROW {
						if se, ok := ast.Unparen(ue.X).(*ast.SelectorExpr); ok && se.Sel.Name == "C" && strings.HasSuffix(an.TypeName(info.TypeOf(se.X)), "time.Timer") {
							kind = "timer"
						}
					}
					return true
				})
				break
			}
			if kind == "timer" {
				nTimer++
			}
		}
		r.Check(kind != "", "C22.R4", fmt.Sprintf("search.newFlushCollectSender/flush-trigger#%d/timer-or-final", nCalls), c.Pos(), "collecting ends on "+kind, "collecting is ended (and the collected, limited result flushed) from a place that is neither the wall-time timer nor the final flush: results arriving later are cut off although they may rank first")
		return true
	})
	r.Floor("C22.R4.flush-triggers", 2, nCalls)
}

func c37(p *an.Prog, r *an.R, tier string) {
	r.Explanation = "C37 (structural clauses): the conversion of ctags entries to symbol sections never fails the build and keeps ranges and metadata aligned: tagsToSections.Convert returns a nil error on every path (entries that cannot be placed are skipped with `continue`), the range slice and the metadata slice are extended together, at the same index, in the same statement sequence, and only after the overlap test succeeded. Does NOT decide that the derived ranges are sorted, non-overlapping, inside the file and cover exactly the symbol's name (numeric facts about ctags entries and content)."
	r.Rule("C37.R1", "tagsToSections.Convert: every return carries a nil error")
	r.Rule("C37.R2", "the insertions into the range slice and the metadata slice use the same index and occur only where overlaps() did not report -1")
	f := p.Func("index", "(*tagsToSections).Convert")
	d := p.Decl(f)
	overlaps := p.Func("index", "overlaps")
	if !r.Anchor(d != nil && overlaps != nil, "index.(*tagsToSections).Convert / overlaps") {
		return
	}
	r.Fn(an.FuncName(f))
	info := d.Pkg.TypesInfo
	n := 0
	ast.Inspect(d.Decl.Body, func(nd ast.Node) bool {
		rs, ok := nd.(*ast.ReturnStmt)
		if !ok || len(rs.Results) == 0 {
			return true
		}
		n++
		last := rs.Results[len(rs.Results)-1]
		r.Check(info.Types[last].IsNil(), "C37.R1", fmt.Sprintf("index.(*tagsToSections).Convert/return#%d/nil-error", n), rs.Pos(), "returns a nil error", "Convert can return an error: a ctags entry that cannot be placed fails the whole build instead of being dropped")
		return true
	})
	r.Floor("C37.R1.returns", 1, n)
	// insertions
	g := an.NewG(info, d.Decl.Body)
	var idxObjs []types.Object
	ins := 0
	var overlapVar types.Object
	ast.Inspect(d.Decl.Body, func(nd ast.Node) bool {
		as, ok := nd.(*ast.AssignStmt)
		if ok && len(as.Rhs) == 1 && len(an.CallsTo(info, as.Rhs[0], false, overlaps)) > 0 {
			if id, ok := as.Lhs[0].(*ast.Ident); ok {
				overlapVar = info.ObjectOf(id)
			}
		}
		return true
	})
	if !r.Anchor(overlapVar != nil, "Convert/result of overlaps()") {
		return
	}
	for _, l := range g.Locs(func(ast.Node) bool { return true }) {
		as, ok := g.Node(l).(*ast.AssignStmt)
		if !ok || len(as.Rhs) != 1 {
			continue
		}
		c, ok := ast.Unparen(as.Rhs[0]).(*ast.CallExpr)
		if !ok {
			continue
		}
		cal := an.Callee(info, c)
		if cal == nil || cal.Pkg() == nil || cal.Pkg().Path() != "slices" || cal.Name() != "Insert" {
			continue
		}
		ins++
		if id, ok := ast.Unparen(c.Args[1]).(*ast.Ident); ok {
			idxObjs = append(idxObjs, info.ObjectOf(id))
		} else {
			idxObjs = append(idxObjs, nil)
		}
		guarded := g.GuardedBy(l, func(cond ast.Expr, truth bool) bool {
			// any comparison that rules out overlaps() == -1 on this edge
			f, isCmp := an.IntCompare(info, cond, truth, func(e ast.Expr) bool { return an.UsesObj(info, e, overlapVar) })
			return isCmp && f.Excludes(-1)
		}, nil)
		r.Check(guarded, "C37.R2", fmt.Sprintf("index.(*tagsToSections).Convert/insert#%d/only-without-overlap", ins), as.Pos(), "inserted only when overlaps() did not report an overlap", "a symbol range is inserted although overlaps() reported -1: the shard builder rejects overlapping sections and the build fails")
	}
	same := ins == 2 && idxObjs[0] != nil && idxObjs[0] == idxObjs[1] && idxObjs[0] == overlapVar
	r.Check(same, "C37.R2", "index.(*tagsToSections).Convert/ranges-and-metadata-inserted-at-same-index", d.Decl.Pos(), "ranges and metadata are inserted at the index returned by overlaps()", "the range slice and the metadata slice are not extended at the same index: symbol metadata is attached to the wrong range")
}
