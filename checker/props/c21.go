package props

import (
	"fmt"
	"go/ast"
	"go/token"
	"go/types"
	"sort"
	"strings"

	"golang.org/x/tools/go/ssa"

	"zverif/checker/an"
)

func init() { register("C21", c21) }

func c21(p *an.Prog, r *an.R, tier string) {
	r.Explanation = "C21 (structural clause): limits and cancellation are skip-guards only. In packages index and search every read of SearchOptions.ShardMaxMatchCount / ShardRepoMaxMatchCount / TotalMaxMatchCount is used solely in comparisons that feed branch conditions: it never flows into a slice expression, a stored value, a call argument or a return value (so it cannot truncate a file's matches); in indexData.Search a cancellation test, once it observed cancellation, cannot lead to the current document being added to the result (it can only stop before a document is evaluated). (R3) exactly one call in packages search/index derives a deadline or timer from MaxWallTime. Does NOT decide 'identical matches and branches' (value-level) nor promptness of cancellation."
	r.Rule("C21.R1", "limit reads: the value of a match-count limit flows only into integer comparisons whose result flows only into branch conditions")
	r.Rule("C21.R2", "cancellation: from the edge on which a ctx.Err()/ctx.Done() observation is positive, the append to SearchResult.Files is unreachable without first starting the next document")
	c21Deadline(p, r)
	limits := map[string]bool{"ShardMaxMatchCount": true, "ShardRepoMaxMatchCount": true, "TotalMaxMatchCount": true}
	optsT := p.Named("", "SearchOptions")
	if !r.Anchor(optsT != nil, "zoekt.SearchOptions") {
		return
	}
	// static call sites, for predicate helpers that return a limit comparison
	callSites := map[*ssa.Function][]ssa.CallInstruction{}
	for _, f := range p.SSAFuncs() {
		an.Instrs(f, func(_ *ssa.BasicBlock, in ssa.Instruction) {
			if c, ok := in.(ssa.CallInstruction); ok {
				if callee := c.Common().StaticCallee(); callee != nil {
					callSites[callee] = append(callSites[callee], c)
				}
			}
		})
	}
	c21Callers = func(fn *ssa.Function) []ssa.CallInstruction { return callSites[fn] }
	reads := 0
	for _, f := range p.SSAFuncs() {
		if f.Pkg == nil {
			continue
		}
		pp := f.Pkg.Pkg.Path()
		if pp != an.Mod+"/index" && pp != an.Mod+"/search" {
			continue
		}
		counts := map[string]int{}
		an.Instrs(f, func(b *ssa.BasicBlock, in ssa.Instruction) {
			var v ssa.Value
			name := ""
			switch x := in.(type) {
			case *ssa.UnOp:
				if fa, ok := x.X.(*ssa.FieldAddr); ok && an.NamedOf(fa.X.Type()) == optsT {
					name = an.StructFields(optsT)[fa.Field].Name()
					v = x
				}
			case *ssa.Field:
				if an.NamedOf(x.X.Type()) == optsT {
					name = an.StructFields(optsT)[x.Field].Name()
					v = x
				}
			}
			if v == nil || !limits[name] {
				return
			}
			reads++
			fname := an.SSAName(f)
			r.Fn(fname)
			key := fmt.Sprintf("%s/reads-%s", fname, name)
			counts[key]++
			if counts[key] > 1 {
				key = fmt.Sprintf("%s#%d", key, counts[key])
			}
			bad := c21Flow(v, map[ssa.Value]bool{}, 0)
			r.Check(bad == "", "C21.R1", key, in.Pos(), "the limit is only compared; the comparison only decides a branch", "the match-count limit "+name+" "+bad+": it can shape the matches of a file instead of only deciding whether a whole file is skipped")
		})
	}
	r.Floor("C21.R1.limit-reads", 4, reads)
	c21Cancel(p, r)
}

// c21Flow returns "" if v flows only into comparisons -> branch conditions.
func c21Flow(v ssa.Value, seen map[ssa.Value]bool, depth int) string {
	if seen[v] || v.Referrers() == nil || depth > 12 {
		return ""
	}
	seen[v] = true
	for _, ref := range *v.Referrers() {
		switch x := ref.(type) {
		case *ssa.BinOp:
			switch x.Op.String() {
			case "<", "<=", ">", ">=", "==", "!=":
				if s := c21BoolFlow(x, map[ssa.Value]bool{}, 0); s != "" {
					return s
				}
			default:
				if s := c21Flow(x, seen, depth+1); s != "" {
					return "flows through arithmetic (" + x.Op.String() + ") and then " + s
				}
			}
		case *ssa.Convert, *ssa.ChangeType:
			if s := c21Flow(x.(ssa.Value), seen, depth+1); s != "" {
				return s
			}
		case *ssa.Phi:
			if s := c21Flow(x, seen, depth+1); s != "" {
				return s
			}
		case *ssa.DebugRef:
		case *ssa.Slice:
			return "is used as a slice bound"
		case *ssa.Store:
			return "is stored into memory"
		case *ssa.Return:
			return "is returned"
		case ssa.CallInstruction:
			return "is passed to " + calleeName(x)
		case *ssa.MakeSlice:
			return "sizes an allocation"
		case *ssa.IndexAddr, *ssa.Index:
			return "is used as an index"
		default:
			return fmt.Sprintf("is used by %T", ref)
		}
	}
	return ""
}

// c21Callers returns the static call sites of a function in the loaded module (set by c21).
var c21Callers func(fn *ssa.Function) []ssa.CallInstruction

func c21BoolFlow(v ssa.Value, seen map[ssa.Value]bool, depth int) string {
	if seen[v] || v.Referrers() == nil || depth > 8 {
		return ""
	}
	seen[v] = true
	for _, ref := range *v.Referrers() {
		switch x := ref.(type) {
		case *ssa.If, *ssa.DebugRef:
		case *ssa.Phi:
			if s := c21BoolFlow(x, seen, depth+1); s != "" {
				return s
			}
		case *ssa.UnOp:
			if s := c21BoolFlow(x, seen, depth+1); s != "" {
				return s
			}
		case *ssa.BinOp:
			if s := c21BoolFlow(x, seen, depth+1); s != "" {
				return s
			}
		case *ssa.Return:
			// a predicate helper: the comparison is returned as the function's only (bool) result and every
			// caller uses that result only in branch conditions
			fn := x.Parent()
			if fn == nil || fn.Signature.Results().Len() != 1 || c21Callers == nil {
				return "is compared and the result is returned"
			}
			sites := c21Callers(fn)
			if len(sites) == 0 {
				return "is compared and the result is returned by a function whose callers are not visible"
			}
			for _, site := range sites {
				cv, ok := site.(ssa.Value)
				if !ok {
					return "is compared and the result is returned to a call made for its effect"
				}
				if s := c21BoolFlow(cv, seen, depth+1); s != "" {
					return s
				}
			}
		default:
			return fmt.Sprintf("is compared and the result is used by %T (not a branch)", ref)
		}
	}
	return ""
}

func c21Cancel(p *an.Prog, r *an.R) {
	f := p.Func("index", "(*indexData).Search")
	d := p.Decl(f)
	filesF := p.Field("", "SearchResult", "Files")
	if !r.Anchor(d != nil && filesF != nil, "index.(*indexData).Search / SearchResult.Files") {
		return
	}
	info := d.Pkg.TypesInfo
	g := an.NewG(info, d.Decl.Body)
	// sink and the outermost for statement containing it
	var sink an.Loc
	found := false
	for _, l := range g.Locs(func(n ast.Node) bool { return true }) {
		if as, ok := g.Node(l).(*ast.AssignStmt); ok {
			for _, lh := range as.Lhs {
				if selField(info, lh, filesF) {
					sink, found = l, true
				}
			}
		}
	}
	if !r.Anchor(found, "index.(*indexData).Search/res.Files append") {
		return
	}
	var loop *ast.ForStmt
	ast.Inspect(d.Decl.Body, func(n ast.Node) bool {
		if fs, ok := n.(*ast.ForStmt); ok && loop == nil && fs.Pos() <= g.Node(sink).Pos() && g.Node(sink).End() <= fs.End() {
			loop = fs
		}
		return true
	})
	if !r.Anchor(loop != nil && len(loop.Body.List) > 0, "document loop of indexData.Search") {
		return
	}
	first := loop.Body.List[0]
	isNextDoc := func(l an.Loc) bool {
		n := g.Node(l)
		return n.Pos() >= first.Pos() && n.End() <= first.End()
	}
	// cancellation observers: variables set to true in a `case <-ctx.Done()` clause, and ctx.Err() calls
	ctxObj := types.Object(nil)
	for i := 0; ; i++ {
		pv := an.Param(info, d.Decl, i)
		if pv == nil {
			break
		}
		if pv.Type().String() == "context.Context" {
			ctxObj = pv
		}
	}
	cancelVars := map[types.Object]bool{}
	ast.Inspect(d.Decl.Body, func(n ast.Node) bool {
		cc, ok := n.(*ast.CommClause)
		if !ok || cc.Comm == nil {
			return true
		}
		isDone := false
		ast.Inspect(cc.Comm, func(m ast.Node) bool {
			if c, ok := m.(*ast.CallExpr); ok {
				if se, ok := ast.Unparen(c.Fun).(*ast.SelectorExpr); ok && se.Sel.Name == "Done" && an.UsesObj(info, se.X, ctxObj) {
					isDone = true
				}
			}
			return true
		})
		if !isDone {
			return true
		}
		for _, st := range cc.Body {
			if as, ok := st.(*ast.AssignStmt); ok && len(as.Lhs) == 1 {
				if id, ok := as.Lhs[0].(*ast.Ident); ok {
					if tv := info.Types[as.Rhs[0]]; tv.Value != nil && tv.Value.String() == "true" {
						cancelVars[info.ObjectOf(id)] = true
					}
				}
			}
		}
		return true
	})
	// helpers that poll the context: `func done(ctx) bool { select { case <-ctx.Done(): return true; default: return false } }`
	// or `return ctx.Err() != nil`
	isDoneWrapper := func(c *ast.CallExpr) bool {
		fn := an.Callee(info, c)
		if fn == nil || fn.Pkg() == nil || !an.InModule(fn.Pkg()) {
			return false
		}
		hd := p.Decl(fn)
		if hd == nil || hd.Decl.Body == nil {
			return false
		}
		hi := hd.Pkg.TypesInfo
		// the argument bound to the helper's context parameter must be our context
		ctxIdx := -1
		k := 0
		var hctx types.Object
		for _, f := range hd.Decl.Type.Params.List {
			for _, nm := range f.Names {
				if hi.TypeOf(f.Type).String() == "context.Context" {
					ctxIdx = k
					hctx = hi.ObjectOf(nm)
				}
				k++
			}
		}
		if ctxIdx < 0 || ctxIdx >= len(c.Args) || !an.UsesObj(info, c.Args[ctxIdx], ctxObj) {
			return false
		}
		good, trues := true, 0
		var stack []ast.Node
		ast.Inspect(hd.Decl.Body, func(n ast.Node) bool {
			if n == nil {
				stack = stack[:len(stack)-1]
				return true
			}
			stack = append(stack, n)
			rs, ok := n.(*ast.ReturnStmt)
			if !ok {
				return true
			}
			if len(rs.Results) != 1 {
				good = false
				return true
			}
			res := ast.Unparen(rs.Results[0])
			if tv := hi.Types[res]; tv.Value != nil {
				if tv.Value.String() == "true" {
					trues++
					inDone := false
					for i := len(stack) - 1; i >= 0; i-- {
						if cc, ok := stack[i].(*ast.CommClause); ok && cc.Comm != nil {
							ast.Inspect(cc.Comm, func(m ast.Node) bool {
								if dc, ok := m.(*ast.CallExpr); ok {
									if se, ok := ast.Unparen(dc.Fun).(*ast.SelectorExpr); ok && se.Sel.Name == "Done" && an.UsesObj(hi, se.X, hctx) {
										inDone = true
									}
								}
								return true
							})
						}
					}
					if !inDone {
						good = false
					}
				}
				return true
			}
			// ctx.Err() != nil
			if be, ok := res.(*ast.BinaryExpr); ok && be.Op == token.NEQ && hi.Types[be.Y].IsNil() {
				if ec, ok := ast.Unparen(be.X).(*ast.CallExpr); ok {
					if se, ok := ast.Unparen(ec.Fun).(*ast.SelectorExpr); ok && se.Sel.Name == "Err" && an.UsesObj(hi, se.X, hctx) {
						trues++
						return true
					}
				}
			}
			good = false
			return true
		})
		return good && trues > 0
	}
	ast.Inspect(d.Decl.Body, func(n ast.Node) bool {
		as, ok := n.(*ast.AssignStmt)
		if !ok || len(as.Lhs) != 1 || len(as.Rhs) != 1 {
			return true
		}
		if c, ok := ast.Unparen(as.Rhs[0]).(*ast.CallExpr); ok && isDoneWrapper(c) {
			if id, ok := as.Lhs[0].(*ast.Ident); ok {
				cancelVars[info.ObjectOf(id)] = true
			}
		}
		return true
	})
	observes := func(e ast.Expr, truth bool) bool {
		if c, ok := ast.Unparen(e).(*ast.CallExpr); ok && isDoneWrapper(c) {
			return truth
		}
		// atom is a cancel variable (true = cancelled) or ctx.Err() != nil
		if id, ok := ast.Unparen(e).(*ast.Ident); ok && cancelVars[info.ObjectOf(id)] {
			return truth
		}
		if be, ok := ast.Unparen(e).(*ast.BinaryExpr); ok {
			isErr := func(x ast.Expr) bool {
				c, ok := ast.Unparen(x).(*ast.CallExpr)
				if !ok {
					return false
				}
				se, ok := ast.Unparen(c.Fun).(*ast.SelectorExpr)
				return ok && se.Sel.Name == "Err" && an.UsesObj(info, se.X, ctxObj)
			}
			if isErr(be.X) && info.Types[be.Y].IsNil() {
				return (be.Op.String() == "!=") == truth
			}
		}
		return false
	}
	n := 0
	for _, b := range g.C.Blocks {
		cond := an.CondOf(b)
		if cond == nil {
			continue
		}
		for k := range b.Succs {
			// does taking edge k imply (or possibly include) an observed cancellation?
			implied := g.EdgeImplies(b, k, observes)
			// for `canceled || X` taken true we cannot tell which disjunct held; treat the true edge of a disjunction containing a cancel atom as cancelled too
			if !implied && k == 0 {
				mentions := false
				ast.Inspect(cond, func(m ast.Node) bool {
					if e, ok := m.(ast.Expr); ok && observes(e, true) {
						mentions = true
					}
					return true
				})
				implied = mentions
			}
			if !implied {
				continue
			}
			n++
			start := an.Loc{B: b.Succs[k], I: 0}
			reach := g.Reach(start, false, &an.Search{Target: func(l an.Loc) bool { return l == sink }, Cut: isNextDoc})
			r.Check(!reach, "C21.R2", fmt.Sprintf("index.(*indexData).Search/cancel-observation#%d/stops-before-evaluating", n), cond.Pos(),
				"once cancellation is observed the current document is not added to the result", "after a positive cancellation test the current document can still be added to the result: it may have been evaluated only partially (missing matches, wrong score), so a file returned under cancellation differs from the same file without it")
		}
	}
	r.Floor("C21.R2.cancel-observations", 1, n)
	r.Fn(an.FuncName(f))
}

// c21Deadline: MaxWallTime becomes a deadline in one place only. A second deadline over a part of the work (the
// pre-evaluation of type:repo sub-queries, one shard, the listing phase) lets that part give up early while the rest
// goes on with a fresh budget; shards answer an expired context with an empty result and no error, so the part's
// answer is silently smaller - and where it is used negatively (-type:repo ...) the search returns files it would
// not return without the deadline.
func c21Deadline(p *an.Prog, r *an.R) {
	r.Rule("C21.R3", "in packages search and index exactly one call derives a context deadline or timer from SearchOptions.MaxWallTime (context.WithTimeout/WithDeadline, time.After/NewTimer/AfterFunc): all phases of one search share that deadline")
	sinks := map[string]bool{"context.WithTimeout": true, "context.WithDeadline": true, "time.After": true, "time.NewTimer": true, "time.AfterFunc": true, "time.Tick": true, "time.NewTicker": true}
	type site struct {
		fn  string
		pos token.Pos
	}
	var sites []site
	for _, f := range p.SSAFuncs() {
		if f.Pkg == nil {
			continue
		}
		path := f.Pkg.Pkg.Path()
		if path != an.Mod+"/search" && path != an.Mod+"/index" {
			continue
		}
		if pos := f.Pos(); pos.IsValid() && strings.HasSuffix(p.Fset.Position(pos).Filename, "_test.go") {
			continue
		}
		seen := map[ssa.Value]bool{}
		var follow func(v ssa.Value, depth int)
		follow = func(v ssa.Value, depth int) {
			if v == nil || seen[v] || depth > 8 || v.Referrers() == nil {
				return
			}
			seen[v] = true
			for _, ref := range *v.Referrers() {
				switch x := ref.(type) {
				case *ssa.Call:
					if callee := x.Call.StaticCallee(); callee != nil && callee.Pkg != nil {
						name := callee.Pkg.Pkg.Path() + "." + callee.Name()
						if sinks[name] {
							sites = append(sites, site{an.SSAName(x.Parent()), x.Pos()})
							continue
						}
						// handed to a function of the module: goes on as that function's parameter
						if len(callee.Blocks) > 0 && strings.HasPrefix(callee.Pkg.Pkg.Path(), an.Mod) {
							for i, a := range x.Call.Args {
								if a == v && i < len(callee.Params) {
									follow(callee.Params[i], depth+1)
								}
							}
						}
						// time.Now().Add(d), d.Round(..), min(d, ..): the value goes on
						if callee.Pkg.Pkg.Path() == "time" {
							follow(x, depth+1)
						}
					} else if _, isBuiltin := x.Call.Value.(*ssa.Builtin); isBuiltin {
						follow(x, depth+1)
					}
				case *ssa.BinOp:
					if x.Op != token.EQL && x.Op != token.NEQ && x.Op != token.LSS && x.Op != token.GTR && x.Op != token.LEQ && x.Op != token.GEQ {
						follow(x, depth+1)
					}
				case *ssa.Phi:
					follow(x, depth+1)
				case *ssa.Convert:
					follow(x, depth+1)
				case *ssa.ChangeType:
					follow(x, depth+1)
				case *ssa.Store:
					if al, ok := x.Addr.(*ssa.Alloc); ok && x.Val == v && al.Referrers() != nil {
						for _, r2 := range *al.Referrers() {
							if ld, ok := r2.(*ssa.UnOp); ok && ld.Op == token.MUL {
								follow(ld, depth+1)
							}
						}
					}
				}
			}
		}
		an.Instrs(f, func(_ *ssa.BasicBlock, in ssa.Instruction) {
			var base ssa.Value
			var idx int
			switch x := in.(type) {
			case *ssa.FieldAddr:
				base, idx = x.X, x.Field
			case *ssa.Field:
				base, idx = x.X, x.Field
			default:
				return
			}
			st, ok := an.Deref(base.Type()).Underlying().(*types.Struct)
			if !ok || st.Field(idx).Name() != "MaxWallTime" || an.NamedOf(an.Deref(base.Type())) == nil || an.NamedOf(an.Deref(base.Type())).Obj().Name() != "SearchOptions" {
				return
			}
			v := in.(ssa.Value)
			if fa, ok := in.(*ssa.FieldAddr); ok && fa.Referrers() != nil {
				for _, ref := range *fa.Referrers() {
					if ld, ok := ref.(*ssa.UnOp); ok && ld.Op == token.MUL {
						follow(ld, 0)
					}
				}
				return
			}
			follow(v, 0)
		})
	}
	sort.Slice(sites, func(i, j int) bool { return sites[i].pos < sites[j].pos })
	// one sink reached along several call paths is one site
	uniq := sites[:0]
	for i, st := range sites {
		if i == 0 || st.pos != sites[i-1].pos {
			uniq = append(uniq, st)
		}
	}
	sites = uniq
	key := "search+index/deadline-derived-from-MaxWallTime/single-site"
	switch {
	case len(sites) == 0:
		r.Und("C21.R3", key, token.NoPos, "no call derives a deadline from SearchOptions.MaxWallTime in packages search/index: the rule does not see where the wall-time limit is applied")
	case len(sites) == 1:
		r.OK("C21.R3", key, sites[0].pos, "the only deadline derived from MaxWallTime is set in "+sites[0].fn)
	default:
		var names []string
		for _, s := range sites {
			names = append(names, s.fn+" ("+p.Pos(s.pos)+")")
		}
		r.Bad("C21.R3", key, sites[len(sites)-1].pos, "MaxWallTime is turned into a deadline in more than one place: "+strings.Join(names, ", ")+". A phase that runs under a deadline of its own can give up while the rest of the search continues on a fresh budget; shards answer an expired context with an empty result and no error, so e.g. a negated type:repo sub-query excludes fewer repositories and the search returns files that it does not return without the wall-time limit")
	}
}
