package props

import (
	"fmt"
	"go/token"
	"go/types"
	"strings"

	"golang.org/x/tools/go/ssa"

	"zverif/checker/an"
)

func init() { register("C29", c29) }

func c29(p *an.Prog, r *an.R, tier string) {
	r.Explanation = "C29 (structural clauses): debug neutrality and comparator purity. SearchOptions.DebugScore (and every bool parameter it is passed to) controls only string-valued effects: every instruction that is control-dependent on the flag stores strings, formats strings or builds their arguments; no numeric store, return or other call depends on it, and no non-string value differs after the region. The three sort comparators used for result ordering (line matches, chunk matches, file matches) are exactly `m[i].Score > m[j].Score`. Does NOT decide determinism, finiteness of scores (division by runtime lengths) or the ordering invariants themselves."
	r.Rule("C29.R1", "every region controlled by the debug flag contains only string-producing instructions; phis merging out of the region are string-typed; the flag is only passed to bool parameters that obey the same rule")
	r.Rule("C29.R2", "matchScoreSlice.Less, chunkMatchScoreSlice.Less and fileMatchesByScore.Less return exactly m[i].Score > m[j].Score")
	optsT := p.Named("", "SearchOptions")
	if !r.Anchor(optsT != nil, "zoekt.SearchOptions") {
		return
	}
	inScope := func(f *ssa.Function) bool {
		if f.Pkg == nil {
			return false
		}
		pp := f.Pkg.Pkg.Path()
		return pp == an.Mod+"/index" || pp == an.Mod+"/search" || (pp == an.Mod && strings.Contains(an.SSAName(f), "AddScore"))
	}
	// flag values: loads of DebugScore + bool params that receive a flag
	flagParams := map[*ssa.Parameter]bool{}
	isFlagLoad := func(v ssa.Value) bool {
		switch x := v.(type) {
		case *ssa.UnOp:
			if fa, ok := x.X.(*ssa.FieldAddr); ok && x.Op == token.MUL && an.NamedOf(fa.X.Type()) == optsT {
				return an.StructFields(optsT)[fa.Field].Name() == "DebugScore"
			}
		case *ssa.Field:
			if an.NamedOf(x.X.Type()) == optsT {
				return an.StructFields(optsT)[x.Field].Name() == "DebugScore"
			}
		case *ssa.Parameter:
			return flagParams[x]
		}
		return false
	}
	var fns []*ssa.Function
	for _, f := range p.SSAFuncs() {
		if inScope(f) {
			fns = append(fns, f)
		}
	}
	// discover flag parameters (fixpoint over call sites)
	for changed := true; changed; {
		changed = false
		for _, f := range fns {
			an.Instrs(f, func(b *ssa.BasicBlock, in ssa.Instruction) {
				c, ok := in.(ssa.CallInstruction)
				if !ok {
					return
				}
				for i, a := range c.Common().Args {
					if !isFlagLoad(a) {
						continue
					}
					callee := c.Common().StaticCallee()
					if callee == nil || callee.Blocks == nil || !an.InModule(callee.Pkg.Pkg) {
						r.Bad("C29.R1", an.SSAName(f)+"/debug-flag-passed-to/"+calleeName(c), in.Pos(), "the debug flag is handed to "+calleeName(c)+", whose use of it cannot be checked")
						continue
					}
					if i < len(callee.Params) && !flagParams[callee.Params[i]] {
						flagParams[callee.Params[i]] = true
						changed = true
						found := false
						for _, g := range fns {
							if g == callee {
								found = true
							}
						}
						if !found {
							fns = append(fns, callee)
						}
					}
				}
			})
		}
	}
	stringish := func(t types.Type) bool {
		b, ok := t.Underlying().(*types.Basic)
		return ok && b.Info()&types.IsString != 0
	}
	okCallee := func(c ssa.CallInstruction) bool {
		if bi, ok := c.Common().Value.(*ssa.Builtin); ok {
			return bi.Name() == "len" || bi.Name() == "append" && false
		}
		cal := an.CalleeAny(c)
		if cal == nil || cal.Pkg() == nil {
			return false
		}
		switch cal.Pkg().Path() {
		case "fmt":
			if strings.HasPrefix(cal.Name(), "Fprint") && len(c.Common().Args) > 0 {
				// formatting into a local strings.Builder / bytes.Buffer
				w := c.Common().Args[0]
				if mi, ok := w.(*ssa.MakeInterface); ok {
					w = mi.X
				}
				if al, ok := w.(*ssa.Alloc); ok {
					tn := an.TypeName(an.Deref(al.Type()))
					return tn == "strings.Builder" || tn == "bytes.Buffer"
				}
				return false
			}
			return strings.HasPrefix(cal.Name(), "Sprint") || cal.Name() == "Appendf"
		case "strings", "strconv":
			return true
		}
		return false
	}
	regions := 0
	for _, f := range fns {
		fname := an.SSAName(f)
		an.Instrs(f, func(b *ssa.BasicBlock, in ssa.Instruction) {
			iff, ok := in.(*ssa.If)
			if !ok {
				return
			}
			cond := iff.Cond
			neg := false
			for {
				if u, ok := cond.(*ssa.UnOp); ok && u.Op == token.NOT {
					cond = u.X
					neg = !neg
					continue
				}
				break
			}
			if !isFlagLoad(cond) {
				return
			}
			regions++
			r.Fn(fname)
			key := fmt.Sprintf("%s/debug-region#%d", fname, regions)
			// regions of both successors that are dominated by that successor
			var bad []string
			for k, succ := range b.Succs {
				if len(succ.Preds) != 1 {
					continue // the join itself
				}
				_ = k
				for _, rb := range f.Blocks {
					if !succ.Dominates(rb) {
						continue
					}
					for _, ri := range rb.Instrs {
						switch x := ri.(type) {
						case *ssa.Store:
							if !stringish(x.Val.Type()) {
								// stores into the varargs array of a fmt call are fine
								if _, isIA := x.Addr.(*ssa.IndexAddr); isIA {
									continue
								}
								bad = append(bad, fmt.Sprintf("stores a %s at %s", x.Val.Type(), p.Pos(x.Pos())))
							}
						case *ssa.Return:
							bad = append(bad, "returns at "+p.Pos(x.Pos()))
						case *ssa.MapUpdate:
							bad = append(bad, "updates a map at "+p.Pos(x.Pos()))
						case *ssa.Send, *ssa.Go, *ssa.Defer, *ssa.Panic:
							bad = append(bad, fmt.Sprintf("%T at %s", x, p.Pos(x.Pos())))
						case ssa.CallInstruction:
							if !okCallee(x) {
								// calls that pass the flag on to a checked parameter are fine
								passes := false
								for _, a := range x.Common().Args {
									if isFlagLoad(a) {
										passes = true
									}
								}
								if !passes {
									bad = append(bad, "calls "+calleeName(x)+" at "+p.Pos(x.Pos()))
								}
							}
						}
					}
				}
			}
			// phis at blocks reached from the region that merge region values: must be strings
			for _, rb := range f.Blocks {
				for _, ri := range rb.Instrs {
					phi, ok := ri.(*ssa.Phi)
					if !ok {
						break
					}
					if stringish(phi.Type()) {
						continue
					}
					// does one incoming edge come from inside a region and differ from the others?
					fromRegion := false
					for ei, pred := range rb.Preds {
						for _, succ := range b.Succs {
							if len(succ.Preds) == 1 && succ.Dominates(pred) {
								for ej := range rb.Preds {
									if ej != ei && phi.Edges[ej] != phi.Edges[ei] {
										fromRegion = true
									}
								}
							}
						}
					}
					if fromRegion {
						bad = append(bad, fmt.Sprintf("a %s value differs after the region (phi at %s)", phi.Type(), p.Pos(phi.Pos())))
					}
				}
			}
			r.Check(len(bad) == 0, "C29.R1", key, iff.Cond.Pos(), "only string-valued effects are controlled by the debug flag", "the debug flag controls a non-string effect: "+strings.Join(bad, "; ")+" - turning score debugging on can change scores or order")
		})
	}
	r.Floor("C29.R1.debug-controlled-regions", 6, regions)
	r.Extra["C29.R1.flag_parameters"] = len(flagParams)
	// R2
	for _, tn := range []string{"matchScoreSlice", "chunkMatchScoreSlice", "fileMatchesByScore"} {
		f := p.Func("index", tn+".Less")
		d := p.Decl(f)
		if !r.Anchor(d != nil, "index."+tn+".Less") {
			continue
		}
		r.Fn(an.FuncName(f))
		// on SSA (locals and operand order are normalised away): every return is
		// Score(m[i]) > Score(m[j]) or Score(m[j]) < Score(m[i])
		ok := false
		if sf := p.SSAFunc(f); sf != nil && len(sf.Params) == 3 {
			pi, pj := sf.Params[1], sf.Params[2]
			var scoreOf func(v ssa.Value) ssa.Value
			scoreOf = func(v ssa.Value) ssa.Value {
				switch x := v.(type) {
				case *ssa.UnOp: // load
					if x.Op != token.MUL {
						return nil
					}
					if fa, isFA := x.X.(*ssa.FieldAddr); isFA {
						if st, isS := an.Deref(fa.X.Type()).Underlying().(*types.Struct); isS && st.Field(fa.Field).Name() == "Score" {
							if ia, isIA := fa.X.(*ssa.IndexAddr); isIA {
								return ia.Index
							}
						}
					}
				case *ssa.Field:
					if st, isS := x.X.Type().Underlying().(*types.Struct); isS && st.Field(x.Field).Name() == "Score" {
						if ld, isL := x.X.(*ssa.UnOp); isL && ld.Op == token.MUL {
							if ia, isIA := ld.X.(*ssa.IndexAddr); isIA {
								return ia.Index
							}
						}
					}
				}
				return nil
			}
			rets, good := 0, 0
			an.Instrs(sf, func(b *ssa.BasicBlock, in ssa.Instruction) {
				rt, isR := in.(*ssa.Return)
				if !isR || len(rt.Results) != 1 {
					return
				}
				rets++
				bo, isB := rt.Results[0].(*ssa.BinOp)
				if !isB {
					return
				}
				x, y := scoreOf(bo.X), scoreOf(bo.Y)
				if (bo.Op == token.GTR && x == ssa.Value(pi) && y == ssa.Value(pj)) || (bo.Op == token.LSS && x == ssa.Value(pj) && y == ssa.Value(pi)) {
					good++
				}
			})
			ok = rets > 0 && rets == good
		}
		r.Check(ok, "C29.R2", an.FuncName(f)+"/is-score-descending", d.Decl.Pos(), "Less(i, j) is m[i].Score > m[j].Score", "the comparator is not the plain strict comparison of scores: results are no longer ordered by non-increasing score (or the comparator is not a strict weak order)")
	}
}
