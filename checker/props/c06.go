package props

import (
	"fmt"
	"go/ast"
	"go/token"
	"go/types"
	"os"
	"path/filepath"
	"regexp"
	"sort"
	"strings"

	"zverif/checker/an"
)

func init() { register("C06", c06) }

func c06(p *an.Prog, r *an.R, tier string) {
	r.Explanation = "C06 (structural clause): the field table of doc/query_syntax.md and the parser's tables agree: the documented field prefixes and aliases are exactly the keys of query.prefixes, every alias maps to the same token as its field, for each field with an enumerated value set (archived, case, fork, public, type) the documented values are exactly the string cases the parser accepts, and `or` is the only reserved word. Does NOT decide precedence, grouping, scoping of case:/type:, quoting and escapes, or case:auto (all behavioural)."
	r.Rule("C06.R1", "documented fields ∪ aliases == keys(query.prefixes) (meta.<field>: <-> \"meta.\")")
	r.Rule("C06.R2", "for archived/case/fork/public/type: documented values == string-constant cases of the inner `switch text` of the corresponding `case tokX` in parseExpr")
	r.Rule("C06.R3", "an alias maps to the same token constant as its field")
	r.Rule("C06.R4", "keys(query.reservedWords) == {or}")
	docPath := filepath.Join(p.Dir, "doc", "query_syntax.md")
	raw, err := os.ReadFile(docPath)
	if !r.Anchor(err == nil, "doc/query_syntax.md") {
		return
	}
	type row struct {
		field   string
		aliases []string
		values  []string
		line    int
	}
	var rows []row
	tick := regexp.MustCompile("`([^`]*)`")
	inTable := false
	for i, line := range strings.Split(string(raw), "\n") {
		if !strings.HasPrefix(line, "|") {
			inTable = false
			continue
		}
		cells := strings.Split(strings.Trim(line, "|"), "|")
		if len(cells) >= 3 && strings.TrimSpace(cells[0]) == "Field" && strings.TrimSpace(cells[1]) == "Aliases" {
			inTable = true
			continue
		}
		if !inTable || len(cells) < 3 || strings.HasPrefix(strings.TrimSpace(cells[0]), "-") {
			continue
		}
		f := tick.FindStringSubmatch(cells[0])
		if f == nil {
			continue
		}
		rw := row{field: f[1], line: i + 1}
		for _, a := range tick.FindAllStringSubmatch(cells[1], -1) {
			rw.aliases = append(rw.aliases, a[1])
		}
		for _, v := range tick.FindAllStringSubmatch(cells[2], -1) {
			rw.values = append(rw.values, v[1])
		}
		rows = append(rows, rw)
	}
	if !r.Anchor(len(rows) >= 10, fmt.Sprintf("field table of doc/query_syntax.md (found %d rows)", len(rows))) {
		return
	}
	r.Floor("C06.R1.documented-fields", 13, len(rows))
	// parser tables
	qp := p.Pkg("query")
	info := qp.TypesInfo
	mapLit := func(name string) map[string]types.Object {
		out := map[string]types.Object{}
		for _, f := range qp.Syntax {
			ast.Inspect(f, func(n ast.Node) bool {
				vs, ok := n.(*ast.ValueSpec)
				if !ok || len(vs.Names) != 1 || vs.Names[0].Name != name || len(vs.Values) != 1 {
					return true
				}
				cl, ok := vs.Values[0].(*ast.CompositeLit)
				if !ok {
					return true
				}
				for _, e := range cl.Elts {
					kv, ok := e.(*ast.KeyValueExpr)
					if !ok {
						continue
					}
					k, ok := an.StringConst(info, kv.Key)
					if !ok {
						continue
					}
					var obj types.Object
					if id, ok := kv.Value.(*ast.Ident); ok {
						obj = info.Uses[id]
					}
					out[k] = obj
				}
				return true
			})
		}
		return out
	}
	prefixes := mapLit("prefixes")
	reserved := mapLit("reservedWords")
	if !r.Anchor(len(prefixes) >= 10 && len(reserved) >= 1, "query.prefixes / query.reservedWords literals") {
		return
	}
	norm := func(s string) string {
		if strings.HasPrefix(s, "meta.") {
			return "meta."
		}
		return s
	}
	documented := map[string]string{} // prefix -> field it belongs to
	for _, rw := range rows {
		documented[norm(rw.field)] = rw.field
		for _, a := range rw.aliases {
			documented[norm(a)] = rw.field
		}
	}
	var all []string
	for k := range documented {
		all = append(all, k)
	}
	for k := range prefixes {
		if _, ok := documented[k]; !ok {
			all = append(all, k)
		}
	}
	sort.Strings(all)
	for _, k := range all {
		_, inDoc := documented[k]
		_, inParser := prefixes[k]
		switch {
		case inDoc && inParser:
			r.OK("C06.R1", "field-prefix/"+k, 0, "documented and accepted by the parser")
		case inDoc:
			r.Bad("C06.R1", "field-prefix/"+k+"/documented-but-not-parsed", 0, "doc/query_syntax.md documents the prefix "+k+" but query.prefixes has no such key: the documented filter is parsed as plain text")
		default:
			r.Bad("C06.R1", "field-prefix/"+k+"/parsed-but-not-documented", 0, "query.prefixes accepts the prefix "+k+" which doc/query_syntax.md does not document: strings the documentation describes as text are interpreted as a filter")
		}
	}
	// R3
	for _, rw := range rows {
		for _, a := range rw.aliases {
			fo, ao := prefixes[norm(rw.field)], prefixes[norm(a)]
			if fo == nil || ao == nil {
				continue
			}
			r.Check(fo == ao, "C06.R3", "alias/"+a+"->"+rw.field, 0, "alias and field map to the same token "+fo.Name(), fmt.Sprintf("alias %s maps to %s but its field %s maps to %s: the alias selects a different filter than documented", a, ao.Name(), rw.field, fo.Name()))
		}
	}
	// R4
	var rk []string
	for k := range reserved {
		rk = append(rk, k)
	}
	sort.Strings(rk)
	r.Check(len(rk) == 1 && rk[0] == "or", "C06.R4", "reserved-words", 0, "`or` is the only reserved word", fmt.Sprintf("the reserved words are %v; the documentation says only lowercase `or` is an operator (and that `and` is not)", rk))
	// R2: enumerated values
	pd := p.Decl(p.Func("query", "parseExpr"))
	if !r.Anchor(pd != nil, "query.parseExpr") {
		return
	}
	r.Fn("query.parseExpr")
	accepted := map[string][]string{} // token const name -> accepted strings
	ast.Inspect(pd.Decl.Body, func(n ast.Node) bool {
		cc, ok := n.(*ast.CaseClause)
		if !ok || len(cc.List) == 0 {
			return true
		}
		var tokName string
		for _, e := range cc.List {
			if id, ok := e.(*ast.Ident); ok && strings.HasPrefix(id.Name, "tok") {
				tokName = id.Name
			}
		}
		if tokName == "" {
			return true
		}
		seen := map[string]bool{}
		add := func(s string) {
			if !seen[s] {
				seen[s] = true
				accepted[tokName] = append(accepted[tokName], s)
			}
		}
		for _, st := range cc.Body {
			if sw, ok := st.(*ast.SwitchStmt); ok {
				if id, ok := sw.Tag.(*ast.Ident); ok && id.Name == "text" {
					for _, c := range sw.Body.List {
						for _, e := range c.(*ast.CaseClause).List {
							if s, ok := an.StringConst(info, e); ok {
								add(s)
							}
						}
					}
				}
				continue
			}
			// the enumeration may live in a helper that is handed `text`: parseYesNo(name, text, ..)
			ast.Inspect(st, func(m ast.Node) bool {
				c, ok := m.(*ast.CallExpr)
				if !ok {
					return true
				}
				h := an.Callee(info, c)
				if h == nil || h.Pkg() == nil || !an.InModule(h.Pkg()) {
					return true
				}
				hd := p.Decl(h)
				if hd == nil || hd.Decl.Body == nil || hd.Pkg.TypesInfo != info {
					return true
				}
				for i, a := range c.Args {
					id, ok := ast.Unparen(a).(*ast.Ident)
					if !ok || id.Name != "text" {
						continue
					}
					pv := an.Param(info, hd.Decl, i)
					if pv == nil {
						continue
					}
					ast.Inspect(hd.Decl.Body, func(k ast.Node) bool {
						switch x := k.(type) {
						case *ast.SwitchStmt:
							if x.Tag != nil && isIdentOf(info, x.Tag, pv) {
								for _, cc2 := range x.Body.List {
									for _, e := range cc2.(*ast.CaseClause).List {
										if sv, ok := an.StringConst(info, e); ok {
											add(sv)
										}
									}
								}
							}
						case *ast.BinaryExpr:
							if x.Op == token.EQL || x.Op == token.NEQ {
								for _, pr := range [][2]ast.Expr{{x.X, x.Y}, {x.Y, x.X}} {
									if isIdentOf(info, pr[0], pv) {
										if sv, ok := an.StringConst(info, pr[1]); ok {
											add(sv)
										}
									}
								}
							}
						}
						return true
					})
				}
				return true
			})
			// the same enumeration written as comparisons: `if text != "yes" && text != "no" {error}`,
			// `if text == "yes" {..} else if text == "no" {..} else {error}`
			if is, ok := st.(*ast.IfStmt); ok {
				var conds []ast.Expr
				for cur := is; cur != nil; {
					conds = append(conds, cur.Cond)
					next, _ := cur.Else.(*ast.IfStmt)
					cur = next
				}
				for _, c := range conds {
					ast.Inspect(c, func(m ast.Node) bool {
						be, ok := m.(*ast.BinaryExpr)
						if !ok || (be.Op != token.EQL && be.Op != token.NEQ) {
							return true
						}
						for _, pr := range [][2]ast.Expr{{be.X, be.Y}, {be.Y, be.X}} {
							if id, ok := ast.Unparen(pr[0]).(*ast.Ident); ok && id.Name == "text" {
								if s, ok := an.StringConst(info, pr[1]); ok {
									add(s)
								}
							}
						}
						return true
					})
				}
			}
		}
		return true
	})
	n := 0
	for _, rw := range rows {
		obj := prefixes[norm(rw.field)]
		if obj == nil {
			continue
		}
		acc, isEnum := accepted[obj.Name()]
		if !isEnum {
			continue
		}
		n++
		doc := append([]string(nil), rw.values...)
		sort.Strings(doc)
		sort.Strings(acc)
		r.Check(strings.Join(doc, ",") == strings.Join(acc, ","), "C06.R2", "values/"+rw.field, 0, fmt.Sprintf("documented %v == accepted %v", doc, acc), fmt.Sprintf("the documentation lists the values %v for %s but the parser accepts %v", doc, rw.field, acc))
	}
	r.Floor("C06.R2.enumerated-fields", 5, n)
	c06Lower(p, r)
}

// c06Lower: case:auto decides by comparing a regexp with its lower-cased
// copy; the lowering must reach the literals below every operator.
func c06Lower(p *an.Prog, r *an.R) {
	r.Rule("C06.R5", "LowerRegexp descends into the sub-expressions of every regexp operator that has them (explicit case or the default arm maps over Sub): otherwise an upper-case letter below that operator does not make case:auto case-sensitive")
	d := p.Decl(p.Func("query", "LowerRegexp"))
	syn := p.TPkgs["regexp/syntax"]
	if !r.Anchor(d != nil && syn != nil, "query.LowerRegexp / regexp/syntax") {
		return
	}
	r.Fn("query.LowerRegexp")
	info := d.Pkg.TypesInfo
	var sw *ast.SwitchStmt
	ast.Inspect(d.Decl.Body, func(n ast.Node) bool {
		if s, ok := n.(*ast.SwitchStmt); ok && sw == nil {
			sw = s
		}
		return true
	})
	if !r.Anchor(sw != nil, "query.LowerRegexp/switch on Op") {
		return
	}
	recurses := func(body []ast.Stmt) bool {
		f := false
		for _, st := range body {
			ast.Inspect(st, func(m ast.Node) bool {
				if se, ok := m.(*ast.SelectorExpr); ok && se.Sel.Name == "Sub" {
					f = true
				}
				return true
			})
		}
		return f
	}
	handled := map[string]bool{}
	defaultRec := false
	for _, c := range sw.Body.List {
		cc := c.(*ast.CaseClause)
		if cc.List == nil {
			defaultRec = recurses(cc.Body)
			continue
		}
		for _, e := range cc.List {
			if se, ok := ast.Unparen(e).(*ast.SelectorExpr); ok {
				if co, ok := info.Uses[se.Sel].(*types.Const); ok && recurses(cc.Body) {
					handled[co.Name()] = true
				} else if ok {
					handled[co.Name()+"(no-recursion)"] = true
				}
			}
		}
	}
	for _, op := range []string{"OpCapture", "OpStar", "OpPlus", "OpQuest", "OpRepeat", "OpConcat", "OpAlternate"} {
		if !r.Anchor(syn.Scope().Lookup(op) != nil, "regexp/syntax."+op) {
			continue
		}
		ok := handled[op] || (defaultRec && !handled[op+"(no-recursion)"])
		r.Check(ok, "C06.R5", "query.LowerRegexp/descends-into/"+op, sw.Pos(), "sub-expressions of this operator are lower-cased too", "LowerRegexp does not descend into "+op+": a pattern whose only upper-case letters sit below that operator compares equal to its lowered copy and is searched case-insensitively under case:auto")
	}
}
