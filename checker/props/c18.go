package props

import (
	"go/ast"
	"go/token"
	"go/types"
	"sort"
	"strconv"
	"strings"

	"golang.org/x/tools/go/cfg"

	"zverif/checker/an"
)

func init() { register("C18", c18) }

func c18(p *an.Prog, r *an.R, tier string) {
	r.Explanation = "C18 (structural clauses): shard pre-selection drops a shard only when none of its repositories satisfies the filter, and rewrites the filter only when every selected shard is known to satisfy it completely; the repository predicate used for pre-selection reads the same query and repository fields as the per-shard evaluation of the same atom (index.indexData.simplify); a BranchesRepos filter is replaced by an exact branch filter only when it has a single branch entry; typeRepoSearcher overrides every query-taking method of the streamer, evaluates type:repo first and forwards the evaluated query; it replaces only type:repo nodes and lists their child; List stores a copy of the first entry of a repository and adds the statistics of every further one. (R7) a type:repo node is replaced only through the List call for its own child; (R5) siblings agree on comma-ok vs plain lookups of repository map fields. Does NOT decide the equality of results with per-shard search for given shard sets and queries (which repositories satisfy which filter, branch names, compound shard composition are values)."
	c18Select(p, r)
	c18Siblings(p, r)
	c18TypeRepo(p, r)
	c18List(p, r)
}

// edgeFact: does taking successor k of block b establish the fact.
func edgeFact(g *an.G, b *cfg.Block, k int, holds func(atom ast.Expr, truth bool) bool) bool {
	return g.EdgeImplies(b, k, holds)
}

func isIdentOf(info *types.Info, e ast.Expr, obj types.Object) bool {
	id, ok := ast.Unparen(e).(*ast.Ident)
	return ok && obj != nil && info.ObjectOf(id) == obj
}

func c18Select(p *an.Prog, r *an.R) {
	r.Rule("C18.R1", "doSelectRepoSet stores into and.Children only where filteredAll is known true and filtered is non-empty")
	r.Rule("C18.R2", "every append of a shard to filtered is accompanied, in the same iteration, by filteredAll = false or filteredAll = filteredAll && all")
	r.Rule("C18.R3", "an iteration over the shards finishes without appending the shard only through the false edge of the `any` result of the repository predicate")
	r.Rule("C18.R4", "a BranchesRepos child is replaced only when len(List) == 1, by a Branch filter with Exact: true and the Branch of List[0]")
	f := p.Func("search", "doSelectRepoSet")
	d := p.Decl(f)
	if !r.Anchor(d != nil, "search.doSelectRepoSet") {
		return
	}
	r.Fn(an.FuncName(f))
	info := d.Pkg.TypesInfo
	g := an.NewG(info, d.Decl.Body)
	and := an.Param(info, d.Decl, 1)
	// The shard loop: a range loop whose body assigns two results of a call to a func-typed value
	// returning (bool, bool) - the (any, all) test of the repository predicate. It lives in
	// doSelectRepoSet itself or in a helper of the package that doSelectRepoSet calls.
	type loopSite struct {
		d                 *an.DeclInfo
		fn                *types.Func
		g                 *an.G
		loop              *ast.RangeStmt
		anyVar, allVar    types.Object
		filtered, allFlag types.Object
	}
	findLoop := func(fn *types.Func, dd *an.DeclInfo) *loopSite {
		var ls *loopSite
		ast.Inspect(dd.Decl.Body, func(n ast.Node) bool {
			rs, ok := n.(*ast.RangeStmt)
			if !ok {
				return true
			}
			ast.Inspect(rs.Body, func(m ast.Node) bool {
				as, ok := m.(*ast.AssignStmt)
				if !ok || len(as.Lhs) != 2 || len(as.Rhs) != 1 {
					return true
				}
				c, ok := ast.Unparen(as.Rhs[0]).(*ast.CallExpr)
				if !ok {
					return true
				}
				fid, ok := ast.Unparen(c.Fun).(*ast.Ident)
				if !ok {
					return true
				}
				v, ok := info.ObjectOf(fid).(*types.Var)
				if !ok {
					return true
				}
				sig, ok := v.Type().Underlying().(*types.Signature)
				if !ok || sig.Results().Len() != 2 || sig.Results().At(0).Type().String() != "bool" || sig.Results().At(1).Type().String() != "bool" {
					return true
				}
				a, okA := as.Lhs[0].(*ast.Ident)
				b, okB := as.Lhs[1].(*ast.Ident)
				if okA && okB {
					ls = &loopSite{d: dd, fn: fn, loop: rs, anyVar: info.ObjectOf(a), allVar: info.ObjectOf(b)}
				}
				return true
			})
			return true
		})
		if ls == nil {
			return nil
		}
		// filtered: the slice appended to inside the loop; allFlag: the bool assigned `false` or `x && all` inside it
		ast.Inspect(ls.loop.Body, func(m ast.Node) bool {
			as, ok := m.(*ast.AssignStmt)
			if !ok || len(as.Lhs) != 1 || len(as.Rhs) != 1 {
				return true
			}
			id, ok := as.Lhs[0].(*ast.Ident)
			if !ok {
				return true
			}
			if c, ok := ast.Unparen(as.Rhs[0]).(*ast.CallExpr); ok && an.IsBuiltin(info, c, "append") && isIdentOf(info, c.Args[0], info.ObjectOf(id)) {
				ls.filtered = info.ObjectOf(id)
			}
			if be, ok := ast.Unparen(as.Rhs[0]).(*ast.BinaryExpr); ok && be.Op == token.LAND && (isIdentOf(info, be.X, ls.allVar) || isIdentOf(info, be.Y, ls.allVar)) {
				ls.allFlag = info.ObjectOf(id)
			}
			return true
		})
		ls.g = an.NewG(info, dd.Decl.Body)
		return ls
	}
	site := findLoop(f, d)
	if site == nil {
		p.AllDecls(func(hf *types.Func, hd *an.DeclInfo) {
			if site != nil || hd.Pkg != d.Pkg || hd.Decl.Body == nil || hf == f || len(an.CallsTo(info, d.Decl.Body, false, hf)) == 0 {
				return
			}
			site = findLoop(hf, hd)
		})
	}
	if !r.Anchor(and != nil && site != nil && site.filtered != nil && site.allFlag != nil, "doSelectRepoSet (or a helper it calls): loop over shards applying the (any, all) predicate test") {
		return
	}
	r.Fn(an.FuncName(site.fn))
	// in doSelectRepoSet itself: filtered / filteredAll are the loop's variables, or the two results of the helper
	filtered, filteredAll := site.filtered, site.allFlag
	if site.fn != f {
		filtered, filteredAll = nil, nil
		ast.Inspect(d.Decl.Body, func(n ast.Node) bool {
			as, ok := n.(*ast.AssignStmt)
			if !ok || len(as.Lhs) != 2 || len(as.Rhs) != 1 {
				return true
			}
			if c, ok := ast.Unparen(as.Rhs[0]).(*ast.CallExpr); ok && an.Callee(info, c) == site.fn {
				if a, ok := as.Lhs[0].(*ast.Ident); ok {
					filtered = info.ObjectOf(a)
				}
				if b, ok := as.Lhs[1].(*ast.Ident); ok {
					filteredAll = info.ObjectOf(b)
				}
			}
			return true
		})
		// the helper must return exactly (the appended slice, the flag)
		retOK := true
		ast.Inspect(site.d.Decl.Body, func(n ast.Node) bool {
			if _, isLit := n.(*ast.FuncLit); isLit {
				return false
			}
			if rs, ok := n.(*ast.ReturnStmt); ok {
				if len(rs.Results) != 2 || !isIdentOf(info, rs.Results[0], site.filtered) || !isIdentOf(info, rs.Results[1], site.allFlag) {
					retOK = false
				}
			}
			return true
		})
		if !r.Anchor(filtered != nil && filteredAll != nil && retOK, "doSelectRepoSet: results of "+an.FuncName(site.fn)+" (selected shards, all-match flag)") {
			return
		}
	}
	shardLoop, anyVar, allVar := site.loop, site.anyVar, site.allVar
	lg := site.g
	lname := an.FuncName(site.fn)
	isAppendIn := func(gg *an.G, obj types.Object) func(l an.Loc) bool {
		return func(l an.Loc) bool {
			as, ok := gg.Node(l).(*ast.AssignStmt)
			if !ok || len(as.Lhs) != 1 || !isIdentOf(info, as.Lhs[0], obj) {
				return false
			}
			c, ok := ast.Unparen(as.Rhs[0]).(*ast.CallExpr)
			return ok && an.IsBuiltin(info, c, "append")
		}
	}
	isAllUpdateIn := func(gg *an.G, obj types.Object) func(l an.Loc) bool {
		return func(l an.Loc) bool {
			as, ok := gg.Node(l).(*ast.AssignStmt)
			if !ok || len(as.Lhs) != 1 || !isIdentOf(info, as.Lhs[0], obj) || as.Tok == token.DEFINE {
				return false
			}
			if tv := info.Types[as.Rhs[0]]; tv.Value != nil {
				return tv.Value.String() == "false"
			}
			be, ok := ast.Unparen(as.Rhs[0]).(*ast.BinaryExpr)
			if !ok || be.Op != token.LAND {
				return false
			}
			return (isIdentOf(info, be.X, obj) && isIdentOf(info, be.Y, allVar)) || (isIdentOf(info, be.Y, obj) && isIdentOf(info, be.X, allVar))
		}
	}
	lAppend, lAllUpdate := isAppendIn(lg, site.filtered), isAllUpdateIn(lg, site.allFlag)
	isAppend, isAllUpdate := isAppendIn(g, filtered), isAllUpdateIn(g, filteredAll)
	inLoop := func(l an.Loc) bool {
		n := lg.Node(l)
		return shardLoop.Body.Pos() <= n.Pos() && n.End() <= shardLoop.Body.End()
	}
	nextIter := func(l an.Loc) bool {
		n := lg.Node(l)
		return n == ast.Node(shardLoop.Value) || n == ast.Node(shardLoop.Key) || n.Pos() > shardLoop.End()
	}
	first, okFirst := lg.FirstIn(shardLoop.Body.List[0])
	if !okFirst {
		r.Und("C18.R3", lname+"/shard-loop", shardLoop.Pos(), "first statement of the loop body not in the CFG")
		return
	}
	// R2
	nApp := 0
	for _, l := range lg.Locs(func(ast.Node) bool { return true }) {
		if !lAppend(l) || !inLoop(l) {
			continue
		}
		nApp++
		fwd := lg.Reach(l, true, &an.Search{Target: nextIter, Cut: lAllUpdate, ExitIsTarget: true})
		bwd := lg.Reach(first, false, &an.Search{Target: func(k an.Loc) bool { return k == l }, Cut: lAllUpdate})
		r.Check(!fwd || !bwd, "C18.R2", "search.doSelectRepoSet/append#"+itoa(nApp)+"/updates-filteredAll", lg.Node(l).Pos(), "the selection of this shard updates filteredAll", "a shard is selected without recording whether all of its repositories satisfy the filter: the filter can then be rewritten to `true` although the shard holds repositories that do not satisfy it")
	}
	r.Floor("C18.R2.appends", 2, nApp)
	// any other assignment to the flag must be of an accepted form (or its definition)
	for _, l := range lg.Locs(func(ast.Node) bool { return true }) {
		as, ok := lg.Node(l).(*ast.AssignStmt)
		if !ok || as.Tok == token.DEFINE {
			continue
		}
		for _, lhs := range as.Lhs {
			if isIdentOf(info, lhs, site.allFlag) && !lAllUpdate(l) {
				r.Bad("C18.R2", "search.doSelectRepoSet/filteredAll/other-assignment", as.Pos(), "filteredAll is assigned something other than `false` or `filteredAll && all`")
			}
		}
	}
	// the flag starts as true
	startsTrue := false
	ast.Inspect(site.d.Decl.Body, func(n ast.Node) bool {
		if as, ok := n.(*ast.AssignStmt); ok && as.Tok == token.DEFINE && len(as.Lhs) == len(as.Rhs) {
			for i, lh := range as.Lhs {
				if isIdentOf(info, lh, site.allFlag) {
					if tv := info.Types[as.Rhs[i]]; tv.Value != nil && tv.Value.String() == "true" {
						startsTrue = true
					}
				}
			}
		}
		return true
	})
	_ = startsTrue
	// R3
	skip := lg.Reach(first, false, &an.Search{Target: nextIter, Cut: lAppend, ExitIsTarget: true, CutEdge: func(b *cfg.Block, k int) bool {
		return edgeFact(lg, b, k, func(atom ast.Expr, truth bool) bool { return isIdentOf(info, atom, anyVar) && !truth })
	}})
	r.Check(!skip, "C18.R3", "search.doSelectRepoSet/shard-loop/dropped-only-when-no-repository-matches", shardLoop.Pos(), "a shard is left out only when `any` is false", "a shard can be left out of the selection although the repository predicate was not found false for all of its repositories: its results are lost")
	// the arguments of hasRepos: the shard's repositories
	// R1: every return that hands back a query other than the unmodified parameter is under filteredAll
	allFact := func(cond ast.Expr, truth bool) bool {
		if isIdentOf(info, cond, filteredAll) {
			return truth
		}
		if u, ok := ast.Unparen(cond).(*ast.UnaryExpr); ok && u.Op == token.NOT && isIdentOf(info, u.X, filteredAll) {
			return !truth
		}
		return false
	}
	killAll := func(k an.Loc) bool { return isAllUpdate(k) || isAppend(k) }
	isMod := func(k an.Loc) bool {
		as, ok := g.Node(k).(*ast.AssignStmt)
		if !ok {
			return false
		}
		for _, lh := range as.Lhs {
			if isIdentOf(info, lh, and) {
				return true
			}
			if ix, ok := ast.Unparen(lh).(*ast.IndexExpr); ok {
				if se, ok := ast.Unparen(ix.X).(*ast.SelectorExpr); ok && se.Sel.Name == "Children" && isIdentOf(info, se.X, and) {
					return true
				}
			}
		}
		return false
	}
	mods := g.Locs(func(ast.Node) bool { return true })
	nStore := 0
	for _, l := range g.Locs(func(nd ast.Node) bool { _, ok := nd.(*ast.ReturnStmt); return ok }) {
		rs := g.Node(l).(*ast.ReturnStmt)
		if len(rs.Results) != 2 {
			continue
		}
		unchanged := isIdentOf(info, rs.Results[1], and)
		if unchanged {
			for _, m := range mods {
				if isMod(m) && g.Reach(m, true, &an.Search{Target: func(k an.Loc) bool { return k == l }}) {
					unchanged = false
				}
			}
		}
		if unchanged {
			continue
		}
		nStore++
		key := "search.doSelectRepoSet/rewritten-return#" + itoa(nStore)
		r.Check(g.GuardedBy(l, allFact, killAll), "C18.R1", key+"/only-when-all-selected-repositories-match", rs.Pos(), "a rewritten query is returned only under filteredAll", "a query other than the caller's is returned although some selected shard may hold repositories that do not satisfy the filter (filteredAll not established): the rewritten filter lets those repositories' files through")
	}
	// the replacement nodes: constant true, or an exact branch filter for a single entry
	nRepl := 0
	// in doSelectRepoSet itself, and in helpers of the package it calls to build the replacement
	for _, rd := range calleeDecls(p, d) {
		rd := rd
		gRepl := g
		if rd != d {
			gRepl = an.NewG(info, rd.Decl.Body)
		}
		ast.Inspect(rd.Decl.Body, func(nd ast.Node) bool {
			ue, ok := nd.(*ast.UnaryExpr)
			if !ok || ue.Op != token.AND {
				return true
			}
			cl, ok := ue.X.(*ast.CompositeLit)
			if !ok {
				return true
			}
			tn := an.TypeName(info.TypeOf(cl))
			if !strings.HasSuffix(tn, "query.Const") && !strings.HasSuffix(tn, "query.Branch") {
				return true
			}
			if rd != d && !strings.HasSuffix(tn, "query.Branch") {
				return true // only replacement builders are followed, not every Const in a callee
			}
			l, okL := gRepl.Find(cl)
			nRepl++
			key := "search.doSelectRepoSet/replacement#" + itoa(nRepl)
			if !okL {
				r.Und("C18.R1", key, cl.Pos(), "replacement literal not in the CFG")
				return true
			}
			underAll := false
			if rd == d {
				underAll = g.GuardedBy(l, allFact, killAll)
			} else {
				// the helper's result is used at its call sites in doSelectRepoSet: those must be under filteredAll
				hobj, _ := info.Defs[rd.Decl.Name].(*types.Func)
				sites := g.Locs(func(n ast.Node) bool { return hobj != nil && len(an.CallsTo(info, n, false, hobj)) > 0 })
				underAll = len(sites) > 0
				for _, sl := range sites {
					if !g.GuardedBy(sl, allFact, killAll) {
						underAll = false
					}
				}
			}
			g := gRepl
			r.Check(underAll, "C18.R1", key+"/only-when-all-selected-repositories-match", cl.Pos(), "the replacement is built only under filteredAll", "a replacement for the repository filter is built although some selected shard may hold repositories that do not satisfy the filter (filteredAll not established)")
			if strings.HasSuffix(tn, "query.Const") {
				val := ""
				if v := litField(cl, "Value"); v != nil {
					if tv := info.Types[v]; tv.Value != nil {
						val = tv.Value.String()
					}
				}
				r.Check(val == "true", "C18.R1", key+"/replaced-by-true", cl.Pos(), "a satisfied filter is replaced by the constant true", "a repository filter that all selected repositories satisfy is replaced by something other than the constant true")
				return true
			}
			var cVar types.Object
			exact, pat := false, false
			if v := litField(cl, "Exact"); v != nil {
				if tv := info.Types[v]; tv.Value != nil && tv.Value.String() == "true" {
					exact = true
				}
			}
			if v := litField(cl, "Pattern"); v != nil {
				if s1, ok := ast.Unparen(v).(*ast.SelectorExpr); ok && s1.Sel.Name == "Branch" {
					if ix, ok := ast.Unparen(s1.X).(*ast.IndexExpr); ok {
						if tv := info.Types[ix.Index]; tv.Value != nil && tv.Value.String() == "0" {
							if s2, ok := ast.Unparen(ix.X).(*ast.SelectorExpr); ok && s2.Sel.Name == "List" {
								if id, ok := ast.Unparen(s2.X).(*ast.Ident); ok {
									cVar = info.ObjectOf(id)
									pat = true
								}
							}
						}
					}
				}
			}
			r.Check(exact && pat, "C18.R4", key+"/branch-filter-exact-and-from-the-single-entry", cl.Pos(), "the replacement is Branch{Pattern: List[0].Branch, Exact: true}", "the branch filter that replaces a BranchesRepos filter is not the exact branch of its single entry: it selects documents of other branches")
			single := cVar != nil && g.GuardedBy(l, func(cond ast.Expr, truth bool) bool {
				be, ok := ast.Unparen(cond).(*ast.BinaryExpr)
				if !ok {
					return false
				}
				c, ok := ast.Unparen(be.X).(*ast.CallExpr)
				if !ok || !an.IsBuiltin(info, c, "len") {
					return false
				}
				s, ok := ast.Unparen(c.Args[0]).(*ast.SelectorExpr)
				if !ok || s.Sel.Name != "List" || !isIdentOf(info, s.X, cVar) {
					return false
				}
				tv := info.Types[be.Y]
				if tv.Value == nil || tv.Value.String() != "1" {
					return false
				}
				return (be.Op == token.NEQ && !truth) || (be.Op == token.EQL && truth)
			}, nil)
			r.Check(single, "C18.R4", key+"/only-for-a-single-branch-entry", cl.Pos(), "the replacement happens only when len(List) == 1", "a BranchesRepos filter with several (branch, repositories) entries is replaced by the branch of its first entry: repositories of the other entries are searched on the wrong branch")
			return true
		})
	}
	r.Floor("C18.R1.replacements", 2, nRepl)
	r.Floor("C18.R1.rewrites", 2, nStore)
	// R10: the (any, all) accumulator visits every repository of the shard
	r.Rule("C18.R10", "the loop that computes (any, all) over a shard's repositories has no early exit, except under a condition that implies all == false")
	nAcc := 0
	accBodies := []*ast.BlockStmt{d.Decl.Body}
	p.AllDecls(func(hf *types.Func, hd *an.DeclInfo) {
		if hd.Pkg == d.Pkg && hd.Decl.Body != nil && hf != f && len(an.CallsTo(info, d.Decl.Body, true, hf)) > 0 {
			accBodies = append(accBodies, hd.Decl.Body)
		}
	})
	for _, accBody := range accBodies {
		ast.Inspect(accBody, func(nd ast.Node) bool {
			fl, ok := nd.(*ast.FuncLit)
			if !ok || fl.Type.Results == nil {
				return true
			}
			// two named bool results
			var names []*ast.Ident
			for _, f := range fl.Type.Results.List {
				names = append(names, f.Names...)
			}
			if len(names) != 2 {
				return true
			}
			for _, nm := range names {
				if b, ok := info.TypeOf(nm).Underlying().(*types.Basic); !ok || b.Kind() != types.Bool {
					return true
				}
			}
			allObj := info.ObjectOf(names[1])
			var stack []ast.Node
			ast.Inspect(fl.Body, func(m ast.Node) bool {
				if m == nil {
					stack = stack[:len(stack)-1]
					return true
				}
				stack = append(stack, m)
				rs, ok := m.(*ast.RangeStmt)
				if !ok {
					return true
				}
				nAcc++
				okLoop := true
				var inner []ast.Node
				ast.Inspect(rs.Body, func(k ast.Node) bool {
					if k == nil {
						inner = inner[:len(inner)-1]
						return true
					}
					inner = append(inner, k)
					var isExit bool
					switch x := k.(type) {
					case *ast.BranchStmt:
						isExit = x.Tok == token.BREAK || x.Tok == token.GOTO
					case *ast.ReturnStmt:
						isExit = true
					}
					if !isExit {
						return true
					}
					justified := false
					for i := len(inner) - 2; i >= 0; i-- {
						is, ok := inner[i].(*ast.IfStmt)
						if !ok {
							continue
						}
						truth := inner[i+1] == ast.Node(is.Body)
						if an.Implied(is.Cond, truth, func(atom ast.Expr, t bool) bool {
							if isIdentOf(info, atom, allObj) {
								return !t
							}
							if u, ok := ast.Unparen(atom).(*ast.UnaryExpr); ok && u.Op == token.NOT && isIdentOf(info, u.X, allObj) {
								return t
							}
							return false
						}) {
							justified = true
						}
					}
					if !justified {
						okLoop = false
					}
					return true
				})
				r.Check(okLoop, "C18.R10", "search.doSelectRepoSet/any-all-accumulator/visits-every-repository", rs.Pos(), "`all` is the conjunction over every repository of the shard", "the loop that computes (any, all) can stop before every repository of the shard was tested while `all` may still be true: a compound shard whose later repositories do not satisfy the filter is reported as all-matching and the filter is rewritten away")
				return true
			})
			return true
		})
	}
	r.Floor("C18.R10.accumulators", 1, nAcc)
	// R9: the callers take the shard list and the query together
	r.Rule("C18.R9", "every caller of selectRepoSet/doSelectRepoSet takes both results (the rewritten query is only valid for the selected shards)")
	targets := []*types.Func{f, p.Func("search", "selectRepoSet")}
	nCalls := 0
	p.AllDecls(func(fn *types.Func, cd *an.DeclInfo) {
		if cd.Pkg != d.Pkg || cd.Decl.Body == nil {
			return
		}
		ast.Inspect(cd.Decl.Body, func(n ast.Node) bool {
			switch x := n.(type) {
			case *ast.AssignStmt:
				if len(x.Rhs) == 1 {
					if c, ok := ast.Unparen(x.Rhs[0]).(*ast.CallExpr); ok && len(an.CallsTo(cd.Pkg.TypesInfo, c, false, targets...)) > 0 && (an.Callee(cd.Pkg.TypesInfo, c) == targets[0] || an.Callee(cd.Pkg.TypesInfo, c) == targets[1]) {
						nCalls++
						both := len(x.Lhs) == 2
						for _, l := range x.Lhs {
							if id, ok := l.(*ast.Ident); !ok || id.Name == "_" {
								both = false
							}
						}
						r.Check(both, "C18.R9", an.FuncName(fn)+"/takes-shards-and-query-together", x.Pos(), "both results are used", "a caller of the shard pre-selection drops one of its results: the rewritten query is searched on unselected shards (or the selection is ignored)")
					}
				}
			case *ast.ReturnStmt:
				if len(x.Results) == 1 {
					if c, ok := ast.Unparen(x.Results[0]).(*ast.CallExpr); ok && (an.Callee(cd.Pkg.TypesInfo, c) == targets[0] || an.Callee(cd.Pkg.TypesInfo, c) == targets[1]) {
						nCalls++
						r.OK("C18.R9", an.FuncName(fn)+"/returns-both", x.Pos(), "both results are returned")
					}
				}
			}
			return true
		})
	})
	r.Floor("C18.R9.callers", 4, nCalls)
	// the returned shard list is `filtered` (or the input when no filter child was found)
	_ = and
}

func itoa(i int) string { return strconv.Itoa(i) }

// c18Sig: the query/repository fields and external methods a predicate uses.
func c18Sig(info *types.Info, n ast.Node, inModule func(*types.Package) bool) []string {
	set := map[string]bool{}
	c18SigInto(info, n, inModule, set, 0)
	var out []string
	for k := range set {
		out = append(out, k)
	}
	sort.Strings(out)
	return out
}

func c18SigInto(info *types.Info, n ast.Node, inModule func(*types.Package) bool, set map[string]bool, depth int) {
	// how a map-typed field of the repository record is consulted: `v, ok := repo.Metadata[k]` (absent differs from
	// empty) or plainly `repo.Metadata[k]` (absent reads as the zero value) - siblings must agree on that too
	repoMapField := func(e ast.Expr) string {
		ix, ok := ast.Unparen(e).(*ast.IndexExpr)
		if !ok {
			return ""
		}
		base := ast.Unparen(ix.X)
		if id, isID := base.(*ast.Ident); isID {
			// `md := repo.Metadata; v, ok := md[k]`: the local stands for the field
			if dd := defOf(info, n, id); dd != nil {
				base = ast.Unparen(dd)
			}
		}
		se, ok := base.(*ast.SelectorExpr)
		if !ok || info.Selections[se] == nil {
			return ""
		}
		recv := an.NamedOf(info.Selections[se].Recv())
		if recv == nil || recv.Obj().Name() != "Repository" {
			return ""
		}
		if _, isMap := info.TypeOf(ix.X).Underlying().(*types.Map); !isMap {
			return ""
		}
		return "Repository." + se.Sel.Name
	}
	commaOK := map[ast.Expr]bool{}
	ast.Inspect(n, func(m ast.Node) bool {
		if as, ok := m.(*ast.AssignStmt); ok && len(as.Lhs) == 2 && len(as.Rhs) == 1 {
			if f := repoMapField(as.Rhs[0]); f != "" {
				commaOK[ast.Unparen(as.Rhs[0])] = true
				set["lookup(comma-ok) "+f] = true
			}
		}
		return true
	})
	ast.Inspect(n, func(m ast.Node) bool {
		if e, ok := m.(ast.Expr); ok && !commaOK[e] {
			if f := repoMapField(e); f != "" {
				set["lookup(plain: absent reads as zero value) "+f] = true
			}
		}
		return true
	})
	ast.Inspect(n, func(m ast.Node) bool {
		// the predicate may delegate to a helper of the same package: its body belongs to the signature
		if c, ok := m.(*ast.CallExpr); ok && depth < 2 && an.Current != nil {
			if fn := an.Callee(info, c); fn != nil && fn.Pkg() != nil && inModule(fn.Pkg()) {
				if hd := an.Current.Decl(fn); hd != nil && hd.Decl.Body != nil && hd.Pkg.TypesInfo == info && fn.Name() != "simplifyMultiRepo" {
					c18SigInto(info, hd.Decl.Body, inModule, set, depth+1)
				}
			}
		}
		se, ok := m.(*ast.SelectorExpr)
		if !ok {
			return true
		}
		sel := info.Selections[se]
		if sel == nil {
			return true
		}
		recv := an.NamedOf(sel.Recv())
		if recv == nil || recv.Obj().Pkg() == nil {
			return true
		}
		pkg := recv.Obj().Pkg()
		switch sel.Kind() {
		case types.FieldVal:
			if pkg.Name() == "query" || (pkg.Name() == "zoekt" && recv.Obj().Name() == "Repository") {
				set[pkg.Name()+"."+recv.Obj().Name()+"."+sel.Obj().Name()] = true
			}
		case types.MethodVal:
			if !inModule(pkg) {
				set["call "+pkg.Name()+"."+recv.Obj().Name()+"."+sel.Obj().Name()] = true
			}
		}
		return true
	})
}

func c18Siblings(p *an.Prog, r *an.R) {
	r.Rule("C18.R5", "for every query type handled by pre-selection, the repository predicate reads the same query fields, Repository fields and calls the same matcher methods as indexData.simplify's clause for that type")
	sel := p.Decl(p.Func("search", "doSelectRepoSet"))
	simp := p.Decl(p.Func("index", "(*indexData).simplify"))
	if !r.Anchor(sel != nil && simp != nil, "search.doSelectRepoSet / index.(*indexData).simplify") {
		return
	}
	r.Fn("index.(*indexData).simplify")
	inModule := an.InModule
	sigOf := func(d *an.DeclInfo, pick func(cc *ast.CaseClause) ast.Node) map[string][]string {
		out := map[string][]string{}
		info := d.Pkg.TypesInfo
		for _, ts := range an.TypeSwitches(info, d.Decl.Body) {
			for _, cc := range ts.AllClauses {
				if len(cc.List) != 1 || info.Types[cc.List[0]].Type == nil || info.Types[cc.List[0]].IsNil() {
					continue
				}
				n := pick(cc)
				if n == nil {
					continue
				}
				tn := an.TypeName(info.Types[cc.List[0]].Type)
				if _, dup := out[tn]; !dup {
					out[tn] = c18Sig(info, n, inModule)
				}
			}
		}
		return out
	}
	// searcher side: the function literal passed to hasReposForPredicate
	selSig := sigOf(sel, func(cc *ast.CaseClause) ast.Node {
		var lit ast.Node
		for _, st := range cc.Body {
			ast.Inspect(st, func(m ast.Node) bool {
				c, ok := m.(*ast.CallExpr)
				if !ok || len(c.Args) != 1 {
					return true
				}
				if fl, ok := c.Args[0].(*ast.FuncLit); ok {
					if id, ok := c.Fun.(*ast.Ident); ok && strings.HasPrefix(id.Name, "hasReposForPredicate") {
						lit = fl
					}
				}
				return true
			})
		}
		return lit
	})
	simpSig := sigOf(simp, func(cc *ast.CaseClause) ast.Node {
		return &ast.BlockStmt{List: cc.Body}
	})
	n := 0
	var names []string
	for tn := range selSig {
		names = append(names, tn)
	}
	sort.Strings(names)
	for _, tn := range names {
		n++
		a, b := selSig[tn], simpSig[tn]
		key := "search.doSelectRepoSet/predicate/" + tn + "/agrees-with-index.simplify"
		if b == nil {
			r.Bad("C18.R5", key, sel.Decl.Pos(), "pre-selection handles "+tn+" but indexData.simplify has no clause for it: the shard-level meaning of the atom is not the one pre-selection assumes")
			continue
		}
		r.Check(strings.Join(a, " ") == strings.Join(b, " "), "C18.R5", key, sel.Decl.Pos(), "both read {"+strings.Join(a, ", ")+"}", "pre-selection decides "+tn+" from {"+strings.Join(a, ", ")+"} but the per-shard evaluation uses {"+strings.Join(b, ", ")+"}: the two disagree for some repository, so pre-selection adds or removes results")
	}
	r.Floor("C18.R5.atom-types", 5, n)
}

func c18TypeRepo(p *an.Prog, r *an.R) {
	r.Rule("C18.R6", "*typeRepoSearcher declares every Streamer method that takes a query; each evaluates the query with eval on all paths before calling the same-named method of the wrapped streamer with the evaluated query")
	r.Rule("C18.R7", "typeRepoSearcher.eval replaces a node only where it is a *query.Type with Type == TypeRepo, by a RepoSet built from listing that node's Child")
	named := p.Named("search", "typeRepoSearcher")
	evalF := p.Func("search", "(*typeRepoSearcher).eval")
	if !r.Anchor(named != nil && evalF != nil, "search.typeRepoSearcher / eval") {
		return
	}
	var streamer *types.Interface
	for _, f := range an.StructFields(named) {
		if f.Embedded() {
			streamer, _ = f.Type().Underlying().(*types.Interface)
		}
	}
	if !r.Anchor(streamer != nil, "search.typeRepoSearcher embedded Streamer") {
		return
	}
	isQ := func(t types.Type) bool { return strings.HasSuffix(an.TypeName(t), "query.Q") }
	n := 0
	for i := 0; i < streamer.NumMethods(); i++ {
		m := streamer.Method(i)
		sig := m.Type().(*types.Signature)
		qIdx := -1
		for k := 0; k < sig.Params().Len(); k++ {
			if isQ(sig.Params().At(k).Type()) {
				qIdx = k
			}
		}
		if qIdx < 0 {
			continue
		}
		n++
		key := "search.(*typeRepoSearcher)." + m.Name()
		obj, idx, _ := types.LookupFieldOrMethod(types.NewPointer(named), true, named.Obj().Pkg(), m.Name())
		fn, _ := obj.(*types.Func)
		d := p.Decl(fn)
		if !r.Check(fn != nil && len(idx) == 1 && d != nil, "C18.R6", key+"/declared", named.Obj().Pos(), "declared on the wrapper", "the streamer method "+m.Name()+" takes a query but is not declared on typeRepoSearcher: it is promoted from the wrapped streamer and type:repo sub-queries reach the shards unevaluated") {
			continue
		}
		r.Fn(an.FuncName(fn))
		info := d.Pkg.TypesInfo
		g := an.NewG(info, d.Decl.Body)
		// q, err = s.eval(ctx, tr, q)
		var evalLoc *an.Loc
		var qObj types.Object
		for _, l := range g.Locs(func(ast.Node) bool { return true }) {
			as, ok := g.Node(l).(*ast.AssignStmt)
			if !ok || len(as.Rhs) != 1 {
				continue
			}
			if c, ok := ast.Unparen(as.Rhs[0]).(*ast.CallExpr); ok && an.Callee(info, c) == evalF {
				if id, ok := as.Lhs[0].(*ast.Ident); ok {
					ll := l
					evalLoc = &ll
					qObj = info.ObjectOf(id)
				}
			}
		}
		fwd := 0
		ok := evalLoc != nil
		for _, l := range g.Locs(func(ast.Node) bool { return true }) {
			for _, c := range an.CallsTo(info, g.Node(l), false, m) {
				fwd++
				if evalLoc == nil || qIdx >= len(c.Args) || !isIdentOf(info, c.Args[qIdx], qObj) {
					ok = false
					continue
				}
				// every path to the call passes the eval assignment, and q is not reassigned after
				if g.Reach(g.Entry(), false, &an.Search{Target: func(k an.Loc) bool { return k == l }, Cut: func(k an.Loc) bool { return k == *evalLoc }}) {
					ok = false
				}
			}
		}
		r.Check(ok && fwd > 0, "C18.R6", key+"/forwards-the-evaluated-query", d.Decl.Pos(), "the wrapped "+m.Name()+" receives the query returned by eval", "the wrapped streamer's "+m.Name()+" does not (on every path) receive the query returned by eval: type:repo sub-queries are not pre-evaluated")
	}
	r.Floor("C18.R6.query-methods", 3, n)
	// R7
	d := p.Decl(evalF)
	info := d.Pkg.TypesInfo
	r.Fn(an.FuncName(evalF))
	var lit *ast.FuncLit
	ast.Inspect(d.Decl.Body, func(n ast.Node) bool {
		if c, ok := n.(*ast.CallExpr); ok && len(c.Args) == 2 {
			if f := an.Callee(info, c); f != nil && f.Name() == "Map" && f.Pkg().Name() == "query" {
				lit, _ = c.Args[1].(*ast.FuncLit)
			}
		}
		return true
	})
	if !r.Anchor(lit != nil, "typeRepoSearcher.eval/query.Map callback") {
		return
	}
	g := an.NewG(info, lit.Body)
	qp := info.ObjectOf(lit.Type.Params.List[0].Names[0])
	var rq types.Object
	ast.Inspect(lit.Body, func(n ast.Node) bool {
		as, ok := n.(*ast.AssignStmt)
		if !ok || len(as.Lhs) != 2 || len(as.Rhs) != 1 {
			return true
		}
		if ta, ok := ast.Unparen(as.Rhs[0]).(*ast.TypeAssertExpr); ok && isIdentOf(info, ta.X, qp) && strings.HasSuffix(an.TypeName(info.TypeOf(ta.Type)), "query.Type") {
			rq = info.ObjectOf(as.Lhs[0].(*ast.Ident))
		}
		return true
	})
	if !r.Anchor(rq != nil, "typeRepoSearcher.eval/type assertion to *query.Type") {
		return
	}
	typeRepo := p.Obj("query", "TypeRepo")
	isTypeRepoFact := func(cond ast.Expr, truth bool) bool {
		be, ok := ast.Unparen(cond).(*ast.BinaryExpr)
		if !ok || !(be.Op == token.NEQ && !truth || be.Op == token.EQL && truth) {
			return false
		}
		for _, pr := range [][2]ast.Expr{{be.X, be.Y}, {be.Y, be.X}} {
			se, ok := ast.Unparen(pr[0]).(*ast.SelectorExpr)
			if ok && se.Sel.Name == "Type" && isIdentOf(info, se.X, rq) && isIdentOf(info, pr[1], typeRepo) {
				return true
			}
			if ok && se.Sel.Name == "Type" && isIdentOf(info, se.X, rq) {
				if s2, ok := ast.Unparen(pr[1]).(*ast.SelectorExpr); ok && info.ObjectOf(s2.Sel) == typeRepo {
					return true
				}
			}
		}
		return false
	}
	nRepl := 0
	for _, l := range g.Locs(func(n ast.Node) bool { _, ok := n.(*ast.ReturnStmt); return ok }) {
		rs := g.Node(l).(*ast.ReturnStmt)
		if len(rs.Results) != 1 || isIdentOf(info, rs.Results[0], qp) || info.Types[rs.Results[0]].IsNil() {
			continue
		}
		nRepl++
		ok := g.GuardedBy(l, isTypeRepoFact, nil)
		r.Check(ok, "C18.R7", "search.(*typeRepoSearcher).eval/replacement#"+itoa(nRepl)+"/only-type-repo-nodes", rs.Pos(), "a node is replaced only when it is type:repo", "eval replaces a query node that is not known to be a type:repo node: type:file / type:filename sub-queries (or other atoms) are turned into repository sets")
	}
	r.Floor("C18.R7.replacements", 1, nRepl)
	// ... and only by what listing this very node's child gave: every way to a replacement passes the List call
	isListLoc := func(k an.Loc) bool {
		hit := false
		an.Inspect(g.Node(k), false, func(m ast.Node) bool {
			if c, ok := m.(*ast.CallExpr); ok && len(c.Args) == 3 {
				if f := an.Callee(info, c); f != nil && f.Name() == "List" {
					hit = true
				}
			}
			// the listing may sit in a helper of the package
			if c, ok := m.(*ast.CallExpr); ok && !hit {
				if hd := p.Decl(an.Callee(info, c)); hd != nil && hd.Pkg == d.Pkg && hd.Decl.Body != nil {
					ast.Inspect(hd.Decl.Body, func(x ast.Node) bool {
						if c2, ok := x.(*ast.CallExpr); ok && len(c2.Args) == 3 {
							if f := an.Callee(info, c2); f != nil && f.Name() == "List" {
								hit = true
							}
						}
						return !hit
					})
				}
			}
			return true
		})
		return hit
	}
	nr := 0
	for _, l := range g.Locs(func(n ast.Node) bool { _, ok := n.(*ast.ReturnStmt); return ok }) {
		rs := g.Node(l).(*ast.ReturnStmt)
		if len(rs.Results) != 1 || isIdentOf(info, rs.Results[0], qp) || info.Types[rs.Results[0]].IsNil() {
			continue
		}
		nr++
		bypass := g.Reach(g.Entry(), false, &an.Search{Target: func(k an.Loc) bool { return k == l }, Cut: isListLoc})
		r.Check(!bypass, "C18.R7", "search.(*typeRepoSearcher).eval/replacement#"+itoa(nr)+"/computed-by-listing-this-node", rs.Pos(), "the replacement is reached only through the List call for this node's child",
			"a type:repo node can be replaced without listing its child (a remembered/shared result is returned): two different sub-queries can get the same repository set, so pre-evaluation adds and drops results")
	}
	// the List call lists rq.Child
	nList := 0
	ast.Inspect(lit.Body, func(n ast.Node) bool {
		c, ok := n.(*ast.CallExpr)
		if !ok {
			return true
		}
		if f := an.Callee(info, c); f != nil && f.Name() == "List" && len(c.Args) == 3 {
			nList++
			se, ok := ast.Unparen(c.Args[1]).(*ast.SelectorExpr)
			r.Check(ok && se.Sel.Name == "Child" && isIdentOf(info, se.X, rq), "C18.R7", "search.(*typeRepoSearcher).eval/lists-the-child", c.Pos(), "the repositories are those matching the type:repo node's child", "the repository set is computed from `"+types.ExprString(c.Args[1])+"`, not from the child of the type:repo node")
		}
		return true
	})
	r.Floor("C18.R7.list-calls", 1, nList)
}

func c18List(p *an.Prog, r *an.R) {
	r.Rule("C18.R8", "shardedSearcher.List: per repository name the first entry is stored as a copy, and every iteration over a shard's entries either stores the entry or adds its statistics to the stored one")
	f := p.Func("search", "(*shardedSearcher).List")
	d := p.Decl(f)
	add := p.Func("", "(*RepoStats).Add")
	if !r.Anchor(d != nil && add != nil, "search.(*shardedSearcher).List / zoekt.(*RepoStats).Add") {
		return
	}
	r.Fn(an.FuncName(f))
	info := d.Pkg.TypesInfo
	// the merge of one shard's answer may live in a helper of the package that List calls
	hasStore := func(x *an.DeclInfo) bool {
		hit := false
		ast.Inspect(x.Decl.Body, func(n ast.Node) bool {
			as, ok := n.(*ast.AssignStmt)
			if !ok || len(as.Lhs) != 1 {
				return true
			}
			if ix, ok := ast.Unparen(as.Lhs[0]).(*ast.IndexExpr); ok {
				if mt, ok := info.TypeOf(ix.X).Underlying().(*types.Map); ok && strings.HasSuffix(an.TypeName(mt.Elem()), "RepoListEntry") {
					if b, ok := mt.Key().Underlying().(*types.Basic); ok && b.Kind() == types.String {
						hit = true
					}
				}
			}
			return true
		})
		return hit
	}
	if !hasStore(d) {
		for _, x := range calleeDecls(p, d) {
			if x != d && hasStore(x) {
				d = x
				r.Fn("search." + x.Decl.Name.Name)
			}
		}
	}
	g := an.NewG(info, d.Decl.Body)
	// the map keyed by repository name holding *RepoListEntry
	var uniq types.Object
	var storeLocs []an.Loc
	for _, l := range g.Locs(func(ast.Node) bool { return true }) {
		as, ok := g.Node(l).(*ast.AssignStmt)
		if !ok || len(as.Lhs) != 1 {
			continue
		}
		ix, ok := ast.Unparen(as.Lhs[0]).(*ast.IndexExpr)
		if !ok {
			continue
		}
		mt, ok := info.TypeOf(ix.X).Underlying().(*types.Map)
		if !ok || !strings.HasSuffix(an.TypeName(mt.Elem()), "RepoListEntry") {
			continue
		}
		if b, ok := mt.Key().Underlying().(*types.Basic); !ok || b.Kind() != types.String {
			continue
		}
		id, _ := ast.Unparen(ix.X).(*ast.Ident)
		if id == nil {
			continue
		}
		uniq = info.ObjectOf(id)
		storeLocs = append(storeLocs, l)
		// RHS: &cp with cp := *x
		isCopy := false
		if ue, ok := ast.Unparen(as.Rhs[0]).(*ast.UnaryExpr); ok && ue.Op == token.AND {
			root := aliasRoot(info, d.Decl.Body, ue.X)
			if st, ok := ast.Unparen(root).(*ast.StarExpr); ok && st != nil {
				isCopy = true
			}
			if _, ok := ast.Unparen(root).(*ast.CompositeLit); ok {
				isCopy = true
			}
		}
		r.Check(isCopy, "C18.R8", "search.(*shardedSearcher).List/first-entry-stored-as-a-copy", as.Pos(), "the stored entry is a private copy", "List keeps the shard's own RepoListEntry and later adds other shards' statistics into it: the shard's cached entry is modified and every further List reports growing statistics")
	}
	if !r.Anchor(uniq != nil, "shardedSearcher.List/map of entries by repository name") {
		return
	}
	// the loop over a shard's entries
	var loop *ast.RangeStmt
	ast.Inspect(d.Decl.Body, func(n ast.Node) bool {
		rs, ok := n.(*ast.RangeStmt)
		if !ok {
			return true
		}
		for _, l := range storeLocs {
			if rs.Body.Pos() <= g.Node(l).Pos() && g.Node(l).End() <= rs.Body.End() {
				if loop == nil || rs.Pos() > loop.Pos() {
					loop = rs // innermost
				}
			}
		}
		return true
	})
	if !r.Anchor(loop != nil, "shardedSearcher.List/loop over entries") {
		return
	}
	first, ok := g.FirstIn(loop.Body.List[0])
	if !ok {
		r.Und("C18.R8", "search.(*shardedSearcher).List/entry-loop", loop.Pos(), "loop body not in the CFG")
		return
	}
	isStore := func(l an.Loc) bool {
		for _, s := range storeLocs {
			if s == l {
				return true
			}
		}
		return false
	}
	isAdd := func(l an.Loc) bool { return len(an.CallsTo(info, g.Node(l), false, add)) > 0 }
	next := func(l an.Loc) bool {
		n := g.Node(l)
		return n == ast.Node(loop.Value) || n == ast.Node(loop.Key) || n.Pos() > loop.End()
	}
	skip := g.Reach(first, false, &an.Search{Target: next, Cut: func(l an.Loc) bool { return isStore(l) || isAdd(l) }, ExitIsTarget: true})
	r.Check(!skip, "C18.R8", "search.(*shardedSearcher).List/entry-loop/stored-or-summed", loop.Pos(), "every entry is stored or its statistics added", "an entry of a repository that spans several shards can be skipped without its statistics being added: List under-reports the repository's statistics")
	// the add goes to the previously stored entry with this entry's stats
	for _, l := range g.Locs(func(ast.Node) bool { return true }) {
		if !isAdd(l) || !(loop.Body.Pos() <= g.Node(l).Pos() && g.Node(l).End() <= loop.Body.End()) {
			continue
		}
		for _, c := range an.CallsTo(info, g.Node(l), false, add) {
			se := ast.Unparen(c.Fun).(*ast.SelectorExpr) // prev.Stats.Add
			recvRoot, argRoot := rootIdent(se.X), rootIdent(c.Args[0])
			good := recvRoot != nil && argRoot != nil && info.ObjectOf(recvRoot) != info.ObjectOf(argRoot) && isIdentOf(info, argRoot, info.ObjectOf(loop.Value.(*ast.Ident)))
			// the receiver root comes from a lookup in uniq
			fromMap := false
			if recvRoot != nil {
				ast.Inspect(loop.Body, func(n ast.Node) bool {
					as, ok := n.(*ast.AssignStmt)
					if !ok || len(as.Rhs) != 1 {
						return true
					}
					if ix, ok := ast.Unparen(as.Rhs[0]).(*ast.IndexExpr); ok && isIdentOf(info, ix.X, uniq) && len(as.Lhs) >= 1 && isIdentOf(info, as.Lhs[0], info.ObjectOf(recvRoot)) {
						fromMap = true
					}
					return true
				})
			}
			r.Check(good && fromMap, "C18.R8", "search.(*shardedSearcher).List/duplicate/adds-this-entry-to-the-stored-one", c.Pos(), "stored.Stats.Add(&entry.Stats)", "the statistics of a further shard of a repository are not added from this entry into the stored entry")
		}
	}
}

func rootIdent(e ast.Expr) *ast.Ident {
	for {
		switch x := ast.Unparen(e).(type) {
		case *ast.Ident:
			return x
		case *ast.SelectorExpr:
			e = x.X
		case *ast.UnaryExpr:
			e = x.X
		case *ast.StarExpr:
			e = x.X
		case *ast.IndexExpr:
			e = x.X
		default:
			return nil
		}
	}
}
