package props

import (
	"fmt"
	"go/ast"
	"go/token"
	"go/types"
	"sort"
	"strings"

	"zverif/checker/an"
)

func init() {
	register("C01", c01)
	register("C02", c02)
}

// mtFamily describes the matchTree implementations.
type mtFamily struct {
	iface    *types.Interface
	impls    []*types.Named          // pointer-receiver implementers declared in package index
	cand     map[*types.Named]string // type -> name of its []*candidateMatch field
	children map[*types.Named][]string
}

func matchTreeFamily(p *an.Prog) *mtFamily {
	idx := p.Pkg("index")
	mtN := p.Named("index", "matchTree")
	if idx == nil || mtN == nil {
		return nil
	}
	iface, _ := mtN.Underlying().(*types.Interface)
	if iface == nil {
		return nil
	}
	f := &mtFamily{iface: iface, cand: map[*types.Named]string{}, children: map[*types.Named][]string{}}
	for _, t := range an.Implementers(idx.Types, iface) {
		if n := an.NamedOf(t); n != nil {
			dup := false
			for _, o := range f.impls {
				if o == n {
					dup = true
				}
			}
			if !dup {
				f.impls = append(f.impls, n)
			}
		}
	}
	sort.Slice(f.impls, func(i, j int) bool { return f.impls[i].Obj().Name() < f.impls[j].Obj().Name() })
	isImpl := func(t types.Type) *types.Named {
		n := an.NamedOf(t)
		for _, o := range f.impls {
			if o == n {
				return n
			}
		}
		return nil
	}
	for _, n := range f.impls {
		for _, fld := range an.StructFields(n) {
			if sl, ok := fld.Type().Underlying().(*types.Slice); ok {
				if strings.HasSuffix(an.TypeName(sl.Elem()), "candidateMatch") {
					f.cand[n] = fld.Name()
				}
			}
		}
	}
	// children: fixpoint, a field is a child when it is the interface, a slice of it, or an implementer that is a wrapper or holds candidates
	changed := true
	for changed {
		changed = false
		for _, n := range f.impls {
			var ch []string
			for _, fld := range an.StructFields(n) {
				ft := fld.Type()
				isChild := false
				if types.Identical(ft.Underlying(), iface) && an.NamedOf(ft) != nil && an.NamedOf(ft).Obj().Name() == "matchTree" {
					isChild = true
				}
				if sl, ok := ft.Underlying().(*types.Slice); ok && an.NamedOf(sl.Elem()) != nil && an.NamedOf(sl.Elem()).Obj().Name() == "matchTree" {
					isChild = true
				}
				if in := isImpl(ft); in != nil && in != n && (len(f.children[in]) > 0 || f.cand[in] != "") {
					isChild = true
				}
				if isChild {
					ch = append(ch, fld.Name())
				}
			}
			if len(ch) != len(f.children[n]) {
				f.children[n] = ch
				changed = true
			}
		}
	}
	return f
}

// switchCases returns, for the type switch at the top of fn's body, the clause of each case type name.
func topTypeSwitch(info *types.Info, d *an.DeclInfo) *an.TypeSwitch {
	for _, ts := range an.TypeSwitches(info, d.Decl.Body) {
		if id, ok := ast.Unparen(ts.Tag).(*ast.Ident); ok && info.ObjectOf(id) == types.Object(an.Param(info, d.Decl, 0)) {
			return ts
		}
	}
	return nil
}

func c02(p *an.Prog, r *an.R, tier string) {
	r.Explanation = "C02 (structural clauses): every match-tree node type that records candidate matches is consulted when the matches of a document are gathered; the traversal that gathers them has an explicit case for every node type that wraps other nodes (so atoms below a wrapper are reached) and its cases for negation and no-visit wrappers neither call the visitor nor recurse (ranges are never taken from negated atoms). Does NOT decide offsets, ordering, overlap removal or completeness of the ranges of a given file (values)."
	r.Rule("C02.R1", "gatherMatches reads the candidate list of every matchTree implementation that has one (directly or through a wrapper that visitMatches descends into)")
	r.Rule("C02.R2", "visitMatches has a case for every matchTree implementation that wraps other nodes, except those that hold their own candidates; its cases for *notMatchTree and *noVisitMatchTree contain no call")
	r.Rule("C02.R3", "visitMatchTree has a case for every wrapping matchTree implementation and that case recurses into each child field")
	fam := matchTreeFamily(p)
	gm := p.Decl(p.Func("index", "(*indexData).gatherMatches"))
	vm := p.Decl(p.Func("index", "visitMatches"))
	vt := p.Decl(p.Func("index", "visitMatchTree"))
	if !r.Anchor(fam != nil && gm != nil && vm != nil && vt != nil, "index.matchTree / gatherMatches / visitMatches / visitMatchTree") {
		return
	}
	r.Fn("index.(*indexData).gatherMatches")
	r.Fn("index.visitMatches")
	r.Fn("index.visitMatchTree")
	r.Floor("C02.matchTree-implementations", 14, len(fam.impls))
	info := gm.Pkg.TypesInfo
	// R1: fields read in gatherMatches
	read := map[*types.Named]bool{}
	ast.Inspect(gm.Decl.Body, func(n ast.Node) bool {
		se, ok := n.(*ast.SelectorExpr)
		if !ok || info.Selections[se] == nil {
			return true
		}
		recv := an.NamedOf(info.Selections[se].Recv())
		if recv != nil && fam.cand[recv] == se.Sel.Name {
			read[recv] = true
		}
		return true
	})
	nCand := 0
	for _, n := range fam.impls {
		if fam.cand[n] == "" {
			continue
		}
		nCand++
		r.Check(read[n], "C02.R1", "index.(*indexData).gatherMatches/reads/"+n.Obj().Name()+"."+fam.cand[n], gm.Decl.Pos(), "the candidates of "+n.Obj().Name()+" are gathered", "match-tree node type "+n.Obj().Name()+" records candidate matches in ."+fam.cand[n]+" but gatherMatches never reads them: matches of that atom are not reported")
	}
	r.Floor("C02.R1.candidate-holding-types", 4, nCand)
	// R2
	vmTS := topTypeSwitch(vm.Pkg.TypesInfo, vm)
	vtTS := topTypeSwitch(vt.Pkg.TypesInfo, vt)
	if !r.Anchor(vmTS != nil && vtTS != nil, "type switches of visitMatches / visitMatchTree") {
		return
	}
	nWrap := 0
	for _, n := range fam.impls {
		if len(fam.children[n]) == 0 {
			continue
		}
		nWrap++
		name := "*index." + n.Obj().Name()
		_, inVM := vmTS.CaseOf[name]
		r.Check(inVM || fam.cand[n] != "", "C02.R2", "index.visitMatches/case/"+n.Obj().Name(), vm.Decl.Pos(), "wrapper "+n.Obj().Name()+" is handled explicitly (or gathers its own candidates)", "match-tree node type "+n.Obj().Name()+" wraps other nodes ("+strings.Join(fam.children[n], ", ")+") but visitMatches has no case for it: it is treated as an atom, the atoms below it never contribute matches")
		cc, inVT := vtTS.CaseOf[name]
		if !r.Check(inVT, "C02.R3", "index.visitMatchTree/case/"+n.Obj().Name(), vt.Decl.Pos(), "wrapper "+n.Obj().Name()+" is handled explicitly", "match-tree node type "+n.Obj().Name()+" wraps other nodes but visitMatchTree has no case for it: the atoms below it are never visited") {
			continue
		}
		// recursion into each child field
		ti := vt.Pkg.TypesInfo
		for _, ch := range fam.children[n] {
			found := false
			for _, st := range cc.Body {
				ast.Inspect(st, func(m ast.Node) bool {
					if se, ok := m.(*ast.SelectorExpr); ok && se.Sel.Name == ch && ti.Selections[se] != nil && an.NamedOf(ti.Selections[se].Recv()) == n {
						found = true
					}
					return true
				})
			}
			r.Check(found, "C02.R3", "index.visitMatchTree/case/"+n.Obj().Name()+"/descends-into/"+ch, cc.Pos(), "the clause uses ."+ch, "visitMatchTree's clause for "+n.Obj().Name()+" does not descend into ."+ch)
		}
	}
	r.Floor("C02.wrapping-types", 8, nWrap)
	r.Rule("C02.R4", "the prepare method of every matchTree implementation that records candidate matches resets that record")
	for _, n := range fam.impls {
		if fam.cand[n] == "" {
			continue
		}
		d := methodDecl(p, n, "prepare")
		key := "index.(*" + n.Obj().Name() + ").prepare/resets/" + fam.cand[n]
		if d == nil {
			r.Bad("C02.R4", key, gm.Decl.Pos(), n.Obj().Name()+" records candidate matches but declares no prepare of its own: the matches of an earlier document stay in ."+fam.cand[n])
			continue
		}
		r.Fn("index.(*" + n.Obj().Name() + ").prepare")
		di := d.Pkg.TypesInfo
		reset := false
		ast.Inspect(d.Decl.Body, func(m ast.Node) bool {
			if as, ok := m.(*ast.AssignStmt); ok {
				for _, l := range as.Lhs {
					if se, ok := ast.Unparen(l).(*ast.SelectorExpr); ok && se.Sel.Name == fam.cand[n] && di.Selections[se] != nil && an.NamedOf(di.Selections[se].Recv()) == n {
						reset = true
					}
				}
			}
			return true
		})
		r.Check(reset, "C02.R4", key, d.Decl.Pos(), "prepare resets ."+fam.cand[n], "(*"+n.Obj().Name()+").prepare does not reset ."+fam.cand[n]+": matches found in an earlier document are reported for the next one")
	}
	for _, neg := range []string{"*index.notMatchTree", "*index.noVisitMatchTree"} {
		cc := vmTS.CaseOf[neg]
		if !r.Check(cc != nil, "C02.R2", "index.visitMatches/case/"+strings.TrimPrefix(neg, "*index.")+"/present", vm.Decl.Pos(), "negation wrappers have their own clause", "visitMatches has no clause for "+neg+": it falls into the default clause and is visited as an atom") {
			continue
		}
		calls := 0
		for _, st := range cc.Body {
			ast.Inspect(st, func(m ast.Node) bool {
				if _, ok := m.(*ast.CallExpr); ok {
					calls++
				}
				return true
			})
		}
		// clauses shared with other types are not accepted either
		r.Check(calls == 0 && len(cc.List) == 1, "C02.R2", "index.visitMatches/case/"+strings.TrimPrefix(neg, "*index.")+"/collects-nothing", cc.Pos(), "nothing is collected below a negation", "visitMatches collects matches below "+neg+": ranges of negated atoms would be reported")
	}
}

func c01(p *an.Prog, r *an.R, tier string) {
	r.Explanation = "C01 (structural clause): in indexData.Search's document loop a candidate document is passed over only for an enumerated set of reasons - tombstoned repository, tenant without access, file tombstone, per-repository match limit, the match tree deciding matchesNone - and the loop ends only at the end of the shard, on cancellation or at the shard match limit. Any other skip is a matching document that can be omitted. Does NOT decide that the match tree (trigram pre-filter, posting-list intersection, case folding, pruning) accepts exactly the matching documents: that is a fact about offsets and characters of all corpora and is not decided."
	r.Rule("C01.R1", "every continue/break/goto inside the document loop of indexData.Search is guarded by one of the enumerated skip reasons")
	f := p.Func("index", "(*indexData).Search")
	d := p.Decl(f)
	if !r.Anchor(d != nil, "index.(*indexData).Search") {
		return
	}
	r.Fn(an.FuncName(f))
	info := d.Pkg.TypesInfo
	// the labelled loop
	var loop *ast.ForStmt
	ast.Inspect(d.Decl.Body, func(n ast.Node) bool {
		if ls, ok := n.(*ast.LabeledStmt); ok {
			if fs, ok := ls.Stmt.(*ast.ForStmt); ok && loop == nil {
				loop = fs
			}
		}
		return true
	})
	if !r.Anchor(loop != nil, "indexData.Search/labelled document loop") {
		return
	}
	selName := func(e ast.Expr) string {
		if se, ok := ast.Unparen(e).(*ast.SelectorExpr); ok {
			return se.Sel.Name
		}
		if id, ok := ast.Unparen(e).(*ast.Ident); ok {
			return id.Name
		}
		return ""
	}
	mentions := func(e ast.Expr, names ...string) bool {
		hit := false
		ast.Inspect(e, func(m ast.Node) bool {
			switch x := m.(type) {
			case *ast.SelectorExpr:
				for _, n := range names {
					if x.Sel.Name == n {
						hit = true
					}
				}
			case *ast.Ident:
				for _, n := range names {
					if x.Name == n {
						hit = true
					}
				}
			}
			return true
		})
		return hit
	}
	reasons := []struct {
		name  string
		holds func(cond ast.Expr, truth bool) bool
	}{
		{"tombstoned-repository", func(c ast.Expr, t bool) bool { return selName(c) == "Tombstone" && t }},
		{"tenant-without-access", func(c ast.Expr, t bool) bool {
			if u, ok := ast.Unparen(c).(*ast.UnaryExpr); ok && u.Op == token.NOT {
				if call, ok := ast.Unparen(u.X).(*ast.CallExpr); ok && selName(call.Fun) == "HasAccess" {
					return t
				}
			}
			if call, ok := ast.Unparen(c).(*ast.CallExpr); ok && selName(call.Fun) == "HasAccess" {
				return !t
			}
			return false
		}},
		{"file-tombstone", func(c ast.Expr, t bool) bool {
			id, ok := ast.Unparen(c).(*ast.Ident)
			if !ok || !t {
				return false
			}
			// the ok result of a lookup in FileTombstones
			obj := info.ObjectOf(id)
			from := false
			ast.Inspect(d.Decl.Body, func(m ast.Node) bool {
				as, ok := m.(*ast.AssignStmt)
				if ok && len(as.Lhs) == 2 && len(as.Rhs) == 1 && isIdentOf(info, as.Lhs[1], obj) {
					if ix, ok := ast.Unparen(as.Rhs[0]).(*ast.IndexExpr); ok && selName(ix.X) == "FileTombstones" {
						from = true
					}
				}
				return true
			})
			return from
		}},
		{"per-repository-match-limit", func(c ast.Expr, t bool) bool {
			be, ok := ast.Unparen(c).(*ast.BinaryExpr)
			return ok && t && be.Op == token.LAND && mentions(be, "ShardRepoMaxMatchCount") && mentions(be, "repoMatchCount")
		}},
		{"end-of-shard", func(c ast.Expr, t bool) bool {
			be, ok := ast.Unparen(c).(*ast.BinaryExpr)
			return ok && mentions(be, "docCount") && mentions(be, "nextDoc") && ((be.Op == token.GEQ && t) || (be.Op == token.LSS && !t))
		}},
		{"cancelled-or-shard-match-limit", func(c ast.Expr, t bool) bool {
			be, ok := ast.Unparen(c).(*ast.BinaryExpr)
			return ok && t && be.Op == token.LOR && mentions(be, "canceled") && mentions(be, "ShardMaxMatchCount")
		}},
	}
	n := 0
	counts := map[string]int{}
	var stack []ast.Node
	ast.Inspect(loop.Body, func(nd ast.Node) bool {
		if nd == nil {
			stack = stack[:len(stack)-1]
			return true
		}
		stack = append(stack, nd)
		if _, ok := nd.(*ast.FuncLit); ok {
			return true
		}
		bs, ok := nd.(*ast.BranchStmt)
		if !ok {
			return true
		}
		// branch statements of nested loops/switches that do not leave the current document are irrelevant:
		// - `break` directly inside a select/switch clause leaves only that statement
		// - continue/break of a for loop nested deeper than the two document loops
		depthFor, inSwitchFirst := 0, false
		for i := len(stack) - 2; i >= 0; i-- {
			switch stack[i].(type) {
			case *ast.ForStmt, *ast.RangeStmt:
				depthFor++
			case *ast.SwitchStmt, *ast.TypeSwitchStmt, *ast.SelectStmt:
				if depthFor == 0 && bs.Tok == token.BREAK && bs.Label == nil {
					inSwitchFirst = true
				}
			}
		}
		if inSwitchFirst {
			return true
		}
		kind := bs.Tok.String()
		if bs.Label != nil {
			kind += " " + bs.Label.Name
		}
		// the conditions that enclose the branch statement (structured code: it runs only if all hold)
		type encl struct {
			cond  ast.Expr
			truth bool
		}
		var guards []encl
		for i := len(stack) - 2; i >= 0; i-- {
			if is, ok := stack[i].(*ast.IfStmt); ok {
				if stack[i+1] == ast.Node(is.Body) {
					guards = append(guards, encl{is.Cond, true})
				} else if is.Else != nil && stack[i+1] == ast.Node(is.Else) {
					guards = append(guards, encl{is.Cond, false})
				}
			}
			if stack[i] == ast.Node(loop) {
				break
			}
		}
		// matchesNone: continue nextFileMatch inside the case clause of a switch on evalMatchTree
		reason := ""
		for i := len(stack) - 2; i >= 0; i-- {
			if cc, ok := stack[i].(*ast.CaseClause); ok && len(cc.List) == 1 && selName(cc.List[0]) == "matchesNone" {
				reason = "match-tree-says-no-match"
			}
		}
		if reason == "" {
			// a condition justifies the skip if it implies one of the reasons; a disjunction taken true
			// (or a conjunction taken false) justifies it if each alternative does
			var why func(cond ast.Expr, truth bool) string
			why = func(cond ast.Expr, truth bool) string {
				for _, rs := range reasons {
					if an.ImpliedX(info, d.Decl.Body, cond, truth, rs.holds) {
						return rs.name
					}
				}
				if wr := wrapperReason(p, info, cond, truth); wr != "" {
					return wr // the test sits in a small predicate helper
				}
				c := ast.Unparen(cond)
				if u, ok := c.(*ast.UnaryExpr); ok && u.Op == token.NOT {
					return why(u.X, !truth)
				}
				if be, ok := c.(*ast.BinaryExpr); ok && ((be.Op == token.LOR && !truth) || (be.Op == token.LAND && truth)) {
					// both operands are known (false resp. true): either may give the reason
					if a := why(be.X, truth); a != "" {
						return a
					}
					return why(be.Y, truth)
				}
				if be, ok := c.(*ast.BinaryExpr); ok && ((be.Op == token.LOR && truth) || (be.Op == token.LAND && !truth)) {
					a, b := why(be.X, truth), why(be.Y, truth)
					if a != "" && b != "" {
						if a == b {
							return a
						}
						return a + "-or-" + b
					}
				}
				return ""
			}
			for _, gd := range guards {
				if reason == "" {
					reason = why(gd.cond, gd.truth)
				}
				if reason == "" {
					// the same with bool locals expanded and small predicate helpers inlined
					reason = why(an.InlinePredicates(info, an.ExpandBoolLocals(info, d.Decl.Body, gd.cond)), gd.truth)
				}
			}
		}
		if reason == "" && bs.Tok == token.BREAK && bs.Label == nil && depthFor >= 1 {
			// accepted: the break that leaves the inner skip loop with the current document kept -
			// it must be the last statement of that loop's body
			for i := len(stack) - 2; i >= 0; i-- {
				if fs, ok := stack[i].(*ast.ForStmt); ok {
					if fs != loop && len(fs.Body.List) > 0 && fs.Body.List[len(fs.Body.List)-1] == ast.Stmt(bs) {
						reason = "document-kept"
					}
					break
				}
			}
		}
		n++
		counts[reason]++
		key := fmt.Sprintf("index.(*indexData).Search/doc-loop/%s#%d", strings.ReplaceAll(kind, " ", "-"), counts[reason])
		if reason != "" {
			key = fmt.Sprintf("index.(*indexData).Search/doc-loop/%s/%s#%d", strings.ReplaceAll(kind, " ", "-"), reason, counts[reason])
		}
		r.Check(reason != "", "C01.R1", key, bs.Pos(), "document passed over because: "+reason, "the document loop passes over (or stops before) a candidate document for a reason that is none of: tombstoned repository, tenant without access, file tombstone, per-repository match limit, match tree says no match, end of shard, cancellation/shard match limit - a matching document can be omitted from the result")
		return true
	})
	r.Floor("C01.R1.loop-exits", 7, n)
	c01Propagation(p, r)
	c01SingleLine(p, r)
}

// c01SingleLine: the same-line shortcut (andLineMatchTree) is sound only if
// "single line" is claimed for sub-expressions that really cannot cross a
// newline.
func c01SingleLine(p *an.Prog, r *an.R) {
	r.Rule("C01.R4", "regexpToMatchTreeRecursive returns the constant true as its singleLine result only where the sub-expression was tested to be OpAnyCharNotNL (`.` without the s flag); everything else derives singleLine from the literal's content or from its sub-expressions")
	f := p.Func("index", "(*indexData).regexpToMatchTreeRecursive")
	d := p.Decl(f)
	if !r.Anchor(d != nil, "index.(*indexData).regexpToMatchTreeRecursive") {
		return
	}
	r.Fn(an.FuncName(f))
	info := d.Pkg.TypesInfo
	var notNL types.Object
	for _, tp := range p.TPkgs {
		if tp.Path() == "regexp/syntax" {
			notNL = tp.Scope().Lookup("OpAnyCharNotNL")
		}
	}
	if !r.Anchor(notNL != nil, "regexp/syntax.OpAnyCharNotNL") {
		return
	}
	isNotNLFact := func(atom ast.Expr, truth bool) bool {
		be, ok := ast.Unparen(atom).(*ast.BinaryExpr)
		if !ok || !((be.Op == token.EQL && truth) || (be.Op == token.NEQ && !truth)) {
			return false
		}
		for _, pr := range [][2]ast.Expr{{be.X, be.Y}, {be.Y, be.X}} {
			se, ok := ast.Unparen(pr[0]).(*ast.SelectorExpr)
			if !ok || se.Sel.Name != "Op" {
				continue
			}
			if s2, ok := ast.Unparen(pr[1]).(*ast.SelectorExpr); ok && info.ObjectOf(s2.Sel) == notNL {
				return true
			}
		}
		return false
	}
	n := 0
	var stack []ast.Node
	ast.Inspect(d.Decl.Body, func(nd ast.Node) bool {
		if nd == nil {
			stack = stack[:len(stack)-1]
			return true
		}
		stack = append(stack, nd)
		rs, ok := nd.(*ast.ReturnStmt)
		if !ok || len(rs.Results) != 4 {
			return true
		}
		tv := info.Types[rs.Results[2]]
		if tv.Value == nil || tv.Value.String() != "true" {
			return true
		}
		n++
		justified := false
		for i := len(stack) - 2; i >= 0; i-- {
			if is, ok := stack[i].(*ast.IfStmt); ok {
				truth := stack[i+1] == ast.Node(is.Body)
				if an.Implied(is.Cond, truth, isNotNLFact) {
					justified = true
				}
			}
		}
		r.Check(justified, "C01.R4", fmt.Sprintf("index.(*indexData).regexpToMatchTreeRecursive/single-line-claim#%d", n), rs.Pos(), "claimed only for `.` that excludes newline", "a sub-expression is declared single-line without having been tested to be OpAnyCharNotNL: with a dot-all `.*` between two literals the same-line shortcut rejects documents where the literals are on different lines although the regexp matches")
		return true
	})
	r.Floor("C01.R4.single-line-claims", 1, n)
}

// methodDecl finds the method name declared on *T (not promoted).
func methodDecl(p *an.Prog, n *types.Named, name string) *an.DeclInfo {
	obj, idx, _ := types.LookupFieldOrMethod(types.NewPointer(n), true, n.Obj().Pkg(), name)
	fn, _ := obj.(*types.Func)
	if fn == nil || len(idx) != 1 {
		return nil
	}
	return p.Decl(fn)
}

// callsOnField: does body call method `method` on receiver.field (for slices: on the value variable of a
// range over receiver.field whose body has no branch statement)?
func callsOnField(info *types.Info, body *ast.BlockStmt, recvT *types.Named, field, method string) bool {
	ok := false
	isField := func(e ast.Expr) bool {
		se, isS := ast.Unparen(e).(*ast.SelectorExpr)
		return isS && se.Sel.Name == field && info.Selections[se] != nil && an.NamedOf(info.Selections[se].Recv()) == recvT
	}
	ast.Inspect(body, func(n ast.Node) bool {
		switch x := n.(type) {
		case *ast.CallExpr:
			if se, isS := ast.Unparen(x.Fun).(*ast.SelectorExpr); isS && se.Sel.Name == method {
				inner := ast.Unparen(se.X)
				if u, isU := inner.(*ast.UnaryExpr); isU && u.Op == token.AND {
					inner = ast.Unparen(u.X)
				}
				if isField(inner) {
					ok = true
				}
			}
		case *ast.RangeStmt:
			if !isField(x.X) || x.Value == nil {
				return true
			}
			v := info.ObjectOf(x.Value.(*ast.Ident))
			called, branches := false, false
			ast.Inspect(x.Body, func(m ast.Node) bool {
				switch y := m.(type) {
				case *ast.BranchStmt:
					branches = true
				case *ast.ReturnStmt:
					branches = true
				case *ast.CallExpr:
					if se, isS := ast.Unparen(y.Fun).(*ast.SelectorExpr); isS && se.Sel.Name == method && isIdentOf(info, se.X, v) {
						called = true
					}
				}
				return true
			})
			if called && !branches {
				ok = true
			}
		}
		return true
	})
	return ok
}

func c01Propagation(p *an.Prog, r *an.R) {
	r.Rule("C01.R2", "every matchTree implementation that wraps other nodes and declares prepare calls prepare on each of its child fields (all elements for slices)")
	r.Rule("C01.R3", "(*notMatchTree).nextDoc returns the constant 0 (a negation can match any document); (*orMatchTree).nextDoc consults every child and keeps the smaller value")
	fam := matchTreeFamily(p)
	if !r.Anchor(fam != nil, "index.matchTree family") {
		return
	}
	nPrep := 0
	for _, n := range fam.impls {
		if len(fam.children[n]) == 0 {
			continue
		}
		d := methodDecl(p, n, "prepare")
		if d == nil {
			// promoted from the embedded child: the child's own prepare runs
			continue
		}
		r.Fn("index.(*" + n.Obj().Name() + ").prepare")
		for _, ch := range fam.children[n] {
			nPrep++
			r.Check(callsOnField(d.Pkg.TypesInfo, d.Decl.Body, n, ch, "prepare"), "C01.R2", "index.(*"+n.Obj().Name()+").prepare/propagates-to/"+ch, d.Decl.Pos(), "prepare reaches ."+ch, "(*"+n.Obj().Name()+").prepare does not call prepare on ."+ch+" (every element): the child still holds the state of an earlier document and its verdict for this document is wrong")
		}
	}
	r.Floor("C01.R2.child-fields", 7, nPrep)
	// R3
	for _, n := range fam.impls {
		switch n.Obj().Name() {
		case "notMatchTree":
			d := methodDecl(p, n, "nextDoc")
			if !r.Anchor(d != nil, "index.(*notMatchTree).nextDoc") {
				continue
			}
			r.Fn("index.(*notMatchTree).nextDoc")
			all, cnt := true, 0
			ast.Inspect(d.Decl.Body, func(m ast.Node) bool {
				if rs, ok := m.(*ast.ReturnStmt); ok && len(rs.Results) == 1 {
					cnt++
					if tv := d.Pkg.TypesInfo.Types[rs.Results[0]]; tv.Value == nil || tv.Value.ExactString() != "0" {
						all = false
					}
				}
				return true
			})
			r.Check(all && cnt > 0, "C01.R3", "index.(*notMatchTree).nextDoc/returns-zero", d.Decl.Pos(), "a negation never skips documents", "(*notMatchTree).nextDoc does not return the constant 0: documents on which the negated sub-query is false (so the negation true) can be skipped")
		case "orMatchTree":
			d := methodDecl(p, n, "nextDoc")
			if !r.Anchor(d != nil, "index.(*orMatchTree).nextDoc") {
				continue
			}
			r.Fn("index.(*orMatchTree).nextDoc")
			info := d.Pkg.TypesInfo
			allChildren := callsOnField(info, d.Decl.Body, n, "children", "nextDoc")
			r.Check(allChildren, "C01.R3", "index.(*orMatchTree).nextDoc/consults-every-child", d.Decl.Pos(), "every child's nextDoc is consulted", "(*orMatchTree).nextDoc does not consult every child: a document that only a skipped child matches is passed over")
			// keeps the smaller: `if m < acc { acc = m }` (or acc > m), or the builtin min
			keepsMin := false
			ast.Inspect(d.Decl.Body, func(m ast.Node) bool {
				switch x := m.(type) {
				case *ast.IfStmt:
					be, ok := ast.Unparen(x.Cond).(*ast.BinaryExpr)
					if !ok || len(x.Body.List) != 1 {
						return true
					}
					as, ok := x.Body.List[0].(*ast.AssignStmt)
					if !ok || len(as.Lhs) != 1 || len(as.Rhs) != 1 {
						return true
					}
					acc, val := as.Lhs[0], as.Rhs[0]
					same := func(a, b ast.Expr) bool { return types.ExprString(a) == types.ExprString(b) }
					if (be.Op == token.LSS && same(be.X, val) && same(be.Y, acc)) || (be.Op == token.GTR && same(be.X, acc) && same(be.Y, val)) ||
						(be.Op == token.LEQ && same(be.X, val) && same(be.Y, acc)) || (be.Op == token.GEQ && same(be.X, acc) && same(be.Y, val)) {
						keepsMin = true
					}
				case *ast.CallExpr:
					if an.IsBuiltin(info, x, "min") {
						keepsMin = true
					}
				}
				return true
			})
			r.Check(keepsMin, "C01.R3", "index.(*orMatchTree).nextDoc/keeps-the-minimum", d.Decl.Pos(), "the smallest child value is returned", "(*orMatchTree).nextDoc does not keep the smaller of the children's next documents: documents matched by the child that is behind are passed over")
		}
	}
}
