package props

import (
	"fmt"
	"go/constant"
	"go/token"
	"go/types"
	"sort"
	"strings"

	"golang.org/x/tools/go/ssa"

	"zverif/checker/an"
)

func init() { register("C33", c33) }

const lsync = "cmd/zoekt-local-sync"

// fsSinks: standard-library calls that create, change or delete files.
var c33OsSinks = map[string]bool{
	"Remove": true, "RemoveAll": true, "Rename": true, "Mkdir": true, "MkdirAll": true, "MkdirTemp": true, "Create": true, "CreateTemp": true,
	"WriteFile": true, "Chtimes": true, "Chmod": true, "Chown": true, "Symlink": true, "Link": true, "Truncate": true, "OpenFile": true,
	"File.Write": true, "File.WriteString": true, "File.WriteAt": true, "File.Truncate": true, "File.Chmod": true, "File.Sync": true,
}

// go-git entry points that mutate a repository or the file system
var c33GoGitSinks = []string{"PlainInit", "PlainClone", "Clone", "Fetch", "Pull", "Push", "Checkout", "Commit", "Add", "CreateTag", "SetConfig", "CreateRemote", "DeleteRemote", "CreateBranch", "DeleteBranch", "SetReference", "RemoveReference", "SetEncodedObject", "PackRefs", "Prune", "RepackObjects", "Reset", "Clean"}

type c33Slicer struct {
	p    *an.Prog
	mode string // "preview" | "force"
	// reached function -> via
	reached map[*ssa.Function]string
	sinks   []c33Sink
}

type c33Sink struct {
	fn   *ssa.Function
	call ssa.CallInstruction
	what string
	via  string
}

// classify: is v a preview predicate? returns (is, previewWhenTrue)
func c33Classify(v ssa.Value) (bool, bool) {
	pos := true
	for {
		if u, ok := v.(*ssa.UnOp); ok && u.Op == token.NOT {
			v = u.X
			pos = !pos
			continue
		}
		break
	}
	switch x := v.(type) {
	case *ssa.Parameter:
		if x.Name() == "dryRun" && x.Type().String() == "bool" && x.Parent().Pkg != nil && strings.HasSuffix(x.Parent().Pkg.Pkg.Path(), lsync) {
			return true, pos
		}
	case *ssa.UnOp:
		if x.Op != token.MUL {
			return false, false
		}
		switch a := x.X.(type) {
		case *ssa.FieldAddr:
			st := an.Deref(a.X.Type()).Underlying().(*types.Struct)
			name := st.Field(a.Field).Name()
			owner := an.TypeName(an.Deref(a.X.Type()))
			if name == "force" && strings.HasSuffix(owner, "syncConfig") {
				return true, !pos
			}
			if name == "DryRun" && strings.HasSuffix(owner, "gitindex.Options") {
				return true, pos
			}
		case *ssa.Call:
			// *force where force := flags.Bool("f", ...)
			if cal := an.StaticCallee(a); cal != nil && an.IsPkgFunc(cal, "flag", "FlagSet.Bool", "Bool") {
				if c, ok := a.Call.Args[len(a.Call.Args)-3].(*ssa.Const); ok && c.Value != nil && constant.StringVal(c.Value) == "f" {
					return true, !pos
				}
			}
		}
	case *ssa.Field:
		st := x.X.Type().Underlying().(*types.Struct)
		if st.Field(x.Field).Name() == "DryRun" && strings.HasSuffix(an.TypeName(x.X.Type()), "gitindex.Options") {
			return true, pos
		}
	}
	return false, false
}

func (s *c33Slicer) visit(f *ssa.Function, via string) {
	if f == nil || f.Blocks == nil {
		return
	}
	if _, ok := s.reached[f]; ok {
		return
	}
	s.reached[f] = via
	// blocks reachable in this mode
	seen := map[*ssa.BasicBlock]bool{}
	work := []*ssa.BasicBlock{f.Blocks[0]}
	// deferred closures / recover block
	if f.Recover != nil {
		work = append(work, f.Recover)
	}
	for len(work) > 0 {
		b := work[len(work)-1]
		work = work[:len(work)-1]
		if seen[b] {
			continue
		}
		seen[b] = true
		for _, in := range b.Instrs {
			s.instr(f, in)
		}
		if len(b.Instrs) > 0 {
			if iff, ok := b.Instrs[len(b.Instrs)-1].(*ssa.If); ok {
				if is, previewWhenTrue := c33Classify(iff.Cond); is {
					takeTrue := previewWhenTrue == (s.mode == "preview")
					if takeTrue {
						work = append(work, b.Succs[0])
					} else {
						work = append(work, b.Succs[1])
					}
					continue
				}
			}
		}
		work = append(work, b.Succs...)
	}
}

func (s *c33Slicer) instr(f *ssa.Function, in ssa.Instruction) {
	// closures created here may be called later (deferred, passed on): visit them
	if mc, ok := in.(*ssa.MakeClosure); ok {
		if fn, ok := mc.Fn.(*ssa.Function); ok {
			s.visit(fn, an.SSAName(f))
		}
	}
	call, ok := in.(ssa.CallInstruction)
	if !ok {
		return
	}
	common := call.Common()
	var callees []*ssa.Function
	if sc := common.StaticCallee(); sc != nil {
		callees = append(callees, sc)
	} else if n := s.p.VTA().Nodes[f]; n != nil {
		for _, e := range n.Out {
			if e.Site == call && e.Callee.Func != nil {
				callees = append(callees, e.Callee.Func)
			}
		}
	}
	// sinks are recognised on the statically resolved callee (or invoked method) only
	cal := an.CalleeAny(call)
	if cal != nil && cal.Pkg() != nil {
		pk := cal.Pkg().Path()
		what := ""
		short := cal.Name()
		if sig, ok := cal.Type().(*types.Signature); ok && sig.Recv() != nil {
			if nt := an.NamedOf(sig.Recv().Type()); nt != nil {
				short = nt.Obj().Name() + "." + cal.Name()
			}
		}
		switch {
		case pk == "os" && c33OsSinks[short] && common.StaticCallee() != nil:
			what = "os." + short
			if short == "OpenFile" && len(common.Args) >= 2 {
				if c, ok := common.Args[1].(*ssa.Const); ok && c.Value != nil {
					if v, ok := constant.Int64Val(c.Value); ok && v&(0x1|0x2|0x40|0x200|0x400) == 0 {
						what = "" // O_RDONLY without create/trunc/append
					}
				}
			}
		case (pk == "golang.org/x/sys/unix" || pk == "syscall") && (cal.Name() == "Flock" || cal.Name() == "Unlink" || cal.Name() == "Rename"):
			what = pk + "." + cal.Name()
		case pk == "os/exec" && (short == "Cmd.Run" || short == "Cmd.Start" || short == "Cmd.Output" || short == "Cmd.CombinedOutput"):
			what = "exec." + short
		case strings.HasPrefix(pk, "github.com/go-git/go-git") || strings.HasPrefix(pk, "github.com/go-git/go-billy"):
			for _, n := range c33GoGitSinks {
				if cal.Name() == n || strings.HasPrefix(cal.Name(), n) && (n == "PlainClone" || n == "Fetch" || n == "Pull" || n == "Push") {
					what = "go-git " + short
				}
			}
			if strings.Contains(pk, "go-billy") && (cal.Name() == "Create" || cal.Name() == "OpenFile" || cal.Name() == "Remove" || cal.Name() == "Rename" || cal.Name() == "MkdirAll" || cal.Name() == "TempFile") {
				what = "go-billy " + short
			}
		}
		if what != "" {
			s.sinks = append(s.sinks, c33Sink{f, call, what, an.SSAName(f)})
		}
	}
	for _, c := range callees {
		if c.Pkg != nil && an.InModule(c.Pkg.Pkg) {
			s.visit(c, an.SSAName(f))
		} else if c.Pkg == nil && c.Parent() != nil {
			s.visit(c, an.SSAName(f))
		}
	}
}

func (s *c33Slicer) path(f *ssa.Function) string {
	var parts []string
	name := an.SSAName(f)
	byName := map[string]string{}
	for fn, via := range s.reached {
		byName[an.SSAName(fn)] = via
	}
	for i := 0; i < 40 && name != ""; i++ {
		parts = append([]string{name}, parts...)
		name = byName[name]
	}
	return strings.Join(parts, " -> ")
}

func c33(p *an.Prog, r *an.R, tier string) {
	r.Explanation = "C33 (structural clauses): effect analysis under a mode slice. Starting from runSync and runRemove and following only the branch edges taken when the preview predicates (config.force == false, *force == false, dryRun, gitindex.Options.DryRun) say 'preview', no call that creates, changes or deletes a file (os.*, (*os.File) writes, flock, external processes, mutating go-git/go-billy entry points) is reachable in code of the zoekt module; the predicates are bound to each other correctly along the call edges. Does NOT decide faithfulness (that what is announced equals what -f performs) beyond planning being shared by both modes."
	r.Rule("C33.R1", "no filesystem-mutating call is reachable from runSync/runRemove in the preview slice of the inter-procedural graph")
	r.Rule("C33.R2", "predicate binding: every dryRun argument and every value stored into gitindex.Options.DryRun in zoekt-local-sync is `not force`")
	r.Rule("C33.R3", "the analysis sees the effects in force mode (floor: at least 3 distinct mutating calls reachable) - otherwise it is looking at nothing")
	r.Assume("calls into other modules are opaque and read-only except the listed mutating go-git/go-billy entry points; writes through io.Writer values (stdout/stderr) are not file-system effects")
	roots := []*ssa.Function{p.SSAFunc(p.Func(lsync, "runSync")), p.SSAFunc(p.Func(lsync, "runRemove"))}
	if !r.Anchor(roots[0] != nil && roots[1] != nil, lsync+".runSync/runRemove") {
		return
	}
	run := func(mode string) *c33Slicer {
		s := &c33Slicer{p: p, mode: mode, reached: map[*ssa.Function]string{}}
		for _, rt := range roots {
			s.visit(rt, "")
		}
		return s
	}
	prev := run("preview")
	force := run("force")
	for f := range prev.reached {
		r.Fn(an.SSAName(f))
	}
	r.Floor("C33.R1.functions-in-preview-slice", 40, len(prev.reached))
	sort.Slice(prev.sinks, func(i, j int) bool { return prev.sinks[i].call.Pos() < prev.sinks[j].call.Pos() })
	counts := map[string]int{}
	for _, sk := range prev.sinks {
		key := fmt.Sprintf("%s/%s", an.SSAName(sk.fn), sk.what)
		counts[key]++
		if counts[key] > 1 {
			key = fmt.Sprintf("%s#%d", key, counts[key])
		}
		r.Bad("C33.R1", key, sk.call.Pos(), "reachable without -f (preview): "+sk.what+" creates, changes or deletes a file. Call chain: "+prev.path(sk.fn))
	}
	if len(prev.sinks) == 0 {
		r.OK("C33.R1", lsync+"/preview-slice/no-mutating-call", roots[0].Pos(), fmt.Sprintf("%d functions reachable in the preview slice, none contains a reachable mutating call", len(prev.reached)))
	}
	distinct := map[string]bool{}
	for _, sk := range force.sinks {
		distinct[sk.what] = true
	}
	r.Floor("C33.R3.force-slice-mutating-calls", 3, len(distinct))
	r.Extra["C33.force_slice_sinks"] = keys(distinct)
	r.Extra["C33.preview_slice_functions"] = len(prev.reached)
	r.Extra["C33.force_slice_functions"] = len(force.reached)

	// R2: bindings
	n := 0
	for _, f := range p.SSAFuncs() {
		if f.Pkg == nil || !strings.HasSuffix(f.Pkg.Pkg.Path(), lsync) {
			continue
		}
		an.Instrs(f, func(b *ssa.BasicBlock, in ssa.Instruction) {
			switch x := in.(type) {
			case ssa.CallInstruction:
				callee := x.Common().StaticCallee()
				if callee == nil {
					return
				}
				for i, prm := range callee.Params {
					if is, _ := c33Classify(prm); is && i < len(x.Common().Args) {
						n++
						a := x.Common().Args[i]
						isP, whenTrue := c33Classify(a)
						key := fmt.Sprintf("%s/passes-dryRun-to/%s", an.SSAName(f), an.SSAName(callee))
						r.Check(isP && whenTrue, "C33.R2", key, x.Pos(), "the dryRun argument is `not force` (or the caller's own dryRun)", "the dryRun argument is not bound to `not force`: the callee may act although -f was not given")
					}
				}
			case *ssa.Store:
				if fa, ok := x.Addr.(*ssa.FieldAddr); ok {
					st := an.Deref(fa.X.Type()).Underlying().(*types.Struct)
					if st.Field(fa.Field).Name() == "DryRun" && strings.HasSuffix(an.TypeName(an.Deref(fa.X.Type())), "gitindex.Options") {
						n++
						isP, whenTrue := c33Classify(x.Val)
						r.Check(isP && whenTrue, "C33.R2", an.SSAName(f)+"/sets-gitindex.Options.DryRun", x.Pos(), "DryRun is initialised from `not force`", "gitindex.Options.DryRun is not initialised from `not force`: indexing runs for real in preview mode")
					}
				}
			}
		})
	}
	r.Floor("C33.R2.bindings", 4, n)
	c33Faithful(p, r)
}

// c33Faithful: structural faithfulness clauses.
func c33Faithful(p *an.Prog, r *an.R) {
	r.Rule("C33.R4", "faithfulness (structural part): in indexGitRepo every return after the DryRun gate that reports no error reports updated == true (what the preview announced); the planning calls of runSync/removeRepositories are not conditional on the mode")
	f := p.SSAFunc(p.Func("gitindex", "indexGitRepo"))
	if !r.Anchor(f != nil, "gitindex.indexGitRepo") {
		return
	}
	r.Fn(an.SSAName(f))
	// the gate: If on Options.DryRun whose preview successor returns (true, nil)
	var gate *ssa.If
	an.Instrs(f, func(b *ssa.BasicBlock, in ssa.Instruction) {
		if iff, ok := in.(*ssa.If); ok && gate == nil {
			if is, _ := c33Classify(iff.Cond); is {
				gate = iff
			}
		}
	})
	if !r.Anchor(gate != nil, "gitindex.indexGitRepo/DryRun gate") {
		return
	}
	_, previewWhenTrue := c33Classify(gate.Cond)
	realSucc := gate.Block().Succs[0]
	if previewWhenTrue {
		realSucc = gate.Block().Succs[1]
	}
	seen := map[*ssa.BasicBlock]bool{}
	work := []*ssa.BasicBlock{realSucc}
	n := 0
	for len(work) > 0 {
		b := work[len(work)-1]
		work = work[:len(work)-1]
		if seen[b] {
			continue
		}
		seen[b] = true
		for _, in := range b.Instrs {
			ret, ok := in.(*ssa.Return)
			if !ok || len(ret.Results) != 2 {
				continue
			}
			errC, isC := retOperand(ret, 1).(*ssa.Const)
			if !isC || !errC.IsNil() {
				continue // returns an error (or a dynamic one: builder.Finish())
			}
			n++
			upd, isC2 := retOperand(ret, 0).(*ssa.Const)
			ok2 := isC2 && upd.Value != nil && upd.Value.String() == "true"
			r.Check(ok2, "C33.R4", "gitindex.indexGitRepo/return-after-DryRun-gate/updated==true", ret.Pos(), "a success return after the gate reports updated == true, as the preview announced",
				"after the DryRun gate indexGitRepo can return (false, nil): the preview announced 'Would index' for exactly this state, but -f reports 'Up to date' and writes nothing")
		}
		work = append(work, b.Succs...)
	}
	r.Extra["C33.R4.success_returns_after_gate"] = n
	c33PreviewKnowsPlan(p, r)
	// the mirror image: what the preview answers at the gate. Real mode indexes on every path behind the gate
	// (checked above), so the preview must answer updated == true on every path of its own side - a computed
	// answer can say 'up to date' for a state that -f re-indexes.
	previewSucc := gate.Block().Succs[1]
	if previewWhenTrue {
		previewSucc = gate.Block().Succs[0]
	}
	var isTrue func(v ssa.Value, d int) bool
	isTrue = func(v ssa.Value, d int) bool {
		switch x := v.(type) {
		case *ssa.Const:
			return x.Value != nil && x.Value.String() == "true"
		case *ssa.Phi:
			if d > 4 {
				return false
			}
			for _, e := range x.Edges {
				if !isTrue(e, d+1) {
					return false
				}
			}
			return true
		}
		return false
	}
	pseen := map[*ssa.BasicBlock]bool{}
	work = []*ssa.BasicBlock{previewSucc}
	np := 0
	for len(work) > 0 {
		b := work[len(work)-1]
		work = work[:len(work)-1]
		if pseen[b] || seen[b] { // blocks shared with the real side were judged above
			continue
		}
		pseen[b] = true
		for _, in := range b.Instrs {
			ret, ok := in.(*ssa.Return)
			if !ok || len(ret.Results) != 2 {
				continue
			}
			if errC, isC := retOperand(ret, 1).(*ssa.Const); !isC || !errC.IsNil() {
				continue
			}
			np++
			r.Check(isTrue(retOperand(ret, 0), 0), "C33.R4", "gitindex.indexGitRepo/preview-return-at-DryRun-gate/updated==true", ret.Pos(), "the preview answers updated == true at the gate, on every path of its side",
				"at the DryRun gate the preview can answer updated == false (a computed value) although -f indexes on every path behind the gate: 'Up to date' is announced for a state that -f re-indexes")
		}
		work = append(work, b.Succs...)
	}
	r.Floor("C33.R4.preview-returns-at-gate", 1, np)
	// planning is mode independent
	for _, spec := range []struct {
		fn    string
		calls []string
	}{
		{"runSync", []string{"discoverRepositories", "readInventory", "planPrune"}},
		{"removeRepositories", []string{"readInventory", "selectRecords"}},
	} {
		sf := p.SSAFunc(p.Func(lsync, spec.fn))
		if !r.Anchor(sf != nil, lsync+"."+spec.fn) {
			continue
		}
		// blocks reachable in both modes
		reach := func(mode string) map[*ssa.BasicBlock]bool {
			seen := map[*ssa.BasicBlock]bool{}
			work := []*ssa.BasicBlock{sf.Blocks[0]}
			for len(work) > 0 {
				b := work[len(work)-1]
				work = work[:len(work)-1]
				if seen[b] {
					continue
				}
				seen[b] = true
				if iff, ok := b.Instrs[len(b.Instrs)-1].(*ssa.If); ok {
					if is, pwt := c33Classify(iff.Cond); is {
						if pwt == (mode == "preview") {
							work = append(work, b.Succs[0])
						} else {
							work = append(work, b.Succs[1])
						}
						continue
					}
				}
				work = append(work, b.Succs...)
			}
			return seen
		}
		pv, fc := reach("preview"), reach("force")
		// helpers of the package called (in both modes) from the entry point: the planning may live there
		type inner struct {
			f      *ssa.Function
			pv, fc map[*ssa.BasicBlock]bool
		}
		inners := []inner{{sf, pv, fc}}
		an.Instrs(sf, func(b *ssa.BasicBlock, in ssa.Instruction) {
			c, ok := in.(ssa.CallInstruction)
			if !ok || !(pv[b] && fc[b]) {
				return
			}
			cf := c.Common().StaticCallee()
			if cf == nil || cf.Pkg != sf.Pkg || len(cf.Blocks) == 0 {
				return
			}
			entry := sf
			sf = cf
			ipv, ifc := reach("preview"), reach("force")
			sf = entry
			inners = append(inners, inner{cf, ipv, ifc})
		})
		for _, name := range spec.calls {
			callee := p.Func(lsync, name)
			found := false
			for _, inr := range inners {
				an.Instrs(inr.f, func(b *ssa.BasicBlock, in ssa.Instruction) {
					if c, ok := in.(ssa.CallInstruction); ok && callee != nil && an.StaticCallee(c) == callee {
						found = true
						r.Check(inr.pv[b] && inr.fc[b], "C33.R4", an.SSAName(sf)+"/planning-call-in-both-modes/"+name, in.Pos(), "the planning step runs in preview and in force mode alike",
							"the planning step "+name+" runs in only one of the two modes: the preview announces a plan computed differently from the one -f executes")
					}
				})
			}
			if !found {
				r.Und("C33.R4", an.SSAName(sf)+"/planning-call-in-both-modes/"+name, sf.Pos(), "planning call not found")
			}
		}
	}
}

// retOperand resolves the i-th result of a return. In functions with defers
// go/ssa spills results: the return loads them from allocations that were
// stored to just before, in the same block.
func retOperand(ret *ssa.Return, i int) ssa.Value {
	v := ret.Results[i]
	u, ok := v.(*ssa.UnOp)
	if !ok || u.Op != token.MUL {
		return v
	}
	al, ok := u.X.(*ssa.Alloc)
	if !ok {
		return v
	}
	var last ssa.Value
	for _, in := range ret.Block().Instrs {
		if in == ssa.Instruction(u) {
			break
		}
		if st, ok := in.(*ssa.Store); ok && st.Addr == al {
			last = st.Val
		}
	}
	if last != nil {
		return last
	}
	return v
}

// c33PreviewKnowsPlan: R5. The preview leaves the shards it plans to remove on disk, so what it says about
// indexing must take the plan into account: a repository whose (same-named) shard is pruned is indexed anew by -f.
func c33PreviewKnowsPlan(p *an.Prog, r *an.R) {
	r.Rule("C33.R5", "the indexing half of the preview knows the removal half: in runSync the call of indexRepositories receives a value computed from the result of planPrune (the shards that -f removes before indexing are still on disk during the preview; judged against them a moved repository is announced 'Up to date' and then indexed by -f)")
	plan, idx := p.Func(lsync, "planPrune"), p.Func(lsync, "indexRepositories")
	pk := p.Pkg(lsync)
	if !r.Anchor(pk != nil && plan != nil && idx != nil, lsync+".planPrune/indexRepositories") {
		return
	}
	// the function that calls indexRepositories: runSync, or the helper its planning was moved into
	ncalls := 0
	for _, sf := range p.SSAFuncs() {
		if p.PkgOfSSA(sf) != pk {
			continue
		}
		var planVals []ssa.Value
		var calls []*ssa.Call
		an.Instrs(sf, func(b *ssa.BasicBlock, in ssa.Instruction) {
			if c, ok := in.(*ssa.Call); ok {
				callee := an.StaticCallee(c)
				switch {
				case callee == nil:
				case callee == plan:
					planVals = append(planVals, c)
				case callee == idx:
					calls = append(calls, c)
				case callee.Pkg() == pk.Types && strings.Contains(callee.Type().(*types.Signature).Results().String(), "pruneAction"):
					planVals = append(planVals, c) // a helper of the package that hands the plan back
				}
			}
		})
		if len(calls) == 0 {
			continue
		}
		// a plan handed in by the caller counts as well
		for _, prm := range sf.Params {
			if strings.Contains(prm.Type().String(), "pruneAction") {
				planVals = append(planVals, prm)
			}
		}
		r.Fn(an.SSAName(sf))
		for i, c := range calls {
			ncalls++
			dep := false
			seen := map[ssa.Value]bool{}
			for _, a := range c.Call.Args {
				if c33DependsOn(a, planVals, seen) {
					dep = true
				}
			}
			r.Check(dep, "C33.R5", an.SSAName(sf)+"/indexRepositories-receives-the-prune-plan#"+fmt.Sprint(i+1), c.Pos(), "an argument of indexRepositories is computed from the prune plan",
				"indexRepositories is called without anything derived from planPrune's result: in a dry run it judges every repository by the shards on disk, including those the same run would remove - a repository moved to another root under the same name is announced 'Up to date' although -f removes its shard and indexes it again")
		}
	}
	r.Floor("C33.R5.calls-of-indexRepositories", 1, ncalls)
}

// c33DependsOn: is v computed from one of the targets? Follows operands backwards; for containers made in the
// function (maps, slices, locals) also what is written into them.
func c33DependsOn(v ssa.Value, targets []ssa.Value, seen map[ssa.Value]bool) bool {
	if v == nil || seen[v] {
		return false
	}
	seen[v] = true
	for _, t := range targets {
		if v == t {
			return true
		}
	}
	in, ok := v.(ssa.Instruction)
	if !ok {
		return false
	}
	if c, ok := v.(*ssa.Call); ok {
		if b, ok := c.Call.Value.(*ssa.Builtin); ok && (b.Name() == "len" || b.Name() == "cap") {
			return false // a size says nothing about which shards are planned
		}
	}
	for _, op := range in.Operands(nil) {
		if *op != nil && c33DependsOn(*op, targets, seen) {
			return true
		}
	}
	switch v.(type) {
	case *ssa.MakeMap, *ssa.Alloc, *ssa.MakeSlice, *ssa.IndexAddr, *ssa.FieldAddr, *ssa.Slice:
		if refs := v.Referrers(); refs != nil {
			for _, ref := range *refs {
				switch w := ref.(type) {
				case *ssa.MapUpdate:
					if w.Map == v && (c33DependsOn(w.Key, targets, seen) || c33DependsOn(w.Value, targets, seen)) {
						return true
					}
				case *ssa.Store:
					if w.Addr == v && c33DependsOn(w.Val, targets, seen) {
						return true
					}
				case *ssa.IndexAddr, *ssa.FieldAddr, *ssa.Slice:
					// a store through an element/field address writes into the container
					if sub := w.(ssa.Value); !seen[sub] {
						if srefs := sub.Referrers(); srefs != nil {
							for _, sr := range *srefs {
								if st, ok := sr.(*ssa.Store); ok && st.Addr == sub && c33DependsOn(st.Val, targets, seen) {
									return true
								}
							}
						}
					}
				}
			}
		}
	}
	return false
}
