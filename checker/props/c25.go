package props

import (
	"fmt"
	"go/ast"
	"go/token"
	"go/types"
	"strings"

	"golang.org/x/tools/go/cfg"

	"zverif/checker/an"
)

func init() { register("C25", c25) }

func c25(p *an.Prog, r *an.R, tier string) {
	r.Explanation = "C25 (structural clauses): statistics conservation. Every counter of zoekt.Stats is accumulated by Stats.Add and looked at by Stats.Zero (so a stats-only event carrying only that counter is neither lost when aggregated nor dropped as 'empty'); the gRPC chunk sender attaches an event's statistics to exactly one chunk, tracked by a flag that is tested before and set when they are attached; the sampling sender on every path either forwards an event or adds its statistics to the aggregate, resets the aggregate only right after it was forwarded, and Flush forwards a non-empty aggregate; the streaming handler calls Flush after a successful StreamSearch. (R6) every pass-through zoekt.SenderFunc wrapper forwards its event on every path. Does NOT decide exactly-once/in-order delivery of files nor the message size budget."
	r.Rule("C25.R1", "every numeric/duration field of zoekt.Stats is `+=`-accumulated in Stats.Add and read in Stats.Zero (exceptions: Duration, FlushReason)")
	r.Rule("C25.R2", "gRPCChunkSender: the assignment that attaches the event's stats is guarded by a `not yet sent` flag which is set to true on that path; the flag is a bool initialised false per event")
	r.Rule("C25.R3", "samplingSender.Send: every path reaches next.Send or agg.Stats.Add(event.Stats); the aggregate is reset only after it was forwarded (next.Send(&s.agg) or event.Stats.Add(s.agg.Stats)); Flush forwards s.agg.Stats under !Zero")
	r.Rule("C25.R4", "Server.StreamSearch calls sampler.Flush() on the err == nil path after streamer.StreamSearch")
	c25Wrappers(p, r)
	statsT := p.Named("", "Stats")
	addD := p.Decl(p.Func("", "(*Stats).Add"))
	zeroD := p.Decl(p.Func("", "(*Stats).Zero"))
	if !r.Anchor(statsT != nil && addD != nil && zeroD != nil, "zoekt.Stats / Add / Zero") {
		return
	}
	r.Fn("zoekt.(*Stats).Add")
	r.Fn("zoekt.(*Stats).Zero")
	info := addD.Pkg.TypesInfo
	// fields accumulated with += in Add
	acc := map[string]bool{}
	addBodies := []ast.Node{addD.Decl.Body}
	ast.Inspect(addD.Decl.Body, func(n ast.Node) bool {
		if c, ok := n.(*ast.CallExpr); ok {
			if hf := an.Callee(info, c); hf != nil && hf.Pkg() == addD.Pkg.Types && hf.Name() != "Add" {
				if sig, ok := hf.Type().(*types.Signature); ok && sig.Recv() != nil && an.NamedOf(sig.Recv().Type()) == statsT {
					if hd := p.Decl(hf); hd != nil && hd.Decl.Body != nil {
						addBodies = append(addBodies, hd.Decl.Body)
					}
				}
			}
		}
		return true
	})
	for _, addBody := range addBodies {
		ast.Inspect(addBody, func(n ast.Node) bool {
			as, ok := n.(*ast.AssignStmt)
			if ok && as.Tok == token.ADD_ASSIGN {
				if se, ok := ast.Unparen(as.Lhs[0]).(*ast.SelectorExpr); ok && info.Selections[se] != nil {
					acc[se.Sel.Name] = true
				}
			}
			// s.X = s.X + o.X (either operand order)
			if ok && as.Tok == token.ASSIGN && len(as.Lhs) == 1 && len(as.Rhs) == 1 {
				se, isS := ast.Unparen(as.Lhs[0]).(*ast.SelectorExpr)
				be, isB := ast.Unparen(as.Rhs[0]).(*ast.BinaryExpr)
				if isS && isB && be.Op == token.ADD && info.Selections[se] != nil {
					lhs := types.ExprString(se)
					x, y := ast.Unparen(be.X), ast.Unparen(be.Y)
					other := y
					if types.ExprString(y) == lhs {
						other = x
					} else if types.ExprString(x) != lhs {
						return true
					}
					if os, isO := other.(*ast.SelectorExpr); isO && os.Sel.Name == se.Sel.Name {
						acc[se.Sel.Name] = true
					}
				}
			}
			return true
		})
	}
	zu := an.FieldUses(info, zeroD.Decl.Body, statsT)
	exceptions := map[string]string{
		"Duration":    "wall-clock time of the whole request: set by the top-level searcher, not additive across shards",
		"FlushReason": "not a counter: the first non-zero reason is kept (sticky), handled explicitly in Add",
	}
	n := 0
	for _, f := range an.StructFields(statsT) {
		b, ok := f.Type().Underlying().(*types.Basic)
		if !ok || b.Info()&types.IsNumeric == 0 {
			continue
		}
		n++
		if why, ok := exceptions[f.Name()]; ok {
			r.OK("C25.R1", "zoekt.Stats."+f.Name()+"/added-and-tested", f.Pos(), "exception: "+why)
			r.Except("Stats."+f.Name(), why)
			continue
		}
		r.Check(acc[f.Name()], "C25.R1", "zoekt.(*Stats).Add/accumulates/"+f.Name(), addD.Decl.Pos(), "accumulated with +=", "Stats.Add does not accumulate "+f.Name()+": the counter is lost whenever results are aggregated (collect sender, sampling sender, shard aggregation)")
		_, z := zu.Read[f.Name()]
		r.Check(z, "C25.R1", "zoekt.(*Stats).Zero/tests/"+f.Name(), zeroD.Decl.Pos(), "looked at by Zero", "Stats.Zero ignores "+f.Name()+": a stats-only event carrying only this counter is treated as empty and dropped by the sampling sender")
	}
	r.Floor("C25.R1.numeric-stats-fields", 18, n)
	c25Chunk(p, r)
	c25Sampling(p, r)
	c25Collect(p, r)
}

// c25Collect: the flush-collect sender serialises the downstream sender with
// its mutex: the timer goroutine and the search goroutine both send to it.
func c25Collect(p *an.Prog, r *an.R) {
	r.Rule("C25.R5", "newFlushCollectSender: every downstream sender.Send and every access to the collector happens with the local mutex held (ordering between the timer flush and later events, no concurrent Send)")
	d := p.Decl(p.Func("search", "newFlushCollectSender"))
	if !r.Anchor(d != nil, "search.newFlushCollectSender") {
		return
	}
	r.Fn("search.newFlushCollectSender")
	info := d.Pkg.TypesInfo
	sender := an.Param(info, d.Decl, 1)
	var mu types.Object
	ast.Inspect(d.Decl.Body, func(n ast.Node) bool {
		if vs, ok := n.(*ast.ValueSpec); ok {
			for _, id := range vs.Names {
				if o := info.Defs[id]; o != nil && o.Type().String() == "sync.Mutex" {
					mu = o
				}
			}
		}
		return true
	})
	if !r.Anchor(sender != nil && mu != nil, "newFlushCollectSender: sender parameter and local mutex") {
		return
	}
	muCallObj := func(n ast.Node, names ...string) bool {
		if _, isDefer := n.(*ast.DeferStmt); isDefer {
			return false
		}
		found := false
		an.Inspect(n, false, func(m ast.Node) bool {
			c, ok := m.(*ast.CallExpr)
			if !ok {
				return true
			}
			se, ok := ast.Unparen(c.Fun).(*ast.SelectorExpr)
			if !ok || !an.UsesObj(info, se.X, mu) {
				return true
			}
			for _, nm := range names {
				if se.Sel.Name == nm {
					found = true
				}
			}
			return true
		})
		return found
	}
	k := 0
	ast.Inspect(d.Decl.Body, func(n ast.Node) bool {
		lit, ok := n.(*ast.FuncLit)
		if !ok {
			return true
		}
		g := an.NewG(info, lit.Body)
		for _, l := range g.Locs(func(ast.Node) bool { return true }) {
			sends := g.Contains(l, func(m ast.Node) bool {
				c, ok := m.(*ast.CallExpr)
				if !ok {
					return false
				}
				se, ok := ast.Unparen(c.Fun).(*ast.SelectorExpr)
				if !ok || se.Sel.Name != "Send" {
					return false
				}
				if an.UsesObj(info, se.X, sender) {
					return true
				}
				// `target := sender; if collecting { target = collectSender }; target.Send(ev)`: a local that may hold the sender
				id, ok := ast.Unparen(se.X).(*ast.Ident)
				if !ok {
					return false
				}
				alias := false
				ast.Inspect(lit.Body, func(k ast.Node) bool {
					as, ok := k.(*ast.AssignStmt)
					if !ok || len(as.Lhs) != len(as.Rhs) {
						return true
					}
					for i, lh := range as.Lhs {
						if isIdentOf(info, lh, info.ObjectOf(id)) && an.UsesObj(info, as.Rhs[i], sender) {
							alias = true
						}
					}
					return true
				})
				return alias
			})
			if !sends {
				continue
			}
			k++
			held := !g.Reach(g.Entry(), false, &an.Search{Target: func(x an.Loc) bool { return x == l }, Cut: func(x an.Loc) bool { return muCallObj(g.Node(x), "Lock") }})
			for _, ul := range g.Locs(func(nd ast.Node) bool { return muCallObj(nd, "Unlock") }) {
				if g.Reach(ul, true, &an.Search{Target: func(x an.Loc) bool { return x == l }, Cut: func(x an.Loc) bool { return muCallObj(g.Node(x), "Lock") }}) {
					held = false
				}
			}
			r.Check(held, "C25.R5", fmt.Sprintf("search.newFlushCollectSender/downstream-send#%d/under-mutex", k), g.Node(l).Pos(), "the downstream sender is called with the mutex held", "the downstream sender is called without the flush-collect mutex: the timer goroutine's flush and a later event can overtake each other or run concurrently, and the final flush can return before the collected results were delivered")
		}
		return true
	})
	r.Floor("C25.R5.downstream-sends", 2, k)
}

func c25Chunk(p *an.Prog, r *an.R) {
	const srv = "cmd/zoekt-webserver/grpc/server"
	d := p.Decl(p.Func(srv, "gRPCChunkSender"))
	if !r.Anchor(d != nil, srv+".gRPCChunkSender") {
		return
	}
	r.Fn(srv + ".gRPCChunkSender")
	info := d.Pkg.TypesInfo
	// find the closure that contains an assignment X = <something>.GetStats()
	found := false
	ast.Inspect(d.Decl.Body, func(n ast.Node) bool {
		lit, ok := n.(*ast.FuncLit)
		if !ok {
			return true
		}
		g := an.NewG(info, lit.Body)
		for _, l := range g.Locs(func(ast.Node) bool { return true }) {
			// the attach site: `x = <r>.GetStats()`, or `return <r>.GetStats()` in a small closure handing the stats out
			var as ast.Node
			var rhs ast.Expr
			switch x := g.Node(l).(type) {
			case *ast.AssignStmt:
				if len(x.Rhs) == 1 {
					as, rhs = x, x.Rhs[0]
				}
			case *ast.ReturnStmt:
				if len(x.Results) == 1 {
					as, rhs = x, x.Results[0]
				}
			}
			if as == nil {
				continue
			}
			call, ok := ast.Unparen(rhs).(*ast.CallExpr)
			if !ok {
				continue
			}
			se, ok := ast.Unparen(call.Fun).(*ast.SelectorExpr)
			if !ok || se.Sel.Name != "GetStats" {
				continue
			}
			found = true
			// a guard `!flag` / `flag == false` on a captured bool, dominating the attach
			var flag types.Object
			guarded := g.GuardedBy(l, func(cond ast.Expr, truth bool) bool {
				id, ok := ast.Unparen(cond).(*ast.Ident)
				if !ok {
					return false
				}
				o := info.ObjectOf(id)
				if o == nil || o.Type().String() != "bool" || truth {
					return false
				}
				// a sent-flag is a bool that is set to true somewhere in this sender
				isFlag := false
				ast.Inspect(d.Decl.Body, func(m ast.Node) bool {
					if a2, ok := m.(*ast.AssignStmt); ok && a2.Tok == token.ASSIGN && len(a2.Lhs) == 1 && len(a2.Rhs) == 1 && an.UsesObj(info, a2.Lhs[0], o) {
						if tv := info.Types[a2.Rhs[0]]; tv.Value != nil && tv.Value.String() == "true" {
							isFlag = true
						}
					}
					return true
				})
				if !isFlag {
					return false
				}
				flag = o
				return true
			}, nil)
			r.Check(guarded && flag != nil, "C25.R2", srv+".gRPCChunkSender/stats-attached-under-not-sent-flag", as.Pos(), "the event's stats are attached only when the sent-flag is false",
				"the chunk sender attaches the event's statistics without consulting a sent-flag (e.g. by inferring 'first chunk' from counters): an event whose first chunk is empty or whose first file is larger than the message budget gets its statistics sent twice, or not at all")
			if flag == nil {
				continue
			}
			// flag = true must follow on every path from the guard edge to the closure's exit
			setsFlag := func(k an.Loc) bool {
				a2, ok := g.Node(k).(*ast.AssignStmt)
				if !ok || len(a2.Lhs) != 1 || !an.UsesObj(info, a2.Lhs[0], flag) {
					return false
				}
				tv := info.Types[a2.Rhs[0]]
				return tv.Value != nil && tv.Value.String() == "true"
			}
			// find the conditional block of the guard
			okSet := true
			for _, b := range g.C.Blocks {
				cond := an.CondOf(b)
				if cond == nil || !an.ImpliedX(g.Info, g.Body, cond, false, func(atom ast.Expr, truth bool) bool { return an.UsesObj(info, atom, flag) && !truth }) && !an.ImpliedX(g.Info, g.Body, cond, true, func(atom ast.Expr, truth bool) bool { return an.UsesObj(info, atom, flag) && !truth }) {
					continue
				}
				for k := range b.Succs {
					if !an.ImpliedX(g.Info, g.Body, cond, k == 0, func(atom ast.Expr, truth bool) bool { return an.UsesObj(info, atom, flag) && !truth }) {
						continue
					}
					start := an.Loc{B: b.Succs[k], I: 0}
					// only relevant if the attach is reachable from this edge
					if !g.Reach(start, false, &an.Search{Target: func(x an.Loc) bool { return x == l }}) {
						continue
					}
					if g.Reach(start, false, &an.Search{ExitIsTarget: true, Cut: setsFlag}) {
						okSet = false
					}
				}
			}
			if !okSet && !g.Reach(g.Entry(), false, &an.Search{ExitIsTarget: true, Cut: setsFlag}) {
				okSet = true // set unconditionally: no path through the closure leaves the flag unset
			}
			r.Check(okSet, "C25.R2", srv+".gRPCChunkSender/sent-flag-set-when-attached", as.Pos(), "the flag is set to true on the path that attaches the stats", "the sent-flag is not set on the path that attaches the statistics: every chunk of the event carries them again")
			// the flag is declared false inside the per-event closure (not shared across events)
			declOK, perChunk := false, false
			ast.Inspect(d.Decl.Body, func(m ast.Node) bool {
				if vs, isVS := m.(*ast.ValueSpec); isVS {
					for i, id := range vs.Names {
						if info.Defs[id] != flag {
							continue
						}
						if len(vs.Values) == 0 {
							declOK = true // zero value
						} else if i < len(vs.Values) {
							if tv := info.Types[vs.Values[i]]; tv.Value != nil && tv.Value.String() == "false" {
								declOK = true
							}
						}
						if vs.Pos() >= lit.Pos() && vs.End() <= lit.End() && !c25TakesEvent(info, lit) {
							perChunk = true
						}
					}
				}
				a2, ok := m.(*ast.AssignStmt)
				if ok && a2.Tok == token.DEFINE && len(a2.Lhs) == 1 {
					if id, ok := a2.Lhs[0].(*ast.Ident); ok && info.Defs[id] == flag {
						if tv := info.Types[a2.Rhs[0]]; tv.Value != nil && tv.Value.String() == "false" {
							declOK = true
						}
						// ... and outlives the single chunk: a flag declared inside the closure that runs once per
						// chunk starts as false for every chunk (the closure that receives the event itself is fine)
						if a2.Pos() >= lit.Pos() && a2.End() <= lit.End() && !c25TakesEvent(info, lit) {
							perChunk = true
						}
					}
				}
				return true
			})
			r.Check(declOK, "C25.R2", srv+".gRPCChunkSender/sent-flag-starts-false", as.Pos(), "the flag starts as false for each event", "the sent-flag is not (re)initialised to false for each event")
			r.Check(!perChunk, "C25.R2", srv+".gRPCChunkSender/sent-flag-outlives-the-chunk", as.Pos(), "the flag is declared outside the per-chunk closure, so it is still set when the next chunk of the event is sent",
				"the sent-flag is declared inside the closure that runs once per chunk: it is false again for every chunk, so each chunk of a multi-chunk event carries the event's statistics and a client that adds them up sees them multiplied")
		}
		return true
	})
	if !found {
		r.Bad("C25.R2", srv+".gRPCChunkSender/stats-attached-under-not-sent-flag", d.Decl.Pos(), "no assignment from GetStats() guarded by a sent-flag found in the chunk sender: the once-per-event attachment of statistics is not recognisable")
	}
}

func c25Sampling(p *an.Prog, r *an.R) {
	const srv = "cmd/zoekt-webserver/grpc/server"
	sendD := p.Decl(p.Func(srv, "(*samplingSender).Send"))
	flushD := p.Decl(p.Func(srv, "(*samplingSender).Flush"))
	aggF := p.Field(srv, "samplingSender", "agg")
	nextF := p.Field(srv, "samplingSender", "next")
	statsAdd := p.Func("", "(*Stats).Add")
	if !r.Anchor(sendD != nil && flushD != nil && aggF != nil && nextF != nil && statsAdd != nil, srv+".samplingSender") {
		return
	}
	r.Fn(srv + ".(*samplingSender).Send")
	r.Fn(srv + ".(*samplingSender).Flush")
	info := sendD.Pkg.TypesInfo
	g := an.NewG(info, sendD.Decl.Body)
	event := an.Param(info, sendD.Decl, 0)
	var mentionsAgg func(e ast.Node) bool
	mentionsAgg = func(e ast.Node) bool {
		f := false
		ast.Inspect(e, func(m ast.Node) bool {
			if x, ok := m.(ast.Expr); ok && selField(info, x, aggF) {
				f = true
			}
			// a single-definition local holding (a copy of) the aggregate
			if id, ok := m.(*ast.Ident); ok && !f {
				if dd := defOf(info, sendD.Decl.Body, id); dd != nil && dd != ast.Expr(id) {
					if _, isID := ast.Unparen(dd).(*ast.Ident); !isID && mentionsAgg(dd) {
						f = true
					}
				}
			}
			return true
		})
		return f
	}
	isNextSend := func(n ast.Node) (bool, *ast.CallExpr) {
		var c *ast.CallExpr
		an.Inspect(n, false, func(m ast.Node) bool {
			if call, ok := m.(*ast.CallExpr); ok {
				if se, ok := ast.Unparen(call.Fun).(*ast.SelectorExpr); ok && se.Sel.Name == "Send" && selField(info, se.X, nextF) {
					c = call
				}
			}
			return true
		})
		return c != nil, c
	}
	// forwards(event) or aggregates(event)
	handles := func(l an.Loc) bool {
		if ok, c := isNextSend(g.Node(l)); ok {
			return an.UsesObj(info, c.Args[0], event) || mentionsAgg(c.Args[0])
		}
		for _, c := range an.CallsTo(info, g.Node(l), false, statsAdd) {
			se := ast.Unparen(c.Fun).(*ast.SelectorExpr)
			// s.agg.Stats.Add(event.Stats)
			if mentionsAgg(se.X) {
				if es, ok := ast.Unparen(c.Args[0]).(*ast.SelectorExpr); ok && an.UsesObj(info, es.X, event) {
					return true
				}
			}
		}
		return false
	}
	// an event with files must be forwarded itself: aggregating only its stats would lose the files; checked by: on the path where len(event.Files)==0 is false, next.Send(event) is reached
	lost := g.Reach(g.Entry(), false, &an.Search{ExitIsTarget: true, Cut: handles})
	r.Check(!lost, "C25.R3", srv+".(*samplingSender).Send/every-path-forwards-or-aggregates", sendD.Decl.Pos(), "every path through Send forwards the event or adds its statistics to the aggregate", "a path through samplingSender.Send neither forwards the event nor adds its statistics to the aggregate: those statistics never reach the client")
	// resets
	n := 0
	for _, l := range g.Locs(func(ast.Node) bool { return true }) {
		as, ok := g.Node(l).(*ast.AssignStmt)
		if !ok || len(as.Lhs) != 1 || !selField(info, as.Lhs[0], aggF) {
			continue
		}
		n++
		forwarded := func(k an.Loc) bool {
			if ok, c := isNextSend(g.Node(k)); ok && mentionsAgg(c.Args[0]) {
				return true
			}
			for _, c := range an.CallsTo(info, g.Node(k), false, statsAdd) {
				// event.Stats.Add(s.agg.Stats)
				se := ast.Unparen(c.Fun).(*ast.SelectorExpr)
				if es, ok := ast.Unparen(se.X).(*ast.SelectorExpr); ok && an.UsesObj(info, es.X, event) && mentionsAgg(c.Args[0]) {
					return true
				}
			}
			return false
		}
		skip := g.Reach(g.Entry(), false, &an.Search{Target: func(k an.Loc) bool { return k == l }, Cut: forwarded})
		r.Check(!skip, "C25.R3", fmt.Sprintf("%s.(*samplingSender).Send/agg-reset#%d/only-after-forwarding", srv, n), as.Pos(), "the aggregate is cleared only after it was sent on or folded into the forwarded event", "the aggregated statistics are cleared on a path where they were not forwarded: counters of earlier stats-only events are lost")
	}
	r.Floor("C25.R3.aggregate-resets", 2, n)
	// Flush
	finfo := flushD.Pkg.TypesInfo
	fg := an.NewG(finfo, flushD.Decl.Body)
	sends := 0
	for _, l := range fg.Locs(func(ast.Node) bool { return true }) {
		var c *ast.CallExpr
		an.Inspect(fg.Node(l), false, func(m ast.Node) bool {
			if call, ok := m.(*ast.CallExpr); ok {
				if se, ok := ast.Unparen(call.Fun).(*ast.SelectorExpr); ok && se.Sel.Name == "Send" && selField(finfo, se.X, nextF) {
					c = call
				}
			}
			return true
		})
		if c == nil {
			continue
		}
		sends++
		hasAgg := false
		var scanAgg func(e ast.Node, depth int)
		scanAgg = func(e ast.Node, depth int) {
			ast.Inspect(e, func(m ast.Node) bool {
				if x, ok := m.(ast.Expr); ok && selField(finfo, x, aggF) {
					hasAgg = true
				}
				// the message may be built in a local first
				if id, ok := m.(*ast.Ident); ok && depth < 3 {
					if dd := defOf(finfo, flushD.Decl.Body, id); dd != nil && ast.Unparen(dd) != ast.Expr(id) {
						scanAgg(dd, depth+1)
					}
				}
				return true
			})
		}
		scanAgg(c.Args[0], 0)
		r.Check(hasAgg, "C25.R3", srv+".(*samplingSender).Flush/forwards-aggregate", c.Pos(), "Flush sends the aggregated statistics", "Flush sends something that does not contain the aggregated statistics")
	}
	r.Check(sends > 0, "C25.R3", srv+".(*samplingSender).Flush/sends", flushD.Decl.Pos(), "Flush forwards to the next sender", "Flush never sends: statistics aggregated since the last forwarded event are lost at the end of the stream")
	// R4
	hd := p.Decl(p.Func(srv, "(*Server).StreamSearch"))
	flush := p.Func(srv, "(*samplingSender).Flush")
	streamer := p.Named("", "Streamer")
	if r.Anchor(hd != nil && flush != nil && streamer != nil, srv+".(*Server).StreamSearch") {
		hinfo := hd.Pkg.TypesInfo
		hg := an.NewG(hinfo, hd.Decl.Body)
		r.Fn(srv + ".(*Server).StreamSearch")
		for _, l := range hg.Locs(func(ast.Node) bool { return true }) {
			as, ok := hg.Node(l).(*ast.AssignStmt)
			if !ok {
				continue
			}
			isStream := false
			ast.Inspect(as, func(m ast.Node) bool {
				if c, ok := m.(*ast.CallExpr); ok {
					if se, ok := ast.Unparen(c.Fun).(*ast.SelectorExpr); ok && hinfo.Selections[se] != nil && types.Identical(hinfo.Selections[se].Recv(), streamer) && se.Sel.Name == "StreamSearch" {
						isStream = true
					}
				}
				return true
			})
			if !isStream {
				continue
			}
			errID, _ := as.Lhs[len(as.Lhs)-1].(*ast.Ident)
			if errID == nil {
				r.Bad("C25.R4", srv+".(*Server).StreamSearch/flush-after-success", as.Pos(), "the error of streamer.StreamSearch is not bound")
				continue
			}
			errObj := hinfo.ObjectOf(errID)
			isFlush := hg.HasCallTo(flush)
			noFlush := hg.Reach(l, true, &an.Search{ExitIsTarget: true, Cut: isFlush, CutEdge: func(b *cfg.Block, k int) bool {
				cond := an.CondOf(b)
				if cond == nil {
					return false
				}
				ok, nonNilOnTrue := isErrNilTest(hinfo, cond, errObj)
				return ok && ((k == 0) == nonNilOnTrue) // the error edge
			}})
			r.Check(!noFlush, "C25.R4", srv+".(*Server).StreamSearch/flush-after-success", as.Pos(), "after a successful StreamSearch every path to the return passes sampler.Flush()", "the handler can return after a successful StreamSearch without sampler.Flush(): statistics aggregated since the last forwarded event never reach the client")
		}
	}
}

// c25Wrappers: a function literal turned into a zoekt.Sender (zoekt.SenderFunc(func(ev) {..})) that passes events on to
// another sender must do so on every path: an event it swallows takes its Stats and Progress with it.
func c25Wrappers(p *an.Prog, r *an.R) {
	r.Rule("C25.R6", "every zoekt.SenderFunc literal that forwards its event to another sender (x.Send(event)) does so on every path from entry to exit (limitSender, copyFileSender, the flush-collect sender, the statistics taps of typeRepoSearcher and loggedSearcher)")
	senderFunc := p.Named("", "SenderFunc")
	resT := p.Named("", "SearchResult")
	if !r.Anchor(senderFunc != nil && resT != nil, "zoekt.SenderFunc / SearchResult") {
		return
	}
	n := 0
	p.AllDecls(func(fn *types.Func, d *an.DeclInfo) {
		if d.Decl.Body == nil || strings.HasSuffix(p.Fset.Position(d.Decl.Pos()).Filename, "_test.go") {
			return
		}
		info := d.Pkg.TypesInfo
		k := 0
		ast.Inspect(d.Decl.Body, func(m ast.Node) bool {
			conv, ok := m.(*ast.CallExpr)
			if !ok || len(conv.Args) != 1 {
				return true
			}
			if tv, ok := info.Types[conv.Fun]; !ok || !tv.IsType() || an.NamedOf(tv.Type) != senderFunc {
				return true
			}
			arg := conv.Args[0]
			if dd := defOf(info, d.Decl.Body, arg); dd != nil {
				arg = dd
			}
			lit, ok := ast.Unparen(arg).(*ast.FuncLit)
			if !ok || len(lit.Type.Params.List) != 1 || len(lit.Type.Params.List[0].Names) != 1 {
				return true
			}
			ev := info.ObjectOf(lit.Type.Params.List[0].Names[0])
			g := an.NewG(info, lit.Body)
			forwards := func(l an.Loc) bool {
				hit := false
				an.Inspect(g.Node(l), false, func(x ast.Node) bool {
					c, ok := x.(*ast.CallExpr)
					if !ok {
						return true
					}
					// handed to a function of the module that sends its parameter on every path
					if hd := p.Decl(an.Callee(info, c)); hd != nil && hd.Decl.Body != nil && len(c.Args) > 1 {
						for ai, a := range c.Args {
							if !an.UsesObj(info, a, ev) {
								continue
							}
							if prm := an.Param(hd.Pkg.TypesInfo, hd.Decl, ai); prm != nil {
								hi := hd.Pkg.TypesInfo
								hg := an.NewG(hi, hd.Decl.Body)
								sends := func(k an.Loc) bool {
									f := false
									an.Inspect(hg.Node(k), false, func(y ast.Node) bool {
										if c2, ok := y.(*ast.CallExpr); ok && len(c2.Args) == 1 && an.UsesObj(hi, c2.Args[0], prm) {
											if cf := an.Callee(hi, c2); cf != nil && cf.Name() == "Send" {
												f = true
											}
										}
										return true
									})
									return f
								}
								if !hg.Reach(hg.Entry(), false, &an.Search{ExitIsTarget: true, Cut: sends}) {
									hit = true
								}
							}
						}
					}
					if len(c.Args) != 1 || !an.UsesObj(info, c.Args[0], ev) {
						return true
					}
					if cf := an.Callee(info, c); cf != nil && cf.Name() == "Send" {
						if sig, ok := cf.Type().(*types.Signature); ok && sig.Recv() != nil && sig.Params().Len() == 1 && an.NamedOf(sig.Params().At(0).Type()) == resT {
							hit = true
						}
					}
					return true
				})
				return hit
			}
			any := false
			for _, l := range g.Locs(func(ast.Node) bool { return true }) {
				if forwards(l) {
					any = true
				}
			}
			if !any {
				return true // not a pass-through wrapper (e.g. the gRPC chunk sender, which re-packs the event: C25.R2)
			}
			k++
			n++
			key := fmt.Sprintf("%s/sender-wrapper#%d/forwards-every-event", an.FuncName(fn), k)
			s := &an.Search{ExitIsTarget: true, Cut: forwards}
			swallow := g.Reach(g.Entry(), false, s)
			r.Check(!swallow, "C25.R6", key, lit.Pos(), "every path through the wrapper hands the event to the next sender",
				"the wrapper can return without passing the event on: the event's Stats and Progress are lost (the streamed totals fall behind what the shards produced and behind batch Search)")
			return true
		})
	})
	r.Floor("C25.R6.pass-through-wrappers", 5, n)
}

// c25TakesEvent: the function literal receives the search event (a parameter of type *zoekt.SearchResult), i.e.
// it runs once per event.
func c25TakesEvent(info *types.Info, lit *ast.FuncLit) bool {
	if lit.Type.Params == nil {
		return false
	}
	for _, f := range lit.Type.Params.List {
		if t := info.TypeOf(f.Type); t != nil && strings.HasSuffix(t.String(), "zoekt.SearchResult") {
			return true
		}
	}
	return false
}
