// Package props holds the per-property rule instances.
package props

import (
	"sort"

	"zverif/checker/an"
)

// Check runs every rule of one property on one loaded configuration.
type Check func(p *an.Prog, r *an.R, tier string)

var registry = map[string]Check{}

func register(id string, c Check) { registry[id] = c }

func Get(id string) Check { return registry[id] }

func IDs() []string {
	var ids []string
	for k := range registry {
		ids = append(ids, k)
	}
	sort.Strings(ids)
	return ids
}
