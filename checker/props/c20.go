package props

import (
	"fmt"
	"go/ast"
	"go/token"
	"go/types"

	"golang.org/x/tools/go/cfg"

	"zverif/checker/an"
)

func init() { register("C20", c20) }

func c20(p *an.Prog, r *an.R, tier string) {
	r.Explanation = "C20 (structural clauses): every successful scheduler.Acquire in package search is followed on all paths by process.Release; inside multiScheduler.Acquire a slot acquired on a semaphore is never dropped on a return path, the captured `sem` is released only when non-nil and reset to nil right after, it is set only after a successful Acquire on the same semaphore, and no slot is released through any other expression; Acquire/Release weights on each x/sync semaphore agree; sema.Acquire counts 'running' only on success and Acquire functions return an error only from the context-dependent semaphore call. The function installed as process.releaseFunc examines the held slot on every path. Does NOT decide the occupancy bound itself (delegated to x/sync/semaphore) nor liveness."
	r.Rule("C20.R1", "every scheduler.Acquire site: on the err==nil path every way to the function exit passes `defer proc.Release()` or proc.Release()")
	r.Rule("C20.R2", "typestate of the captured sem in multiScheduler.Acquire: Release only on `sem` itself under sem != nil and followed by sem = nil; sem = X only after X.Acquire(ctx) succeeded; after a successful Acquire in an Acquire function no return drops the slot")
	r.Rule("C20.R3", "for each x/sync semaphore value, the weights of Acquire and Release agree (same constant or same variable)")
	r.Rule("C20.R4", "sema.Acquire increments running only on the success path; Acquire functions return a non-nil error only if it is the error of the semaphore's Acquire(ctx)")
	r.Assume("golang.org/x/sync/semaphore bounds the number of holders by its capacity")
	c20Pairing(p, r)
	c20Typestate(p, r)
	c20Weights(p, r)
	c20Sema(p, r)
}

func isNilExpr(info *types.Info, e ast.Expr) bool { return info.Types[e].IsNil() }

// errNilEdge: cond tests errObj against nil; returns whether taking `truth`
// establishes errObj == nil.
func errIsNilOn(info *types.Info, cond ast.Expr, errObj types.Object, truth bool) bool {
	ok, nonNilOnTrue := isErrNilTest(info, cond, errObj)
	return ok && nonNilOnTrue != truth
}

func c20Pairing(p *an.Prog, r *an.R) {
	schedI := p.Named("search", "scheduler")
	release := p.Func("search", "(*process).Release")
	if !r.Anchor(schedI != nil && release != nil, "search.scheduler / search.(*process).Release") {
		return
	}
	acq, _, _ := types.LookupFieldOrMethod(schedI, true, p.Pkg("search").Types, "Acquire")
	acqF, _ := acq.(*types.Func)
	if !r.Anchor(acqF != nil, "search.scheduler.Acquire") {
		return
	}
	n := 0
	p.AllDecls(func(fn *types.Func, d *an.DeclInfo) {
		if d.Decl.Body == nil || !an.InModule(fn.Pkg()) {
			return
		}
		info := d.Pkg.TypesInfo
		if len(an.CallsTo(info, d.Decl.Body, false, acqF)) == 0 {
			return
		}
		g := an.NewG(info, d.Decl.Body)
		r.Fn(an.FuncName(fn))
		for _, l := range g.Locs(func(ast.Node) bool { return true }) {
			as, ok := g.Node(l).(*ast.AssignStmt)
			if !ok || len(as.Rhs) != 1 || len(an.CallsTo(info, as.Rhs[0], false, acqF)) == 0 || len(as.Lhs) != 2 {
				if ok2 := len(an.CallsTo(info, g.Node(l), false, acqF)) > 0; ok2 && !ok {
					n++
					r.Bad("C20.R1", an.FuncName(fn)+"/scheduler.Acquire/result-not-bound", g.Node(l).Pos(), "the result of scheduler.Acquire is not bound to variables: the slot can never be released")
				}
				continue
			}
			n++
			procID, _ := as.Lhs[0].(*ast.Ident)
			errID, _ := as.Lhs[1].(*ast.Ident)
			if procID == nil || errID == nil || procID.Name == "_" {
				r.Bad("C20.R1", an.FuncName(fn)+"/scheduler.Acquire/result-not-bound", as.Pos(), "the acquired process is discarded: the slot can never be released")
				continue
			}
			proc, errObj := info.ObjectOf(procID), info.ObjectOf(errID)
			isRelease := func(k an.Loc) bool {
				found := false
				for _, c := range an.CallsTo(info, g.Node(k), false, release) {
					if se, ok := ast.Unparen(c.Fun).(*ast.SelectorExpr); ok && an.UsesObj(info, se.X, proc) {
						found = true
					}
				}
				return found
			}
			s := &an.Search{ExitIsTarget: true, Cut: isRelease, CutEdge: func(b *cfg.Block, k int) bool {
				cond := an.CondOf(b)
				if cond == nil {
					return false
				}
				ok, nonNilOnTrue := isErrNilTest(info, cond, errObj)
				// cut the edge on which err is non-nil (no slot is held there)
				return ok && ((k == 0) == nonNilOnTrue)
			}}
			leak := g.Reach(l, true, s)
			// the error must actually be tested before the process is used: otherwise the nil-edge cut above never applies and the exit is reachable
			r.Check(!leak, "C20.R1", an.FuncName(fn)+"/scheduler.Acquire/released-on-all-paths", as.Pos(),
				"after a successful Acquire every path to the exit passes proc.Release (deferred)",
				"after a successful scheduler.Acquire the function can return without proc.Release(): the slot leaks and the scheduler's capacity shrinks permanently")
		}
	})
	r.Floor("C20.R1.acquire-sites", 3, n)
}

func c20Typestate(p *an.Prog, r *an.R) {
	acqHelpers := c20AcquireHelpers(p)
	semaAcq := p.Func("search", "(*sema).Acquire")
	semaRel := p.Func("search", "(*sema).Release")
	wAcq := p.ExtFunc("golang.org/x/sync/semaphore", "Weighted.Acquire")
	wRel := p.ExtFunc("golang.org/x/sync/semaphore", "Weighted.Release")
	if !r.Anchor(semaAcq != nil && semaRel != nil && wAcq != nil && wRel != nil, "sema/semaphore Acquire/Release") {
		return
	}
	// (d) in every function named Acquire/acquire of package search returning (*process, error):
	// after a successful semaphore Acquire no return with a nil process without Release
	for _, name := range []string{"(*multiScheduler).Acquire", "(*semaphoreScheduler).acquire"} {
		f := p.Func("search", name)
		d := p.Decl(f)
		if !r.Anchor(d != nil, "search."+name) {
			continue
		}
		r.Fn(an.FuncName(f))
		info := d.Pkg.TypesInfo
		g := an.NewG(info, d.Decl.Body)
		found := 0
		for _, l := range g.Locs(func(ast.Node) bool { return true }) {
			calls := an.CallsTo(info, g.Node(l), false, semaAcq, wAcq)
			if len(calls) == 0 {
				continue
			}
			found++
			// error variable of this acquire
			var errObj types.Object
			if as, ok := g.Node(l).(*ast.AssignStmt); ok {
				if id, ok := as.Lhs[len(as.Lhs)-1].(*ast.Ident); ok {
					errObj = info.ObjectOf(id)
				}
			}
			if errObj == nil {
				r.Bad("C20.R2", an.FuncName(f)+"/semaphore-acquire/error-not-bound", g.Node(l).Pos(), "the error of the semaphore Acquire is not bound: a failed acquisition is treated as a held slot")
				continue
			}
			isRel := g.HasCallTo(semaRel, wRel)
			s := &an.Search{
				Cut: isRel,
				Target: func(k an.Loc) bool {
					rs, ok := g.Node(k).(*ast.ReturnStmt)
					return ok && len(rs.Results) > 0 && isNilExpr(info, rs.Results[0])
				},
				CutEdge: func(b *cfg.Block, k int) bool {
					cond := an.CondOf(b)
					if cond == nil {
						return false
					}
					ok, nonNilOnTrue := isErrNilTest(info, cond, errObj)
					return ok && ((k == 0) == nonNilOnTrue)
				},
			}
			drop := g.Reach(l, true, s)
			pos := g.Node(l).Pos()
			if drop {
				pos = g.Node(s.Witness).Pos()
			}
			r.Check(!drop, "C20.R2", an.FuncName(f)+"/no-return-drops-acquired-slot", pos,
				"after the semaphore was acquired every return hands out a process (or releases first)",
				"a return with a nil process is reachable after the semaphore was acquired successfully and without releasing it: the caller gets nothing to release, the slot leaks")
		}
		r.Floor("C20.R2."+name+".semaphore-acquires", 1, found)
	}

	// closures of multiScheduler.Acquire
	f := p.Func("search", "(*multiScheduler).Acquire")
	d := p.Decl(f)
	if d == nil {
		return
	}
	info := d.Pkg.TypesInfo
	// the captured typestate variable: a local of type *sema assigned in the body
	var semVar types.Object
	ast.Inspect(d.Decl.Body, func(n ast.Node) bool {
		if as, ok := n.(*ast.AssignStmt); ok && as.Tok == token.DEFINE && semVar == nil {
			for _, lh := range as.Lhs {
				if id, ok := lh.(*ast.Ident); ok {
					if o := info.Defs[id]; o != nil && o.Type().String() == "*"+an.Mod+"/search.sema" {
						semVar = o
					}
				}
			}
			return false
		}
		_, isLit := n.(*ast.FuncLit)
		return !isLit
	})
	// ... or, when the closures were turned into methods of a small struct, a field of type *sema that is
	// re-assigned somewhere in the package (the scheduler's own semaphores are set once, in its constructor's literal)
	type tsBody struct {
		body *ast.BlockStmt
		name string
	}
	var bodies []tsBody
	if semVar == nil {
		for _, file := range d.Pkg.Syntax {
			ast.Inspect(file, func(n ast.Node) bool {
				as, ok := n.(*ast.AssignStmt)
				if !ok || as.Tok != token.ASSIGN || len(as.Lhs) != len(as.Rhs) {
					return true
				}
				for _, lh := range as.Lhs {
					se, ok := ast.Unparen(lh).(*ast.SelectorExpr)
					if !ok {
						continue
					}
					if fv, ok := info.Uses[se.Sel].(*types.Var); ok && fv.IsField() && fv.Type().String() == "*"+an.Mod+"/search.sema" && semVar == nil {
						semVar = fv
					}
				}
				return true
			})
		}
		if semVar != nil {
			for _, file := range d.Pkg.Syntax {
				for _, dc := range file.Decls {
					fd, ok := dc.(*ast.FuncDecl)
					if !ok || fd.Body == nil || !mentionsObj(info, fd.Body, semVar) {
						continue
					}
					fo, _ := info.Defs[fd.Name].(*types.Func)
					if fo == nil {
						continue
					}
					bodies = append(bodies, tsBody{fd.Body, an.FuncName(fo)})
					k := 0
					ast.Inspect(fd.Body, func(n ast.Node) bool {
						if lit, ok := n.(*ast.FuncLit); ok {
							k++
							bodies = append(bodies, tsBody{lit.Body, fmt.Sprintf("%s$%d", an.FuncName(fo), k)})
						}
						return true
					})
				}
			}
		}
	} else {
		k := 0
		ast.Inspect(d.Decl.Body, func(n ast.Node) bool {
			if lit, ok := n.(*ast.FuncLit); ok {
				k++
				bodies = append(bodies, tsBody{lit.Body, fmt.Sprintf("%s$%d", an.FuncName(f), k)})
			}
			return true
		})
	}
	if !r.Anchor(semVar != nil, "multiScheduler.Acquire/typestate variable of type *sema") {
		return
	}
	lits := 0
	releases, sets := 0, 0
	for _, tb := range bodies {
		lits++
		lit := tb
		g := an.NewG(info, tb.body)
		litName := tb.name
		semNonNil := func(cond ast.Expr, truth bool) bool {
			be, ok := ast.Unparen(cond).(*ast.BinaryExpr)
			if !ok || !c20IsCell(info, be.X, semVar) || !isNilExpr(info, be.Y) {
				return false
			}
			return (be.Op == token.NEQ) == truth
		}
		assignsSem := func(k an.Loc) (ast.Expr, bool) {
			as, ok := g.Node(k).(*ast.AssignStmt)
			if !ok {
				return nil, false
			}
			for i, lh := range as.Lhs {
				if c20IsCell(info, lh, semVar) && i < len(as.Rhs) {
					return as.Rhs[i], true
				}
			}
			return nil, false
		}
		for _, l := range g.Locs(func(ast.Node) bool { return true }) {
			// releases
			for _, c := range an.CallsTo(info, g.Node(l), false, semaRel) {
				releases++
				se := ast.Unparen(c.Fun).(*ast.SelectorExpr)
				key := litName + "/sema.Release"
				if !c20IsCell(info, se.X, semVar) {
					r.Bad("C20.R2", key+"/not-on-typestate-variable", c.Pos(), "a slot is released through `"+types.ExprString(se.X)+"` instead of the captured sem: the release is not tied to the slot this process holds (double release admits more than the capacity)")
					continue
				}
				guarded := g.GuardedBy(l, semNonNil, func(k an.Loc) bool { _, a := assignsSem(k); return a })
				r.Check(guarded, "C20.R2", key+"/guarded-by-sem!=nil", c.Pos(), "sem.Release() only under sem != nil", "sem.Release() is reachable with sem == nil or without the sem != nil test: a second Release/Yield releases a slot that is not held")
				// followed by sem = nil before exit or any Acquire
				s := &an.Search{ExitIsTarget: true,
					Cut: func(k an.Loc) bool {
						rhs, a := assignsSem(k)
						return a && isNilExpr(info, rhs)
					},
					Target: func(k an.Loc) bool { return k != l && len(an.CallsTo(info, g.Node(k), false, semaAcq, semaRel)) > 0 },
				}
				stale := g.Reach(l, true, s)
				r.Check(!stale, "C20.R2", key+"/followed-by-sem=nil", c.Pos(), "sem = nil follows the release before the closure can exit or acquire again",
					"after sem.Release() the closure can exit (or call Acquire/Release again) with sem still set: the next Release/Yield releases the same slot twice")
			}
			// sem = X (X != nil)
			if rhs, a := assignsSem(l); a && !isNilExpr(info, rhs) {
				sets++
				key := litName + "/sem=" + types.ExprString(rhs)
				rid, _ := ast.Unparen(rhs).(*ast.Ident)
				var robj types.Object
				if rid != nil {
					robj = info.ObjectOf(rid)
				}
				// guarded by err == nil where err comes from robj.Acquire(ctx)
				ok := robj != nil && g.GuardedBy(l, func(cond ast.Expr, truth bool) bool {
					be, isB := ast.Unparen(cond).(*ast.BinaryExpr)
					if !isB {
						return false
					}
					id, isI := ast.Unparen(be.X).(*ast.Ident)
					if !isI || !isNilExpr(info, be.Y) {
						return false
					}
					eo := info.ObjectOf(id)
					if eo == nil || !types.Identical(eo.Type(), errorType) {
						return false
					}
					if (be.Op == token.NEQ) == truth {
						return false // this edge has err != nil
					}
					// eo must be defined by robj.Acquire(...), or together with robj by an acquire helper
					def := false
					ast.Inspect(lit.body, func(m ast.Node) bool {
						as, isA := m.(*ast.AssignStmt)
						if !isA || len(as.Rhs) != 1 {
							return true
						}
						defines := false
						for _, lh := range as.Lhs {
							if lid, ok := lh.(*ast.Ident); ok && info.ObjectOf(lid) == eo {
								defines = true
							}
						}
						if !defines {
							return true
						}
						if hc, ok := ast.Unparen(as.Rhs[0]).(*ast.CallExpr); ok && len(as.Lhs) == 2 && acqHelpers[an.Callee(info, hc)] && isIdentOf(info, as.Lhs[0], robj) {
							def = true
						}
						for _, c := range an.CallsTo(info, as.Rhs[0], false, semaAcq) {
							if se, ok := ast.Unparen(c.Fun).(*ast.SelectorExpr); ok && an.UsesObj(info, se.X, robj) {
								def = true
							}
						}
						return true
					})
					return def
				}, nil)
				r.Check(ok, "C20.R2", key+"/only-after-successful-acquire", g.Node(l).Pos(), "sem is set only on the err == nil edge of "+types.ExprString(rhs)+".Acquire(ctx)",
					"sem is set to "+types.ExprString(rhs)+" on a path where "+types.ExprString(rhs)+".Acquire(ctx) did not (yet) succeed: a later Release gives back a slot that was never acquired")
			}
		}
	}
	// the function installed as process.releaseFunc looks at the cell on every path: a Release that can return
	// without examining whether a slot is held leaves it to somebody else to give the slot back
	var examines func(body *ast.BlockStmt, depth int) bool
	examines = func(body *ast.BlockStmt, depth int) bool {
		if body == nil || depth > 2 {
			return false
		}
		g := an.NewG(info, body)
		cut := func(k an.Loc) bool {
			hit := false
			an.Inspect(g.Node(k), false, func(m ast.Node) bool {
				switch x := m.(type) {
				case *ast.BinaryExpr:
					if (x.Op == token.NEQ || x.Op == token.EQL) && ((c20IsCell(info, x.X, semVar) && isNilExpr(info, x.Y)) || (c20IsCell(info, x.Y, semVar) && isNilExpr(info, x.X))) {
						hit = true
					}
				case *ast.CallExpr:
					// a local closure or a method of the package that itself examines the cell
					if id, ok := ast.Unparen(x.Fun).(*ast.Ident); ok {
						if dd := defOf(info, d.Decl.Body, id); dd != nil {
							if fl, ok := ast.Unparen(dd).(*ast.FuncLit); ok && examines(fl.Body, depth+1) {
								hit = true
							}
						}
					}
					if callee := an.Callee(info, x); callee != nil && callee.Pkg() == d.Pkg.Types {
						if hd := p.Decl(callee); hd != nil && examines(hd.Decl.Body, depth+1) {
							hit = true
						}
					}
				}
				return !hit
			})
			return hit
		}
		return !g.Reach(g.Entry(), false, &an.Search{ExitIsTarget: true, Cut: cut})
	}
	nRel := 0
	ast.Inspect(d.Decl.Body, func(n ast.Node) bool {
		cl, ok := n.(*ast.CompositeLit)
		if !ok {
			return true
		}
		v := litField(cl, "releaseFunc")
		if v == nil {
			return true
		}
		nRel++
		var body *ast.BlockStmt
		e := ast.Unparen(v)
		if dd := defOf(info, d.Decl.Body, e); dd != nil {
			e = ast.Unparen(dd)
		}
		switch x := e.(type) {
		case *ast.FuncLit:
			body = x.Body
		case *ast.SelectorExpr:
			if mf, ok := info.Uses[x.Sel].(*types.Func); ok {
				if hd := p.Decl(mf); hd != nil {
					body = hd.Decl.Body
				}
			}
		}
		key := an.FuncName(f) + "/releaseFunc/examines-the-held-slot-on-every-path"
		if body == nil {
			r.Und("C20.R2", key, v.Pos(), "the value installed as releaseFunc is neither a function literal, a local closure nor a method")
			return true
		}
		r.Check(examines(body, 0), "C20.R2", key, v.Pos(), "every path through the release function tests the held slot (sem != nil) or calls a function that does",
			"the release function can return without looking at the slot it may hold (an early return ahead of the sem != nil test): whether the slot is given back then depends on another party, and a slot acquired in between (yield to the batch queue) is never released")
		return true
	})
	r.Floor("C20.R2.release-functions", 1, nRel)
	r.Floor("C20.R2.closures", 1, lits)
	r.Floor("C20.R2.release-sites", 1, releases)
	r.Floor("C20.R2.sem-assignments", 1, sets)
}

// c20Weights: Acquire/Release weights agree per semaphore value.
func c20Weights(p *an.Prog, r *an.R) {
	wAcq := p.ExtFunc("golang.org/x/sync/semaphore", "Weighted.Acquire")
	wTry := p.ExtFunc("golang.org/x/sync/semaphore", "Weighted.TryAcquire")
	wRel := p.ExtFunc("golang.org/x/sync/semaphore", "Weighted.Release")
	if !r.Anchor(wAcq != nil && wRel != nil, "semaphore.Weighted") {
		return
	}
	type site struct {
		fn     string
		weight ast.Expr
		info   *types.Info
		pos    token.Pos
	}
	acq := map[types.Object][]site{}
	rel := map[types.Object][]site{}
	recvObj := func(info *types.Info, c *ast.CallExpr) types.Object {
		se, ok := ast.Unparen(c.Fun).(*ast.SelectorExpr)
		if !ok {
			return nil
		}
		switch x := ast.Unparen(se.X).(type) {
		case *ast.Ident:
			return info.ObjectOf(x)
		case *ast.SelectorExpr:
			if s := info.Selections[x]; s != nil {
				return s.Obj()
			}
		}
		return nil
	}
	p.AllDecls(func(fn *types.Func, d *an.DeclInfo) {
		if d.Decl.Body == nil {
			return
		}
		info := d.Pkg.TypesInfo
		for _, c := range an.CallsTo(info, d.Decl.Body, true, wAcq, wTry) {
			if o := recvObj(info, c); o != nil {
				acq[o] = append(acq[o], site{an.FuncName(fn), c.Args[len(c.Args)-1], info, c.Pos()})
			}
		}
		for _, c := range an.CallsTo(info, d.Decl.Body, true, wRel) {
			if o := recvObj(info, c); o != nil {
				rel[o] = append(rel[o], site{an.FuncName(fn), c.Args[0], info, c.Pos()})
			}
		}
	})
	same := func(a, b site) bool {
		ta, tb := a.info.Types[a.weight], b.info.Types[b.weight]
		if ta.Value != nil && tb.Value != nil {
			return ta.Value.String() == tb.Value.String()
		}
		ia, oka := ast.Unparen(a.weight).(*ast.Ident)
		ib, okb := ast.Unparen(b.weight).(*ast.Ident)
		return oka && okb && a.info.ObjectOf(ia) == b.info.ObjectOf(ib)
	}
	n := 0
	for o, as := range acq {
		rs := rel[o]
		name := o.Name()
		if v, ok := o.(*types.Var); ok && v.IsField() {
			name = "field " + o.Name()
		}
		for _, a := range as {
			n++
			key := fmt.Sprintf("%s/semaphore(%s)/weights-agree", a.fn, name)
			if len(rs) == 0 {
				r.Bad("C20.R3", key, a.pos, "this semaphore is acquired but never released anywhere")
				continue
			}
			all := true
			for _, rr := range rs {
				if !same(a, rr) {
					all = false
				}
			}
			r.Check(all, "C20.R3", key, a.pos, "every Release on this semaphore uses the same weight as this Acquire",
				"Acquire and Release on this semaphore use different weights: the semaphore's count drifts and its bound no longer holds")
		}
	}
	r.Floor("C20.R3.acquire-sites", 3, n)
}

// c20Sema: R4.
func c20Sema(p *an.Prog, r *an.R) {
	f := p.Func("search", "(*sema).Acquire")
	d := p.Decl(f)
	wAcq := p.ExtFunc("golang.org/x/sync/semaphore", "Weighted.Acquire")
	semaAcq := f
	if !r.Anchor(d != nil && wAcq != nil, "search.(*sema).Acquire") {
		return
	}
	r.Fn(an.FuncName(f))
	info := d.Pkg.TypesInfo
	g := an.NewG(info, d.Decl.Body)
	running := p.Field("search", "sema", "metricRunning")
	var errObj types.Object
	for _, l := range g.Locs(func(ast.Node) bool { return true }) {
		if as, ok := g.Node(l).(*ast.AssignStmt); ok && len(an.CallsTo(info, as, false, wAcq)) > 0 {
			if id, ok := as.Lhs[len(as.Lhs)-1].(*ast.Ident); ok {
				errObj = info.ObjectOf(id)
			}
		}
	}
	if !r.Anchor(errObj != nil && running != nil, "sema.Acquire/err of sem.Acquire, sema.metricRunning") {
		return
	}
	for _, l := range g.Locs(func(ast.Node) bool { return true }) {
		touches := false
		if _, isDefer := g.Node(l).(*ast.DeferStmt); isDefer {
			continue
		}
		an.Inspect(g.Node(l), false, func(m ast.Node) bool {
			if se, ok := m.(*ast.SelectorExpr); ok && info.Selections[se] != nil && info.Selections[se].Obj() == running {
				touches = true
			}
			return true
		})
		if touches {
			ok := g.GuardedBy(l, func(cond ast.Expr, truth bool) bool { return errIsNilOn(info, cond, errObj, truth) }, nil)
			r.Check(ok, "C20.R4", "search.(*sema).Acquire/running-counted-only-on-success", g.Node(l).Pos(), "metricRunning changes only after the semaphore was acquired", "running is counted on a path where the semaphore was not acquired")
		}
		if rs, ok := g.Node(l).(*ast.ReturnStmt); ok && len(rs.Results) == 1 && isNilExpr(info, rs.Results[0]) {
			ok := g.GuardedBy(l, func(cond ast.Expr, truth bool) bool { return errIsNilOn(info, cond, errObj, truth) }, nil)
			r.Check(ok, "C20.R4", "search.(*sema).Acquire/returns-nil-only-on-success", rs.Pos(), "`return nil` only after the semaphore was acquired", "sema.Acquire can return nil without holding the semaphore: more than capacity searches run")
		}
	}
	// error returns of the Acquire functions come from the semaphore call (or from an acquire helper, see c20AcquireHelpers)
	acqFns := []*types.Func{wAcq, semaAcq}
	for h := range c20AcquireHelpers(p) {
		acqFns = append(acqFns, h)
	}
	for _, name := range []string{"(*sema).Acquire", "(*multiScheduler).Acquire", "(*semaphoreScheduler).acquire"} {
		ff := p.Func("search", name)
		dd := p.Decl(ff)
		if dd == nil {
			continue
		}
		inf := dd.Pkg.TypesInfo
		var bodies []*ast.BlockStmt
		bodies = append(bodies, dd.Decl.Body)
		ast.Inspect(dd.Decl.Body, func(n ast.Node) bool {
			if lit, ok := n.(*ast.FuncLit); ok {
				bodies = append(bodies, lit.Body)
			}
			return true
		})
		k := 0
		for _, body := range bodies {
			an.Inspect(body, false, func(n ast.Node) bool {
				rs, ok := n.(*ast.ReturnStmt)
				if !ok || len(rs.Results) == 0 {
					return true
				}
				last := rs.Results[len(rs.Results)-1]
				t := inf.TypeOf(last)
				if t == nil || !types.Identical(t, errorType) || isNilExpr(inf, last) {
					return true
				}
				k++
				key := fmt.Sprintf("%s/error-return#%d/from-semaphore-acquire", an.FuncName(ff), k)
				id, isID := ast.Unparen(last).(*ast.Ident)
				ok2 := false
				if isID {
					eo := inf.ObjectOf(id)
					ast.Inspect(dd.Decl.Body, func(m ast.Node) bool {
						as, isA := m.(*ast.AssignStmt)
						if !isA {
							return true
						}
						for _, lh := range as.Lhs {
							if lid, ok := lh.(*ast.Ident); ok && inf.ObjectOf(lid) == eo && len(an.CallsTo(inf, as, false, acqFns...)) > 0 {
								ok2 = true
							}
						}
						return true
					})
				}
				r.Check(ok2, "C20.R4", key, rs.Pos(), "the returned error is the error of the semaphore's Acquire(ctx)", "an Acquire function returns an error that does not come from the semaphore's Acquire(ctx): an acquisition can fail although its context is not done")
				return true
			})
		}
	}
}

// c20AcquireHelpers: functions of package search of the form
//
//	func (..) h(ctx) (*sema, error) { x := ...; if err := x.Acquire(ctx); err != nil { return nil, err }; return x, nil }
//
// i.e. every `return X, nil` is reached only on the err == nil edge of X.Acquire(..) and every other
// return hands back nil and the error of that Acquire. A value obtained from such a helper (under
// err == nil) is a successfully acquired semaphore.
func c20AcquireHelpers(p *an.Prog) map[*types.Func]bool {
	out := map[*types.Func]bool{}
	sp := p.Pkg("search")
	semaAcq := p.Func("search", "(*sema).Acquire")
	if sp == nil || semaAcq == nil {
		return out
	}
	info := sp.TypesInfo
	p.AllDecls(func(fn *types.Func, d *an.DeclInfo) {
		if d.Pkg != sp || d.Decl.Body == nil || fn == semaAcq {
			return
		}
		sig := fn.Type().(*types.Signature)
		if sig.Results().Len() != 2 || !types.Identical(sig.Results().At(1).Type(), errorType) {
			return
		}
		if len(an.CallsTo(info, d.Decl.Body, false, semaAcq)) == 0 {
			return
		}
		g := an.NewG(info, d.Decl.Body)
		good, rets := true, 0
		for _, l := range g.Locs(func(n ast.Node) bool { _, ok := n.(*ast.ReturnStmt); return ok }) {
			rs := g.Node(l).(*ast.ReturnStmt)
			if len(rs.Results) != 2 {
				good = false
				continue
			}
			rets++
			if isNilExpr(info, rs.Results[1]) {
				rid, ok := ast.Unparen(rs.Results[0]).(*ast.Ident)
				if !ok {
					good = false
					continue
				}
				robj := info.ObjectOf(rid)
				okAcq := g.GuardedBy(l, func(cond ast.Expr, truth bool) bool {
					be, isB := ast.Unparen(cond).(*ast.BinaryExpr)
					if !isB || !isNilExpr(info, be.Y) {
						return false
					}
					id, isI := ast.Unparen(be.X).(*ast.Ident)
					if !isI || (be.Op == token.NEQ) == truth {
						return false
					}
					eo := info.ObjectOf(id)
					def := false
					ast.Inspect(d.Decl.Body, func(m ast.Node) bool {
						as, isA := m.(*ast.AssignStmt)
						if !isA || len(as.Rhs) != 1 {
							return true
						}
						for _, lh := range as.Lhs {
							if lid, ok := lh.(*ast.Ident); ok && info.ObjectOf(lid) == eo {
								for _, c := range an.CallsTo(info, as.Rhs[0], false, semaAcq) {
									if se, ok := ast.Unparen(c.Fun).(*ast.SelectorExpr); ok && an.UsesObj(info, se.X, robj) {
										def = true
									}
								}
							}
						}
						return true
					})
					return def
				}, nil)
				if !okAcq {
					good = false
				}
			} else {
				if !isNilExpr(info, rs.Results[0]) {
					good = false
				}
				eid, ok := ast.Unparen(rs.Results[1]).(*ast.Ident)
				fromAcq := false
				if ok {
					eo := info.ObjectOf(eid)
					ast.Inspect(d.Decl.Body, func(m ast.Node) bool {
						if as, isA := m.(*ast.AssignStmt); isA {
							for _, lh := range as.Lhs {
								if lid, ok := lh.(*ast.Ident); ok && info.ObjectOf(lid) == eo && len(an.CallsTo(info, as, false, semaAcq)) > 0 {
									fromAcq = true
								}
							}
						}
						return true
					})
				}
				if !fromAcq {
					good = false
				}
			}
		}
		if good && rets > 0 {
			out[fn] = true
		}
	})
	return out
}

// c20IsCell: e denotes the typestate cell (the captured local, or <x>.field when the cell is a struct field)
func c20IsCell(info *types.Info, e ast.Expr, cell types.Object) bool {
	if an.UsesObj(info, e, cell) {
		return true
	}
	se, ok := ast.Unparen(e).(*ast.SelectorExpr)
	return ok && cell != nil && info.Uses[se.Sel] == cell
}

func mentionsObj(info *types.Info, n ast.Node, obj types.Object) bool {
	found := false
	ast.Inspect(n, func(m ast.Node) bool {
		if id, ok := m.(*ast.Ident); ok && obj != nil && info.Uses[id] == obj {
			found = true
		}
		return !found
	})
	return found
}
