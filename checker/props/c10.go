package props

import (
	"fmt"
	"go/ast"
	"go/types"
	"sort"

	"golang.org/x/tools/go/ssa"

	"zverif/checker/an"
)

func init() { register("C10", c10) }

func c10(p *an.Prog, r *an.R, tier string) {
	r.Explanation = "C10 (structural clause): pooled posting buffers carry nothing from one shard into the next. Every field of postingsBuilder that ingestion writes is re-initialised by reset(); for the two containers that keep their posting lists allocated (the ASCII array and the non-ASCII map) reset() re-initialises, for every retained list, each postingList field that ingestion writes; a builder taken from the pool is reset before it is handed out. Does NOT decide independence of results from shard limit, parallelism and insertion order (value-level)."
	r.Rule("C10.R1", "fields(postingsBuilder) stored by any function other than reset ⊆ fields stored by reset (containers of retained posting lists are covered by R2)")
	r.Rule("C10.R2", "for each container of retained posting lists, reset stores every postingList field that ingestion stores")
	r.Rule("C10.R3", "getPostingsBuilder: a builder obtained from the pool is reset() on every path before it is returned")
	pbT := p.Named("index", "postingsBuilder")
	plT := p.Named("index", "postingList")
	reset := p.SSAFunc(p.Func("index", "(*postingsBuilder).reset"))
	if !r.Anchor(pbT != nil && plT != nil && reset != nil, "index.postingsBuilder / postingList / reset") {
		return
	}
	idx := p.Pkg("index")
	// which postingsBuilder fields hold retained posting lists
	container := map[string]bool{}
	for _, f := range an.StructFields(pbT) {
		var elem types.Type
		switch t := f.Type().Underlying().(type) {
		case *types.Array:
			elem = t.Elem()
		case *types.Slice:
			elem = t.Elem()
		case *types.Map:
			elem = t.Elem()
		}
		if elem != nil && an.NamedOf(elem) == plT {
			container[f.Name()] = true
		}
	}
	r.Floor("C10.R2.containers", 2, len(container))
	// stores in a function: postingsBuilder fields, and postingList fields (with the container they were reached through, if visible)
	type stores struct {
		pb map[string]bool
		pl map[string]map[string]bool // container -> fields
	}
	collect := func(f *ssa.Function) stores {
		s := stores{pb: map[string]bool{}, pl: map[string]map[string]bool{}}
		containerOf := func(v ssa.Value) string {
			// walk back from a *postingList value to the postingsBuilder field it was loaded from
			seen := map[ssa.Value]bool{}
			var walk func(v ssa.Value, d int) string
			walk = func(v ssa.Value, d int) string {
				if v == nil || seen[v] || d > 8 {
					return ""
				}
				seen[v] = true
				switch x := v.(type) {
				case *ssa.FieldAddr:
					if an.NamedOf(x.X.Type()) == pbT {
						return an.StructFields(pbT)[x.Field].Name()
					}
					return walk(x.X, d+1)
				case *ssa.UnOp:
					return walk(x.X, d+1)
				case *ssa.IndexAddr:
					return walk(x.X, d+1)
				case *ssa.Index:
					return walk(x.X, d+1)
				case *ssa.Lookup:
					return walk(x.X, d+1)
				case *ssa.Extract:
					return walk(x.Tuple, d+1)
				case *ssa.Next:
					return walk(x.Iter, d+1)
				case *ssa.Range:
					return walk(x.X, d+1)
				case *ssa.Phi:
					for _, e := range x.Edges {
						if c := walk(e, d+1); c != "" {
							return c
						}
					}
				}
				return ""
			}
			return walk(v, 0)
		}
		an.Instrs(f, func(b *ssa.BasicBlock, in ssa.Instruction) {
			var addr ssa.Value
			switch x := in.(type) {
			case *ssa.Store:
				addr = x.Addr
			case *ssa.MapUpdate:
				addr = x.Map
			case *ssa.Call:
				// a method of postingList (e.g. a truncate/append helper) stores on behalf of its caller
				callee := x.Call.StaticCallee()
				if callee == nil || callee.Pkg == nil || callee.Pkg.Pkg != idx.Types || len(callee.Blocks) == 0 || len(x.Call.Args) == 0 || an.NamedOf(x.Call.Args[0].Type()) != plT {
					return
				}
				c := containerOf(x.Call.Args[0])
				an.Instrs(callee, func(_ *ssa.BasicBlock, in2 ssa.Instruction) {
					st, ok := in2.(*ssa.Store)
					if !ok {
						return
					}
					root := st.Addr
					for {
						if ia, ok := root.(*ssa.IndexAddr); ok {
							root = ia.X
							continue
						}
						break
					}
					if fa, ok := root.(*ssa.FieldAddr); ok && an.NamedOf(fa.X.Type()) == plT && len(callee.Params) > 0 && fa.X == ssa.Value(callee.Params[0]) {
						if s.pl[c] == nil {
							s.pl[c] = map[string]bool{}
						}
						s.pl[c][an.StructFields(plT)[fa.Field].Name()] = true
					}
				})
				return
			default:
				return
			}
			// direct field of postingsBuilder (possibly through an index into a container field)
			root := addr
			for {
				if ia, ok := root.(*ssa.IndexAddr); ok {
					root = ia.X
					continue
				}
				if u, ok := root.(*ssa.UnOp); ok {
					root = u.X
					continue
				}
				break
			}
			if fa, ok := root.(*ssa.FieldAddr); ok {
				if an.NamedOf(fa.X.Type()) == pbT {
					s.pb[an.StructFields(pbT)[fa.Field].Name()] = true
				}
				if an.NamedOf(fa.X.Type()) == plT {
					c := containerOf(fa.X)
					if s.pl[c] == nil {
						s.pl[c] = map[string]bool{}
					}
					s.pl[c][an.StructFields(plT)[fa.Field].Name()] = true
				}
			}
		})
		return s
	}
	rs := collect(reset)
	r.Fn(an.SSAName(reset))
	ing := stores{pb: map[string]bool{}, pl: map[string]map[string]bool{}}
	ingFns := 0
	for _, f := range p.SSAFuncs() {
		if f.Pkg == nil || f.Pkg.Pkg != idx.Types || f == reset {
			continue
		}
		if f.Name() == "newPostingsBuilder" {
			continue // constructor
		}
		s := collect(f)
		if len(s.pb) == 0 && len(s.pl) == 0 {
			continue
		}
		ingFns++
		r.Fn(an.SSAName(f))
		for k := range s.pb {
			ing.pb[k] = true
		}
		for _, m := range s.pl {
			for k := range m {
				if ing.pl[""] == nil {
					ing.pl[""] = map[string]bool{}
				}
				ing.pl[""][k] = true
			}
		}
	}
	r.Floor("C10.R1.ingestion-functions", 1, ingFns)
	var names []string
	for k := range ing.pb {
		names = append(names, k)
	}
	sort.Strings(names)
	r.Floor("C10.R1.fields-written-by-ingestion", 6, len(names))
	for _, n := range names {
		key := "index.(*postingsBuilder).reset/resets/" + n
		if container[n] {
			r.OK("C10.R1", key, reset.Pos(), "container of retained posting lists: its elements are reset (C10.R2)")
			continue
		}
		r.Check(rs.pb[n], "C10.R1", key, reset.Pos(), "re-initialised by reset()", "ingestion writes postingsBuilder."+n+" but reset() does not re-initialise it: a builder taken from the pool carries the previous shard's "+n+" into the next shard (results then depend on how shards were built)")
	}
	// R2
	var plFields []string
	for k := range ing.pl[""] {
		plFields = append(plFields, k)
	}
	sort.Strings(plFields)
	r.Floor("C10.R2.postingList-fields-written-by-ingestion", 2, len(plFields))
	for c := range container {
		for _, f := range plFields {
			key := fmt.Sprintf("index.(*postingsBuilder).reset/resets/%s[*].%s", c, f)
			r.Check(rs.pl[c][f], "C10.R2", key, reset.Pos(), "reset for every retained posting list of this container", "reset() does not re-initialise postingList."+f+" for the lists retained in "+c+": the first delta of a reused list is computed against the previous shard's state, so postings point at wrong offsets")
		}
	}
	// R3
	gd := p.Decl(p.Func("index", "(*Builder).getPostingsBuilder"))
	resetObj := p.Func("index", "(*postingsBuilder).reset")
	poolGet := p.ExtFunc("sync", "Pool.Get")
	if r.Anchor(gd != nil && poolGet != nil, "index.(*Builder).getPostingsBuilder / sync.Pool.Get") {
		info := gd.Pkg.TypesInfo
		g := an.NewG(info, gd.Decl.Body)
		r.Fn("index.(*Builder).getPostingsBuilder")
		// the variable bound to the pooled value
		// the variables bound to the pooled value (directly, or through a type assertion of it)
		pooledSet := map[types.Object]bool{}
		for changed := true; changed; {
			changed = false
			ast.Inspect(gd.Decl.Body, func(n ast.Node) bool {
				as, ok := n.(*ast.AssignStmt)
				if !ok || len(as.Rhs) != 1 {
					return true
				}
				from := len(an.CallsTo(info, as, false, poolGet)) > 0
				ast.Inspect(as.Rhs[0], func(m ast.Node) bool {
					if id, ok := m.(*ast.Ident); ok && pooledSet[info.ObjectOf(id)] {
						from = true
					}
					return true
				})
				if from {
					if id, ok := as.Lhs[0].(*ast.Ident); ok && info.ObjectOf(id) != nil && !pooledSet[info.ObjectOf(id)] {
						pooledSet[info.ObjectOf(id)] = true
						changed = true
					}
				}
				return true
			})
		}
		usesPooled := func(e ast.Expr) bool {
			id, ok := ast.Unparen(e).(*ast.Ident)
			return ok && pooledSet[info.ObjectOf(id)]
		}
		if r.Anchor(len(pooledSet) > 0, "getPostingsBuilder/pooled value") {
			k := 0
			for _, l := range g.Locs(func(n ast.Node) bool { rs, ok := n.(*ast.ReturnStmt); return ok && len(rs.Results) == 1 }) {
				rsn := g.Node(l).(*ast.ReturnStmt)
				if !usesPooled(rsn.Results[0]) {
					continue
				}
				k++
				isReset := func(x an.Loc) bool {
					for _, c := range an.CallsTo(info, g.Node(x), false, resetObj) {
						if se, ok := ast.Unparen(c.Fun).(*ast.SelectorExpr); ok && usesPooled(se.X) {
							return true
						}
					}
					return false
				}
				skip := g.Reach(g.Entry(), false, &an.Search{Target: func(x an.Loc) bool { return x == l }, Cut: isReset})
				r.Check(!skip, "C10.R3", "index.(*Builder).getPostingsBuilder/reset-before-reuse", rsn.Pos(), "the pooled builder is reset() before it is returned", "a builder taken from the pool can be returned without reset(): the next shard starts with the previous shard's postings")
			}
			r.Floor("C10.R3.pooled-returns", 1, k)
		}
	}
}
