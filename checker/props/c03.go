package props

import (
	"fmt"
	"go/ast"
	"go/types"
	"strings"

	"golang.org/x/tools/go/ssa"

	"zverif/checker/an"
)

func init() { register("C03", c03) }

// litField returns the value of key in a keyed composite literal.
func litField(cl *ast.CompositeLit, key string) ast.Expr {
	for _, e := range cl.Elts {
		if kv, ok := e.(*ast.KeyValueExpr); ok {
			if id, ok := kv.Key.(*ast.Ident); ok && id.Name == key {
				return kv.Value
			}
		}
	}
	return nil
}

// stripConv removes type conversions and parentheses.
func astStripConv(info *types.Info, e ast.Expr) ast.Expr {
	for {
		e = ast.Unparen(e)
		c, ok := e.(*ast.CallExpr)
		if !ok || len(c.Args) != 1 {
			return e
		}
		if tv, ok := info.Types[c.Fun]; ok && tv.IsType() {
			e = c.Args[0]
			continue
		}
		return e
	}
}

// defOf returns the single defining expression of a local identifier (nil when
// not an identifier or defined more than once).
func defOf(info *types.Info, body ast.Node, e ast.Expr) ast.Expr {
	id, ok := ast.Unparen(e).(*ast.Ident)
	if !ok {
		return nil
	}
	obj := info.ObjectOf(id)
	var def ast.Expr
	n := 0
	ast.Inspect(body, func(m ast.Node) bool {
		as, ok := m.(*ast.AssignStmt)
		if !ok {
			return true
		}
		for k, l := range as.Lhs {
			if isIdentOf(info, l, obj) {
				n++
				if len(as.Lhs) == len(as.Rhs) {
					def = as.Rhs[k]
				} else {
					def = nil
				}
			}
		}
		return true
	})
	if n != 1 {
		return nil
	}
	return def
}

// resolveLocal follows single-definition locals (through conversions) to the
// expression that defines them.
func resolveLocal(info *types.Info, body ast.Node, e ast.Expr) ast.Expr {
	for i := 0; i < 6 && e != nil; i++ {
		e = astStripConv(info, e)
		d := defOf(info, body, e)
		if d == nil {
			return e
		}
		if _, isIdent := ast.Unparen(astStripConv(info, d)).(*ast.Ident); !isIdent {
			return e // keep the last local name: it is what the sibling uses
		}
		e = d
	}
	return e
}

func sameExpr(a, b ast.Expr) bool {
	return a != nil && b != nil && types.ExprString(ast.Unparen(a)) == types.ExprString(ast.Unparen(b))
}

// isCallNamed: e is a call x.name(args...) (or name(args...)).
func isCallNamed(e ast.Expr, name string) *ast.CallExpr {
	c, ok := ast.Unparen(e).(*ast.CallExpr)
	if !ok {
		return nil
	}
	switch f := ast.Unparen(c.Fun).(type) {
	case *ast.SelectorExpr:
		if f.Sel.Name == name {
			return c
		}
	case *ast.Ident:
		if f.Name == name {
			return c
		}
	}
	return nil
}

func c03(p *an.Prog, r *an.R, tier string) {
	r.Explanation = "C03 (structural clauses): the facts a match carries are built from the same quantities. A file-name match (FileName: true) carries fileName(doc) as its text. A LineMatch's Line is data[a:b] with the very a and b stored in LineStart and LineEnd, a is lineStart(n) for the n stored in LineNumber. A content ChunkMatch's Content is getLines(data, f, ...) for the f stored in ContentStart.LineNumber, ContentStart.ByteOffset is lineStart(f) and its column is 1. Each range Location is {ByteOffset: o, LineNumber: l, Column: column(lineStart(l), o)} for one l and one o. Does NOT decide the arithmetic of line lookup, context clamping at file boundaries, chunk merging or column counting (values)."
	r.Rule("C03.R1", "every LineMatch/ChunkMatch literal with FileName: true has Line/Content = fileName(...) of the current document")
	r.Rule("C03.R2", "LineMatch literal and its Line assignment in fillContentMatches: Line = data[LineStart:LineEnd], LineStart = lineStart(LineNumber)")
	r.Rule("C03.R3", "content ChunkMatch literal: Content = getLines(data, F, ..), ContentStart = {ByteOffset: lineStart(F), LineNumber: F, Column: 1}")
	r.Rule("C03.R4", "every Location literal of a range in fillContentChunkMatches: Column = columnHelper.get(lineStart(L), O) with L its LineNumber and O its ByteOffset")
	idx := p.Pkg("index")
	if !r.Anchor(idx != nil, "index package") {
		return
	}
	info := idx.TypesInfo
	isType := func(e ast.Expr, name string) bool {
		t := info.TypeOf(e)
		return t != nil && strings.HasSuffix(an.TypeName(t), "zoekt."+name)
	}
	isTrue := func(e ast.Expr) bool {
		tv := info.Types[e]
		return e != nil && tv.Value != nil && tv.Value.String() == "true"
	}
	nFile, nLine, nChunk, nLoc := 0, 0, 0, 0
	p.AllDecls(func(fn *types.Func, d *an.DeclInfo) {
		if d.Pkg != idx || d.Decl.Body == nil || strings.HasSuffix(p.Fset.Position(d.Decl.Pos()).Filename, "_test.go") {
			return
		}
		fname := an.FuncName(fn)
		body := d.Decl.Body
		ast.Inspect(body, func(n ast.Node) bool {
			cl, ok := n.(*ast.CompositeLit)
			if !ok {
				return true
			}
			switch {
			case isType(cl, "LineMatch") || isType(cl, "ChunkMatch"):
				textKey := "Line"
				if isType(cl, "ChunkMatch") {
					textKey = "Content"
				}
				if isTrue(litField(cl, "FileName")) {
					nFile++
					r.Fn(fname)
					txt := litField(cl, textKey)
					src := txt
					if dd := defOf(info, body, txt); dd != nil {
						src = dd
					}
					r.Check(src != nil && isCallNamed(src, "fileName") != nil, "C03.R1", fmt.Sprintf("%s/%s{FileName:true}/text-is-the-file-name", fname, textKey), cl.Pos(), "the file-name match carries fileName(doc)", "a file-name match is built with `"+exprStr(txt)+"` as its text instead of the document's file name")
					return true
				}
				if isType(cl, "LineMatch") && litField(cl, "LineStart") != nil {
					nLine++
					r.Fn(fname)
					ls, le, ln := litField(cl, "LineStart"), litField(cl, "LineEnd"), litField(cl, "LineNumber")
					// the Line assignment: <var>.Line = data[a:b]
					var lineSlice *ast.SliceExpr
					ast.Inspect(body, func(m ast.Node) bool {
						as, ok := m.(*ast.AssignStmt)
						if !ok || len(as.Lhs) != 1 || len(as.Rhs) != 1 {
							return true
						}
						if se, ok := ast.Unparen(as.Lhs[0]).(*ast.SelectorExpr); ok && se.Sel.Name == "Line" && isType(se.X, "LineMatch") {
							lineSlice, _ = ast.Unparen(as.Rhs[0]).(*ast.SliceExpr)
						}
						return true
					})
					if l := litField(cl, "Line"); l != nil {
						lineSlice, _ = ast.Unparen(l).(*ast.SliceExpr)
					}
					okSlice := lineSlice != nil && sameExpr(resolveLocal(info, body, lineSlice.Low), resolveLocal(info, body, ls)) && sameExpr(resolveLocal(info, body, lineSlice.High), resolveLocal(info, body, le))
					r.Check(okSlice, "C03.R2", fname+"/LineMatch/line-text-is-data[LineStart:LineEnd]", cl.Pos(), "Line, LineStart and LineEnd are built from the same two offsets", "the line text is not data[LineStart:LineEnd] for the offsets stored in the same LineMatch")
					// LineStart defined as lineStart(LineNumber)
					okStart := false
					if dd := defOf(info, body, resolveLocal(info, body, ls)); dd != nil {
						if c := isCallNamed(astStripConv(info, dd), "lineStart"); c != nil && len(c.Args) == 1 && sameExpr(resolveLocal(info, body, c.Args[0]), resolveLocal(info, body, ln)) {
							okStart = true
						}
					}
					r.Check(okStart, "C03.R2", fname+"/LineMatch/LineStart-is-lineStart(LineNumber)", cl.Pos(), "LineStart is the start of the line whose number is reported", "LineStart is not lineStart(LineNumber) for the LineNumber stored in the same LineMatch")
				}
				if isType(cl, "ChunkMatch") && litField(cl, "ContentStart") != nil {
					nChunk++
					r.Fn(fname)
					content := litField(cl, "Content")
					cs, _ := ast.Unparen(litField(cl, "ContentStart")).(*ast.CompositeLit)
					ok := false
					if gl := isCallNamed(content, "getLines"); gl != nil && len(gl.Args) == 3 && cs != nil {
						first := gl.Args[1]
						lnOK := sameExpr(resolveLocal(info, body, litField(cs, "LineNumber")), resolveLocal(info, body, first))
						boOK := false
						bo := resolveLocal(info, body, litField(cs, "ByteOffset"))
						if dd := defOf(info, body, bo); dd != nil {
							bo = astStripConv(info, dd)
						}
						if c := isCallNamed(bo, "lineStart"); c != nil && len(c.Args) == 1 && sameExpr(resolveLocal(info, body, c.Args[0]), resolveLocal(info, body, first)) {
							boOK = true
						}
						colOK := false
						if tv := info.Types[litField(cs, "Column")]; tv.Value != nil && tv.Value.ExactString() == "1" {
							colOK = true
						}
						ok = lnOK && boOK && colOK
					}
					r.Check(ok, "C03.R3", fname+"/ChunkMatch/content-starts-at-ContentStart", cl.Pos(), "Content, ContentStart.LineNumber and ContentStart.ByteOffset are built from the same first line", "the chunk content does not start at the line and byte offset reported in its ContentStart")
				}
			case isType(cl, "Location"):
				col := litField(cl, "Column")
				get := isCallNamed(col, "get")
				if get == nil {
					return true // ContentStart (checked above)
				}
				nLoc++
				r.Fn(fname)
				ok := false
				if len(get.Args) == 2 {
					ls := isCallNamed(astStripConv(info, get.Args[0]), "lineStart")
					ok = ls != nil && len(ls.Args) == 1 && sameExpr(ls.Args[0], astStripConv(info, litField(cl, "LineNumber"))) && sameExpr(get.Args[1], litField(cl, "ByteOffset"))
				}
				r.Check(ok, "C03.R4", fmt.Sprintf("%s/Location#%d/line-column-offset-agree", fname, nLoc), cl.Pos(), "Column is computed from this Location's own line and byte offset", "a range Location's column is not computed from the line start of its own LineNumber and its own ByteOffset")
			}
			return true
		})
	})
	c03Reset(p, r)
	r.Floor("C03.R1.file-name-matches", 2, nFile)
	r.Floor("C03.R2.line-matches", 1, nLine)
	r.Floor("C03.R3.chunk-matches", 1, nChunk)
	r.Floor("C03.R4.locations", 2, nLoc)
}

func exprStr(e ast.Expr) string {
	if e == nil {
		return "<absent>"
	}
	return types.ExprString(e)
}

// c03Reset: the content provider is reused for every document of a shard;
// whatever one of its methods caches in a field must be reset by setDocument.
func c03Reset(p *an.Prog, r *an.R) {
	r.Rule("C03.R5", "fields(contentProvider) stored by any function other than setDocument \\ {scratch buffers, sticky error} ⊆ fields stored by setDocument: no per-document cache (line table, sections, content, look-up hints) survives into the next document")
	cpT := p.Named("index", "contentProvider")
	setDoc := p.SSAFunc(p.Func("index", "(*contentProvider).setDocument"))
	idx := p.Pkg("index")
	if !r.Anchor(cpT != nil && setDoc != nil && idx != nil, "index.contentProvider / setDocument") {
		return
	}
	fields := an.StructFields(cpT)
	storesOf := func(f *ssa.Function) map[string]bool {
		out := map[string]bool{}
		// a field whose address is handed on (stored elsewhere, passed to a call) can be written through that pointer
		an.Instrs(f, func(b *ssa.BasicBlock, in ssa.Instruction) {
			fa, ok := in.(*ssa.FieldAddr)
			if !ok || an.NamedOf(fa.X.Type()) != cpT {
				return
			}
			if _, fresh := fa.X.(*ssa.Alloc); fresh {
				return
			}
			if fa.Referrers() == nil {
				return
			}
			for _, ref := range *fa.Referrers() {
				switch x := ref.(type) {
				case *ssa.UnOp, *ssa.FieldAddr, *ssa.IndexAddr, *ssa.DebugRef:
				case *ssa.Store:
					if x.Addr != ssa.Value(fa) {
						out[fields[fa.Field].Name()] = true // the address itself is stored somewhere
					}
				default:
					out[fields[fa.Field].Name()] = true
				}
			}
		})
		an.Instrs(f, func(b *ssa.BasicBlock, in ssa.Instruction) {
			st, ok := in.(*ssa.Store)
			if !ok {
				return
			}
			// direct field store, or a store into a struct-typed field's sub-field
			addr := st.Addr
			for {
				fa, ok := addr.(*ssa.FieldAddr)
				if !ok {
					return
				}
				if an.NamedOf(fa.X.Type()) == cpT {
					if _, fresh := fa.X.(*ssa.Alloc); fresh {
						return // construction of a new provider, not a per-document cache
					}
					out[fields[fa.Field].Name()] = true
					return
				}
				addr = fa.X
			}
		})
		return out
	}
	reset := storesOf(setDoc)
	exceptions := map[string]string{
		"_nlBuf":   "scratch buffer handed to readNewlines as capacity only; the line table itself (_nl) is reset",
		"_sectBuf": "scratch buffer handed to readDocSections as capacity only; the sections themselves (_sects) are reset",
		"err":      "sticky read error of the provider, never used to answer a question about a document",
	}
	written := map[string][]string{}
	for _, f := range p.SSAFuncs() {
		if f.Pkg == nil || f.Pkg.Pkg != idx.Types || f == setDoc {
			continue
		}
		if strings.HasSuffix(p.Fset.Position(f.Pos()).Filename, "_test.go") {
			continue
		}
		for name := range storesOf(f) {
			written[name] = append(written[name], an.SSAName(f))
		}
	}
	n := 0
	for _, fld := range fields {
		who := written[fld.Name()]
		if len(who) == 0 {
			continue
		}
		n++
		key := "index.contentProvider." + fld.Name() + "/reset-per-document"
		if why, ok := exceptions[fld.Name()]; ok {
			r.OK("C03.R5", key, fld.Pos(), "exception: "+why)
			r.Except("contentProvider."+fld.Name(), why)
			continue
		}
		r.Fn(who[0])
		r.Check(reset[fld.Name()], "C03.R5", key, fld.Pos(), "written by "+who[0]+" and reset by setDocument", "contentProvider."+fld.Name()+" is written by "+strings.Join(who, ", ")+" but not reset by setDocument: what was cached for one document is used to answer questions about the next (wrong line numbers, offsets or text)")
	}
	r.Floor("C03.R5.cached-fields", 4, n)
}
