package props

import (
	"go/ast"
	"go/token"
	"go/types"
	"sort"
	"strings"

	"zverif/checker/an"
)

func init() { register("C28", c28) }

const hyb = "internal/hybridre2"

// engineOf: which regexp engine package a type or function belongs to.
func engineOf(o types.Object) string {
	if o == nil || o.Pkg() == nil {
		return ""
	}
	path := o.Pkg().Path()
	switch {
	case path == "github.com/grafana/regexp":
		return "grafana"
	case path == "github.com/wasilibs/go-re2" || strings.HasPrefix(path, "github.com/wasilibs/go-re2/"):
		return "re2"
	}
	return ""
}

// aliasRoot follows single-definition locals (`x := e`) back to their source.
func aliasRoot(info *types.Info, body *ast.BlockStmt, e ast.Expr) ast.Expr {
	for i := 0; i < 8; i++ {
		id, ok := ast.Unparen(e).(*ast.Ident)
		if !ok {
			return e
		}
		obj := info.ObjectOf(id)
		var def ast.Expr
		n := 0
		ast.Inspect(body, func(m ast.Node) bool {
			as, ok := m.(*ast.AssignStmt)
			if !ok {
				return true
			}
			for k, l := range as.Lhs {
				if lid, ok := l.(*ast.Ident); ok && info.ObjectOf(lid) == obj {
					n++
					if len(as.Lhs) == len(as.Rhs) && as.Tok == token.DEFINE {
						def = as.Rhs[k]
					}
				}
			}
			return true
		})
		if n != 1 || def == nil {
			return e
		}
		e = def
	}
	return e
}

func assignedIn(info *types.Info, body ast.Node, obj types.Object) bool {
	hit := false
	ast.Inspect(body, func(m ast.Node) bool {
		switch x := m.(type) {
		case *ast.AssignStmt:
			for _, l := range x.Lhs {
				if id, ok := ast.Unparen(l).(*ast.Ident); ok && info.ObjectOf(id) == obj && x.Tok != token.DEFINE {
					hit = true
				}
			}
		case *ast.IncDecStmt:
			if id, ok := ast.Unparen(x.X).(*ast.Ident); ok && info.ObjectOf(id) == obj {
				hit = true
			}
		case *ast.UnaryExpr:
			if x.Op == token.AND {
				if id, ok := ast.Unparen(x.X).(*ast.Ident); ok && info.ObjectOf(id) == obj {
					hit = true
				}
			}
		}
		return true
	})
	return hit
}

func c28(p *an.Prog, r *an.R, tier string) {
	r.Explanation = "C28 (structural clauses): the hybrid regexp hands both engines the same work. Compile passes its pattern parameter, unmodified, to both engine compilers; every matching method of hybridre2.Regexp that uses the RE2 engine calls the same-named method of the other engine with the same parameters, returns either result unmodified, and touches the RE2 engine only under a non-nil test. Does NOT decide that the two third-party engines agree on every pattern and input (their semantics are outside this source tree), which is the substance of the property."
	r.Rule("C28.R1", "hybridre2.Compile: every engine Compile call receives the unmodified pattern parameter; both engines are compiled from it")
	r.Rule("C28.R2", "every method of hybridre2.Regexp that calls engine method M on one engine calls M on the other with the identical parameter list, and each call is a direct return operand")
	r.Rule("C28.R3", "every use of the re2 field's methods is guarded by re.re2 != nil")
	pkg := p.Pkg(hyb)
	if !r.Anchor(pkg != nil, hyb) {
		return
	}
	info := pkg.TypesInfo
	comp := p.Decl(p.Func(hyb, "Compile"))
	if r.Anchor(comp != nil, hyb+".Compile") {
		r.Fn(hyb + ".Compile")
		pat := an.Param(info, comp.Decl, 0)
		seen := map[string]int{}
		ast.Inspect(comp.Decl.Body, func(n ast.Node) bool {
			c, ok := n.(*ast.CallExpr)
			if !ok {
				return true
			}
			f := an.Callee(info, c)
			if f == nil {
				return true
			}
			eng := engineOf(f)
			if eng == "" || !strings.Contains(f.Name(), "Compile") || len(c.Args) == 0 {
				return true
			}
			seen[eng]++
			root := aliasRoot(info, comp.Decl.Body, c.Args[0])
			id, isID := ast.Unparen(root).(*ast.Ident)
			ok = isID && info.ObjectOf(id) == pat && !assignedIn(info, comp.Decl.Body, pat)
			r.Check(ok, "C28.R1", hyb+".Compile/"+eng+"/same-pattern", c.Pos(), "the "+eng+" engine is compiled from the unmodified pattern parameter", "the "+eng+" engine is compiled from `"+types.ExprString(c.Args[0])+"`, not from the unmodified pattern parameter: the two engines match different languages and results depend on the threshold")
			return true
		})
		r.Floor("C28.R1.engines-compiled", 2, len(seen))
	}
	// methods of Regexp
	named := p.Named(hyb, "Regexp")
	if !r.Anchor(named != nil, hyb+".Regexp") {
		return
	}
	var fieldEng = map[types.Object]string{}
	for _, f := range an.StructFields(named) {
		if n := an.NamedOf(an.Deref(f.Type())); n != nil {
			if e := engineOf(n.Obj()); e != "" {
				fieldEng[f] = e
			}
		}
	}
	r.Floor("C28.engine-fields", 2, len(fieldEng))
	nDispatch := 0
	p.AllDecls(func(fn *types.Func, d *an.DeclInfo) {
		if d.Pkg != pkg || d.Decl.Recv == nil || d.Decl.Body == nil {
			return
		}
		sig := fn.Type().(*types.Signature)
		if sig.Recv() == nil || an.NamedOf(an.Deref(sig.Recv().Type())) != named {
			return
		}
		type ecall struct {
			c    *ast.CallExpr
			eng  string
			name string
		}
		var calls []ecall
		ast.Inspect(d.Decl.Body, func(n ast.Node) bool {
			c, ok := n.(*ast.CallExpr)
			if !ok {
				return true
			}
			se, ok := ast.Unparen(c.Fun).(*ast.SelectorExpr)
			if !ok {
				return true
			}
			inner, ok := ast.Unparen(se.X).(*ast.SelectorExpr)
			if !ok || info.Selections[inner] == nil {
				return true
			}
			if e := fieldEng[info.Selections[inner].Obj()]; e != "" {
				calls = append(calls, ecall{c, e, se.Sel.Name})
			}
			return true
		})
		usesRE2 := false
		for _, c := range calls {
			if c.eng == "re2" {
				usesRE2 = true
			}
		}
		if !usesRE2 {
			return
		}
		nDispatch++
		r.Fn(an.FuncName(fn))
		g := an.NewG(info, d.Decl.Body)
		byEng := map[string][]ecall{}
		for _, c := range calls {
			byEng[c.eng] = append(byEng[c.eng], c)
		}
		params := map[types.Object]bool{}
		for i := 0; i < sig.Params().Len(); i++ {
			params[sig.Params().At(i)] = true
		}
		argKey := func(c *ast.CallExpr) (string, bool) {
			var parts []string
			for _, a := range c.Args {
				root := aliasRoot(info, d.Decl.Body, a)
				id, ok := ast.Unparen(root).(*ast.Ident)
				if !ok || !params[info.ObjectOf(id)] || assignedIn(info, d.Decl.Body, info.ObjectOf(id)) {
					return types.ExprString(a), false
				}
				parts = append(parts, id.Name)
			}
			return strings.Join(parts, ","), true
		}
		for _, c := range byEng["re2"] {
			key := an.FuncName(fn) + "/" + c.name
			ka, oka := argKey(c.c)
			matched := false
			for _, o := range byEng["grafana"] {
				kb, okb := argKey(o.c)
				if o.name == c.name && oka && okb && ka == kb {
					matched = true
				}
			}
			r.Check(matched, "C28.R2", key+"/same-method-same-arguments", c.c.Pos(), "both engines are called with "+c.name+"("+ka+")", "the RE2 engine is called with "+c.name+"("+ka+") but the other engine is not called with the same method and the same unmodified parameters: results depend on which engine the threshold selects")
			// guard
			if l, ok := g.Find(c.c); ok {
				guarded := g.GuardedBy(l, func(cond ast.Expr, truth bool) bool {
					be, ok := ast.Unparen(cond).(*ast.BinaryExpr)
					if !ok || !(be.Op == token.NEQ && truth || be.Op == token.EQL && !truth) {
						return false
					}
					isRE2 := func(e ast.Expr) bool {
						se, ok := ast.Unparen(e).(*ast.SelectorExpr)
						return ok && info.Selections[se] != nil && fieldEng[info.Selections[se].Obj()] == "re2"
					}
					return (isRE2(be.X) && info.Types[be.Y].IsNil()) || (isRE2(be.Y) && info.Types[be.X].IsNil())
				}, nil)
				r.Check(guarded, "C28.R3", key+"/re2-non-nil", c.c.Pos(), "the RE2 engine is used only after a non-nil test", "the RE2 engine is used without a non-nil test: it is nil whenever the threshold is disabled")
			} else {
				r.Und("C28.R3", key+"/re2-non-nil", c.c.Pos(), "call not found in the CFG")
			}
		}
		// every engine call is returned unmodified
		var all []ecall
		all = append(all, byEng["re2"]...)
		all = append(all, byEng["grafana"]...)
		sort.Slice(all, func(i, j int) bool { return all[i].c.Pos() < all[j].c.Pos() })
		for _, c := range all {
			direct := false
			ast.Inspect(d.Decl.Body, func(n ast.Node) bool {
				if rs, ok := n.(*ast.ReturnStmt); ok && len(rs.Results) == 1 && ast.Unparen(aliasRoot(info, d.Decl.Body, rs.Results[0])) == ast.Expr(c.c) {
					direct = true
				}
				return true
			})
			r.Check(direct, "C28.R2", an.FuncName(fn)+"/"+c.eng+"."+c.name+"/returned-unmodified", c.c.Pos(), "the engine's result is returned as is", "the "+c.eng+" engine's result is post-processed before being returned; the other engine's is not necessarily treated alike")
		}
	})
	// dispatch through an interface: a method of Regexp calls M on the value returned by a helper of the
	// package that returns one engine or the other. Method and arguments are then the same for both engines
	// by construction; what remains is that the helper hands out the RE2 engine only under a non-nil test.
	p.AllDecls(func(fn *types.Func, d *an.DeclInfo) {
		if d.Pkg != pkg || d.Decl.Body == nil || strings.HasSuffix(p.Fset.Position(d.Decl.Pos()).Filename, "_test.go") {
			return
		}
		// fn returns an engine: every return is a selection of an engine field
		engines := map[string]bool{}
		all, rets := true, 0
		ast.Inspect(d.Decl.Body, func(n ast.Node) bool {
			if _, isLit := n.(*ast.FuncLit); isLit {
				return false
			}
			rs, ok := n.(*ast.ReturnStmt)
			if !ok {
				return true
			}
			rets++
			if len(rs.Results) != 1 {
				all = false
				return true
			}
			se, ok := ast.Unparen(rs.Results[0]).(*ast.SelectorExpr)
			if !ok || info.Selections[se] == nil || fieldEng[info.Selections[se].Obj()] == "" {
				all = false
				return true
			}
			engines[fieldEng[info.Selections[se].Obj()]] = true
			return true
		})
		if !all || rets == 0 || len(engines) < 2 {
			return
		}
		// used as `re.helper(..).M(args)` by a method of Regexp
		used := false
		p.AllDecls(func(cf *types.Func, cd *an.DeclInfo) {
			if cd.Pkg != pkg || cd.Decl.Body == nil {
				return
			}
			ast.Inspect(cd.Decl.Body, func(n ast.Node) bool {
				c, ok := n.(*ast.CallExpr)
				if !ok {
					return true
				}
				if se, ok := ast.Unparen(c.Fun).(*ast.SelectorExpr); ok {
					if inner, ok := ast.Unparen(se.X).(*ast.CallExpr); ok && an.Callee(info, inner) == fn {
						used = true
					}
				}
				return true
			})
		})
		if !used {
			return
		}
		nDispatch++
		r.Fn(an.FuncName(fn))
		g := an.NewG(info, d.Decl.Body)
		for _, l := range g.Locs(func(n ast.Node) bool { _, ok := n.(*ast.ReturnStmt); return ok }) {
			rs := g.Node(l).(*ast.ReturnStmt)
			se := ast.Unparen(rs.Results[0]).(*ast.SelectorExpr)
			if fieldEng[info.Selections[se].Obj()] != "re2" {
				continue
			}
			guarded := g.GuardedBy(l, func(cond ast.Expr, truth bool) bool {
				be, ok := ast.Unparen(cond).(*ast.BinaryExpr)
				if !ok || !(be.Op == token.NEQ && truth || be.Op == token.EQL && !truth) {
					return false
				}
				isRE2 := func(e ast.Expr) bool {
					s2, ok := ast.Unparen(e).(*ast.SelectorExpr)
					return ok && info.Selections[s2] != nil && fieldEng[info.Selections[s2].Obj()] == "re2"
				}
				return (isRE2(be.X) && info.Types[be.Y].IsNil()) || (isRE2(be.Y) && info.Types[be.X].IsNil())
			}, nil)
			r.Check(guarded, "C28.R3", an.FuncName(fn)+"/returns-re2/re2-non-nil", rs.Pos(), "the RE2 engine is handed out only after a non-nil test", "the engine selector can hand out the RE2 engine without a non-nil test: it is nil whenever the threshold is disabled")
		}
		r.OK("C28.R2", an.FuncName(fn)+"/one-call-site-for-both-engines", d.Decl.Pos(), "both engines are reached through one call: same method, same arguments")
	})
	r.Floor("C28.R2.dispatching-methods", 1, nDispatch)
	// R4: an engine method called for its effect (statement position) configures that engine only
	r.Rule("C28.R4", "an engine method called for its effect (statement position: Longest, ...) in package hybridre2 is called on both engines in the same function")
	nEff := 0
	p.AllDecls(func(fn *types.Func, d *an.DeclInfo) {
		if d.Pkg != pkg || d.Decl.Body == nil || strings.HasSuffix(p.Fset.Position(d.Decl.Pos()).Filename, "_test.go") {
			return
		}
		type eff struct {
			c    *ast.CallExpr
			eng  string
			name string
		}
		var effs []eff
		ast.Inspect(d.Decl.Body, func(n ast.Node) bool {
			es, ok := n.(*ast.ExprStmt)
			if !ok {
				return true
			}
			c, ok := es.X.(*ast.CallExpr)
			if !ok {
				return true
			}
			se, ok := ast.Unparen(c.Fun).(*ast.SelectorExpr)
			if !ok || info.Selections[se] == nil {
				return true
			}
			recv := an.NamedOf(info.Selections[se].Recv())
			if recv == nil {
				return true
			}
			if e := engineOf(recv.Obj()); e != "" {
				effs = append(effs, eff{c, e, se.Sel.Name})
			}
			return true
		})
		for _, x := range effs {
			mirrored := false
			for _, y := range effs {
				if y.name == x.name && y.eng != x.eng && len(y.c.Args) == len(x.c.Args) {
					mirrored = true
				}
			}
			nEff++
			r.Check(mirrored, "C28.R4", an.FuncName(fn)+"/"+x.eng+"."+x.name+"/configured-alike", x.c.Pos(), "both engines are configured with "+x.name, "only the "+x.eng+" engine is configured with "+x.name+"(): the two engines then implement different matching semantics and results depend on the threshold")
		}
	})
	if nEff == 0 {
		r.OK("C28.R4", hyb+"/no-engine-configuration-calls", 0, "no engine method is called in statement position in package hybridre2")
	}
}
