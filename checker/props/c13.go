package props

import (
	"go/ast"
	"go/token"
	"go/types"

	"golang.org/x/tools/go/cfg"

	"zverif/checker/an"
)

func init() { register("C13", c13) }

func c13(p *an.Prog, r *an.R, tier string) {
	r.Explanation = "C13 (structural clauses): the preconditions and bookkeeping that make a delta build expose the same per-branch view as a full build. prepareDeltaBuild can succeed only when existing metadata was found, submodules are off, the requested branch names equal the indexed ones and the option hash is unchanged - otherwise it returns an error, and indexGitRepo then clears IsDelta and prepares a normal build. Builder.Finish, for a delta build, re-checks branch names and option hash for every older shard, records every changed-or-removed path as a file tombstone of that shard, and registers the rewritten .meta sidecar in the same artifact set that the rename loop installs together with the new shard. (That tombstoned paths are then hidden by search is C17.R2.) Does NOT decide the per-branch equivalence itself: which paths are changed or removed, branch masks of re-added files, histories of several delta runs (value-level)."
	r.Rule("C13.R1", "prepareDeltaBuild: every nil-error return is reached only where (a) FindRepositoryMetadata's ok was true, (b) BranchNamesEqual held, (c) GetHash() equalled the stored IndexOptions, (d) Submodules was false")
	r.Rule("C13.R2", "indexGitRepo: when prepareDeltaBuild fails IsDelta is cleared, and prepareNormalBuild runs whenever IsDelta is false")
	r.Rule("C13.R3", "Builder.Finish (delta): for every older shard, changedOrRemovedFiles are written into FileTombstones, branch names and option hash are re-checked (error return), and the temp sidecar from JsonMarshalRepoMetaTemp is put into artifactPaths before the rename loop")
	// ---- R1
	pd := p.Decl(p.Func("gitindex", "prepareDeltaBuild"))
	bne := p.Func("index", "BranchNamesEqual")
	getHash := p.Func("index", "(*Options).GetHash")
	idxOpts := p.Field("", "Repository", "IndexOptions")
	if r.Anchor(pd != nil && bne != nil && getHash != nil && idxOpts != nil, "gitindex.prepareDeltaBuild / BranchNamesEqual / GetHash") {
		r.Fn("gitindex.prepareDeltaBuild")
		info := pd.Pkg.TypesInfo
		g := an.NewG(info, pd.Decl.Body)
		// ok variable of FindRepositoryMetadata
		var okVar types.Object
		ast.Inspect(pd.Decl.Body, func(n ast.Node) bool {
			as, ok := n.(*ast.AssignStmt)
			if ok && len(as.Lhs) == 4 && len(as.Rhs) == 1 {
				if c, ok := ast.Unparen(as.Rhs[0]).(*ast.CallExpr); ok {
					if se, ok := ast.Unparen(c.Fun).(*ast.SelectorExpr); ok && se.Sel.Name == "FindRepositoryMetadata" {
						if id, ok := as.Lhs[2].(*ast.Ident); ok {
							okVar = info.ObjectOf(id)
						}
					}
				}
			}
			return true
		})
		facts := []struct {
			name  string
			holds func(cond ast.Expr, truth bool) bool
		}{
			{"existing-metadata-found", func(cond ast.Expr, truth bool) bool { return okVar != nil && an.UsesObj(info, cond, okVar) && truth }},
			{"branch-names-equal", func(cond ast.Expr, truth bool) bool {
				c, ok := ast.Unparen(cond).(*ast.CallExpr)
				return ok && an.Callee(info, c) == bne && truth
			}},
			{"option-hash-equal", func(cond ast.Expr, truth bool) bool {
				be, ok := ast.Unparen(cond).(*ast.BinaryExpr)
				if !ok || len(an.CallsTo(info, be, false, getHash)) == 0 {
					return false
				}
				mentions := false
				ast.Inspect(be, func(m ast.Node) bool {
					if se, ok := m.(*ast.SelectorExpr); ok && info.Selections[se] != nil && info.Selections[se].Obj() == idxOpts {
						mentions = true
					}
					return true
				})
				return mentions && ((be.Op == token.NEQ && !truth) || (be.Op == token.EQL && truth))
			}},
			{"submodules-off", func(cond ast.Expr, truth bool) bool {
				se, ok := ast.Unparen(cond).(*ast.SelectorExpr)
				return ok && se.Sel.Name == "Submodules" && !truth
			}},
		}
		n := 0
		for _, l := range g.Locs(func(nd ast.Node) bool { _, ok := nd.(*ast.ReturnStmt); return ok }) {
			rs := g.Node(l).(*ast.ReturnStmt)
			if len(rs.Results) == 0 || !info.Types[rs.Results[len(rs.Results)-1]].IsNil() {
				continue
			}
			n++
			for _, f := range facts {
				ok := g.GuardedBy(l, f.holds, nil)
				r.Check(ok, "C13.R1", "gitindex.prepareDeltaBuild/success-return/requires/"+f.name, rs.Pos(), "a delta build is only prepared when "+f.name, "prepareDeltaBuild can succeed without "+f.name+": a delta shard is stacked on shards it is not compatible with, so branches see stale or missing content")
			}
		}
		r.Floor("C13.R1.success-returns", 1, n)
	}
	// ---- R2
	id := p.Decl(p.Func("gitindex", "indexGitRepo"))
	isDelta := p.Field("index", "Options", "IsDelta")
	if r.Anchor(id != nil && isDelta != nil, "gitindex.indexGitRepo / Options.IsDelta") {
		r.Fn("gitindex.indexGitRepo")
		info := id.Pkg.TypesInfo
		g := an.NewG(info, id.Decl.Body)
		isDeltaSel := func(e ast.Expr) bool {
			se, ok := ast.Unparen(e).(*ast.SelectorExpr)
			return ok && info.Selections[se] != nil && info.Selections[se].Obj() == isDelta
		}
		// the call through the local func value prepareDeltaBuild
		var deltaLoc *an.Loc
		var errObj types.Object
		for _, l := range g.Locs(func(ast.Node) bool { return true }) {
			as, ok := g.Node(l).(*ast.AssignStmt)
			if !ok || len(as.Rhs) != 1 {
				continue
			}
			if c, ok := ast.Unparen(as.Rhs[0]).(*ast.CallExpr); ok {
				if fid, ok := ast.Unparen(c.Fun).(*ast.Ident); ok && fid.Name == "prepareDeltaBuild" && len(as.Lhs) == 4 {
					ll := l
					deltaLoc = &ll
					if eid, ok := as.Lhs[3].(*ast.Ident); ok {
						errObj = info.ObjectOf(eid)
					}
				}
			}
		}
		if r.Anchor(deltaLoc != nil && errObj != nil, "indexGitRepo/prepareDeltaBuild call") {
			clears := func(k an.Loc) bool {
				as, ok := g.Node(k).(*ast.AssignStmt)
				if !ok || len(as.Lhs) != 1 || !isDeltaSel(as.Lhs[0]) {
					return false
				}
				tv := info.Types[as.Rhs[0]]
				return tv.Value != nil && tv.Value.String() == "false"
			}
			// on the err != nil edge: every path reaches `IsDelta = false` before leaving the function or reading IsDelta again
			missed := false
			for _, b := range g.C.Blocks {
				cond := an.CondOf(b)
				if cond == nil {
					continue
				}
				isT, nonNilOnTrue := isErrNilTest(info, cond, errObj)
				if !isT {
					continue
				}
				// only the test of the error that prepareDeltaBuild returned
				condLoc := an.Loc{B: b, I: len(b.Nodes) - 1}
				assignsErr := func(x an.Loc) bool {
					as, ok := g.Node(x).(*ast.AssignStmt)
					if !ok {
						return false
					}
					for _, lh := range as.Lhs {
						if an.UsesObj(info, lh, errObj) {
							return true
						}
					}
					return false
				}
				if !g.Reach(*deltaLoc, true, &an.Search{Target: func(x an.Loc) bool { return x == condLoc }, Cut: func(x an.Loc) bool { return x != condLoc && assignsErr(x) }}) {
					continue
				}
				k := 1
				if nonNilOnTrue {
					k = 0
				}
				start := an.Loc{B: b.Succs[k], I: 0}
				if g.Reach(start, false, &an.Search{ExitIsTarget: true, Cut: clears, Target: func(x an.Loc) bool {
					c := an.CondOf(x.B)
					return c != nil && x.I == len(x.B.Nodes)-1 && isDeltaSel(c)
				}}) {
					missed = true
				}
			}
			r.Check(!missed, "C13.R2", "gitindex.indexGitRepo/delta-failure-clears-IsDelta", g.Node(*deltaLoc).Pos(), "a failed delta preparation switches the build to a normal build", "after prepareDeltaBuild failed the build can continue with IsDelta still set (without the prepared delta state): old shards are kept and no file tombstones are written")
			// prepareNormalBuild reachable when IsDelta is false: a call under !IsDelta
			found := false
			for _, l := range g.Locs(func(ast.Node) bool { return true }) {
				as, ok := g.Node(l).(*ast.AssignStmt)
				if !ok || len(as.Rhs) != 1 {
					continue
				}
				if c, ok := ast.Unparen(as.Rhs[0]).(*ast.CallExpr); ok {
					if fid, ok := ast.Unparen(c.Fun).(*ast.Ident); ok && fid.Name == "prepareNormalBuild" {
						if g.GuardedBy(l, func(cond ast.Expr, truth bool) bool { return isDeltaSel(cond) && !truth }, nil) {
							found = true
						}
					}
				}
			}
			r.Check(found, "C13.R2", "gitindex.indexGitRepo/normal-build-when-not-delta", id.Decl.Pos(), "prepareNormalBuild runs under !IsDelta", "no prepareNormalBuild under !IsDelta: after falling back from a delta build nothing is prepared")
		}
	}
	// ---- R3
	fd := p.Decl(p.Func("index", "(*Builder).Finish"))
	jm := p.Func("index", "JsonMarshalRepoMetaTemp")
	ft := p.Field("", "Repository", "FileTombstones")
	corf := p.Field("index", "Options", "changedOrRemovedFiles")
	rename := p.ExtFunc("os", "Rename")
	if r.Anchor(fd != nil && jm != nil && ft != nil && corf != nil && rename != nil && bne != nil, "index.(*Builder).Finish / JsonMarshalRepoMetaTemp / FileTombstones") {
		info := fd.Pkg.TypesInfo
		g := an.NewG(info, fd.Decl.Body)
		r.Fn("index.(*Builder).Finish")
		isRename := g.HasCallTo(rename)
		c13Tombstones(p, r, fd, ft, corf)
		// JsonMarshalRepoMetaTemp result goes into artifactPaths, before any rename
		for _, l := range g.Locs(func(nd ast.Node) bool { return len(an.CallsTo(info, nd, false, jm)) > 0 }) {
			as, ok := g.Node(l).(*ast.AssignStmt)
			if !ok || len(as.Lhs) != 3 {
				continue
			}
			tmpObj := info.ObjectOf(as.Lhs[0].(*ast.Ident))
			finObj := info.ObjectOf(as.Lhs[1].(*ast.Ident))
			registers := func(k an.Loc) bool {
				a2, ok := g.Node(k).(*ast.AssignStmt)
				if !ok || len(a2.Lhs) != 1 {
					return false
				}
				ix, ok := ast.Unparen(a2.Lhs[0]).(*ast.IndexExpr)
				return ok && an.UsesObj(info, ix.Index, tmpObj) && an.UsesObj(info, a2.Rhs[0], finObj)
			}
			// every path from here to a rename passes the registration (error branch cut)
			errObj := info.ObjectOf(as.Lhs[2].(*ast.Ident))
			skip := g.Reach(l, true, &an.Search{Target: isRename, Cut: registers, CutEdge: func(b *cfg.Block, k int) bool {
				cond := an.CondOf(b)
				if cond == nil {
					return false
				}
				isT, nonNilOnTrue := isErrNilTest(info, cond, errObj)
				return isT && ((k == 0) == nonNilOnTrue)
			}})
			r.Check(!skip, "C13.R3", "index.(*Builder).Finish/delta/sidecar-installed-with-new-shards", as.Pos(), "the rewritten sidecar of each older shard is registered in the artifact set before the rename loop", "the rename loop can run without the older shard's rewritten .meta being registered: the new delta shard becomes visible while the old shard still shows the replaced files")
			before := g.Reach(g.Entry(), false, &an.Search{Target: func(k an.Loc) bool { return k == l }, Cut: isRename})
			r.Check(before, "C13.R3", "index.(*Builder).Finish/delta/sidecars-written-before-renames", as.Pos(), "sidecars are prepared before anything is renamed into place", "the sidecar is only prepared after shards were already renamed")
		}
		// re-checks return errors
		for _, chk := range []struct {
			name string
			is   func(c ast.Expr) bool
		}{
			{"branch-names", func(c ast.Expr) bool {
				found := false
				ast.Inspect(c, func(m ast.Node) bool {
					if call, ok := m.(*ast.CallExpr); ok && an.Callee(info, call) == bne {
						found = true
					}
					return true
				})
				return found
			}},
			{"option-hash", func(c ast.Expr) bool { return len(an.CallsTo(info, c, false, getHash)) > 0 }},
		} {
			ok := false
			for _, b := range g.C.Blocks {
				cond := an.CondOf(b)
				if cond == nil || !chk.is(cond) {
					continue
				}
				// the mismatch edge returns an error
				for _, nd := range b.Succs[0].Nodes {
					if rs, isR := nd.(*ast.ReturnStmt); isR && len(rs.Results) == 1 && !info.Types[rs.Results[0]].IsNil() {
						ok = true
					}
				}
			}
			r.Check(ok, "C13.R3", "index.(*Builder).Finish/delta/rechecks/"+chk.name, fd.Decl.Pos(), "a mismatch of "+chk.name+" aborts the delta build with an error", "Finish no longer aborts a delta build whose "+chk.name+" differ from the older shard's")
		}
	}
}

// c13Tombstones: after Finish's delta branch the older shard's FileTombstones
// holds its previous entries and every changed-or-removed path. Accepted
// shapes: (a) inline - a range over changedOrRemovedFiles storing each path
// into X.FileTombstones, and every whole-map assignment to X.FileTombstones
// guarded by X.FileTombstones == nil; (b) a helper h(existing, paths) whose
// result is assigned to X.FileTombstones - then every return of h must return a
// map that received every element of paths and either is `existing` or received
// all of existing; returning nil / a fresh map is accepted only under
// len(existing) == 0 (or existing == nil).
func c13Tombstones(p *an.Prog, r *an.R, fd *an.DeclInfo, ft, corf *types.Var) {
	info := fd.Pkg.TypesInfo
	g := an.NewG(info, fd.Decl.Body)
	key := "index.(*Builder).Finish/delta/changed-paths-become-file-tombstones"
	isFT := func(e ast.Expr) bool {
		se, ok := ast.Unparen(e).(*ast.SelectorExpr)
		return ok && info.Selections[se] != nil && info.Selections[se].Obj() == ft
	}
	var isCorf func(e ast.Expr) bool
	isCorf = func(e ast.Expr) bool {
		if se, ok := ast.Unparen(e).(*ast.SelectorExpr); ok {
			return info.Selections[se] != nil && info.Selections[se].Obj() == corf
		}
		// a single-definition local holding the list
		if dd := defOf(info, fd.Decl.Body, e); dd != nil && ast.Unparen(dd) != ast.Unparen(e) {
			return isCorf(dd)
		}
		return false
	}
	inline := 0
	ast.Inspect(fd.Decl.Body, func(n ast.Node) bool {
		rs, ok := n.(*ast.RangeStmt)
		if !ok || !isCorf(rs.X) || rs.Value == nil {
			return true
		}
		ast.Inspect(rs.Body, func(m ast.Node) bool {
			if as, ok := m.(*ast.AssignStmt); ok {
				if ix, ok := ast.Unparen(as.Lhs[0]).(*ast.IndexExpr); ok && isFT(ix.X) && an.UsesObj(info, ix.Index, info.ObjectOf(rs.Value.(*ast.Ident))) {
					inline++
				}
			}
			return true
		})
		return true
	})
	// index-loop form: for i := 0; i < len(L); i++ { X.FileTombstones[L[i]] = ... }
	ast.Inspect(fd.Decl.Body, func(n ast.Node) bool {
		fs, ok := n.(*ast.ForStmt)
		if !ok || fs.Cond == nil || fs.Init == nil || fs.Post == nil {
			return true
		}
		be, ok := ast.Unparen(fs.Cond).(*ast.BinaryExpr)
		if !ok || be.Op != token.LSS {
			return true
		}
		lc, ok := ast.Unparen(be.Y).(*ast.CallExpr)
		if !ok || !an.IsBuiltin(info, lc, "len") || !isCorf(lc.Args[0]) {
			return true
		}
		iv, ok := ast.Unparen(be.X).(*ast.Ident)
		if !ok {
			return true
		}
		init, ok := fs.Init.(*ast.AssignStmt)
		if !ok || len(init.Rhs) != 1 || !isIdentOf(info, init.Lhs[0], info.ObjectOf(iv)) {
			return true
		}
		if tv := info.Types[init.Rhs[0]]; tv.Value == nil || tv.Value.ExactString() != "0" {
			return true
		}
		if post, ok := fs.Post.(*ast.IncDecStmt); !ok || post.Tok != token.INC || !isIdentOf(info, post.X, info.ObjectOf(iv)) {
			return true
		}
		exits := false
		ast.Inspect(fs.Body, func(m ast.Node) bool {
			switch m.(type) {
			case *ast.BranchStmt, *ast.ReturnStmt:
				exits = true
			}
			return true
		})
		if exits {
			return true
		}
		ast.Inspect(fs.Body, func(m ast.Node) bool {
			if as, ok := m.(*ast.AssignStmt); ok {
				if ix, ok := ast.Unparen(as.Lhs[0]).(*ast.IndexExpr); ok && isFT(ix.X) {
					if el, ok := ast.Unparen(ix.Index).(*ast.IndexExpr); ok && isCorf(el.X) && isIdentOf(info, el.Index, info.ObjectOf(iv)) {
						inline++
					}
				}
			}
			return true
		})
		return true
	})
	viaHelper := 0
	for _, l := range g.Locs(func(ast.Node) bool { return true }) {
		as, ok := g.Node(l).(*ast.AssignStmt)
		if !ok {
			continue
		}
		for k, lhs := range as.Lhs {
			if !isFT(lhs) || len(as.Rhs) != len(as.Lhs) {
				continue
			}
			rhs := ast.Unparen(as.Rhs[k])
			// whole-map assignment
			if c, ok := rhs.(*ast.CallExpr); ok {
				if h := an.Callee(info, c); h != nil && an.InModule(h.Pkg()) {
					// helper form: which argument is the existing map, which the paths
					ei, pi := -1, -1
					for i, a := range c.Args {
						if isFT(a) {
							ei = i
						}
						if isCorf(a) {
							pi = i
						}
					}
					if ei >= 0 && pi >= 0 {
						viaHelper++
						c13MergeHelper(p, r, h, ei, pi)
						continue
					}
				}
			}
			// anything else replaces the map: only when it was nil
			guarded := g.GuardedBy(l, func(cond ast.Expr, truth bool) bool {
				be, ok := ast.Unparen(cond).(*ast.BinaryExpr)
				if !ok {
					return false
				}
				if (isFT(be.X) && info.Types[be.Y].IsNil()) || (isFT(be.Y) && info.Types[be.X].IsNil()) {
					return (be.Op == token.EQL && truth) || (be.Op == token.NEQ && !truth)
				}
				return false
			}, nil)
			r.Check(guarded, "C13.R3", "index.(*Builder).Finish/delta/file-tombstones-replaced-only-when-nil", as.Pos(), "the tombstone set is allocated only when absent", "Finish replaces an older shard's FileTombstones without it being nil: tombstones recorded by earlier delta builds are dropped and the files they hid resurface")
		}
	}
	// helper that mutates the record in place: h(X, corf) whose body stores every element of its list parameter
	// into <record parameter>.FileTombstones and replaces that map only when it is nil
	ast.Inspect(fd.Decl.Body, func(n ast.Node) bool {
		c, ok := n.(*ast.CallExpr)
		if !ok {
			return true
		}
		h := an.Callee(info, c)
		if h == nil || h.Pkg() == nil || !an.InModule(h.Pkg()) {
			return true
		}
		li := -1
		for i, a := range c.Args {
			if isCorf(a) {
				li = i
			}
		}
		hd := p.Decl(h)
		if li < 0 || hd == nil || hd.Decl.Body == nil {
			return true
		}
		hi := hd.Pkg.TypesInfo
		lp := an.Param(hi, hd.Decl, li)
		if lp == nil {
			return true
		}
		isHFT := func(e ast.Expr) bool {
			se, ok := ast.Unparen(e).(*ast.SelectorExpr)
			return ok && hi.Selections[se] != nil && hi.Selections[se].Obj() == ft
		}
		stored, exits := false, false
		ast.Inspect(hd.Decl.Body, func(m ast.Node) bool {
			rs, ok := m.(*ast.RangeStmt)
			if !ok || !isIdentOf(hi, rs.X, lp) || rs.Value == nil {
				return true
			}
			ast.Inspect(rs.Body, func(k ast.Node) bool {
				switch x := k.(type) {
				case *ast.BranchStmt, *ast.ReturnStmt:
					exits = true
				case *ast.AssignStmt:
					if ix, ok := ast.Unparen(x.Lhs[0]).(*ast.IndexExpr); ok && isHFT(ix.X) && isIdentOf(hi, ix.Index, hi.ObjectOf(rs.Value.(*ast.Ident))) {
						stored = true
					}
				}
				return true
			})
			return true
		})
		if !stored || exits {
			return true
		}
		// whole-map assignments inside the helper only under == nil
		hg := an.NewG(hi, hd.Decl.Body)
		okNil := true
		for _, l := range hg.Locs(func(ast.Node) bool { return true }) {
			as, ok := hg.Node(l).(*ast.AssignStmt)
			if !ok {
				continue
			}
			for _, lhs := range as.Lhs {
				if !isHFT(lhs) {
					continue
				}
				g2 := hg.GuardedBy(l, func(cond ast.Expr, truth bool) bool {
					be, ok := ast.Unparen(cond).(*ast.BinaryExpr)
					if !ok {
						return false
					}
					if (isHFT(be.X) && hi.Types[be.Y].IsNil()) || (isHFT(be.Y) && hi.Types[be.X].IsNil()) {
						return (be.Op == token.EQL && truth) || (be.Op == token.NEQ && !truth)
					}
					return false
				}, nil)
				if !g2 {
					okNil = false
				}
			}
		}
		r.Fn(an.FuncName(h))
		r.Check(okNil, "C13.R3", an.FuncName(h)+"/file-tombstones-replaced-only-when-nil", hd.Decl.Pos(), "the tombstone set is allocated only when absent", "the helper replaces the older shard's FileTombstones without it being nil: tombstones recorded by earlier delta builds are dropped")
		viaHelper++
		return true
	})
	r.Check(inline+viaHelper >= 1, "C13.R3", key, fd.Decl.Pos(), "every changed-or-removed path is recorded in the older shard's FileTombstones", "Finish does not record every changedOrRemovedFiles entry in the older shards' FileTombstones: the old copy of a changed or deleted file stays visible next to (or instead of) the new one")
}

func c13MergeHelper(p *an.Prog, r *an.R, h *types.Func, ei, pi int) {
	d := p.Decl(h)
	name := an.FuncName(h)
	if d == nil || d.Decl.Body == nil {
		r.Und("C13.R3", name+"/merge-helper", token.NoPos, "no source for the tombstone merge helper")
		return
	}
	r.Fn(name)
	info := d.Pkg.TypesInfo
	g := an.NewG(info, d.Decl.Body)
	existing, paths := an.Param(info, d.Decl, ei), an.Param(info, d.Decl, pi)
	// stores of every path into map M: a range over paths with M[v] = ...
	pathLoopInto := func(m types.Object) func(an.Loc) bool {
		var loops []*ast.RangeStmt
		ast.Inspect(d.Decl.Body, func(n ast.Node) bool {
			rs, ok := n.(*ast.RangeStmt)
			if !ok || !isIdentOf(info, rs.X, paths) || rs.Value == nil {
				return true
			}
			ast.Inspect(rs.Body, func(k ast.Node) bool {
				if as, ok := k.(*ast.AssignStmt); ok {
					if ix, ok := ast.Unparen(as.Lhs[0]).(*ast.IndexExpr); ok && isIdentOf(info, ix.X, m) && isIdentOf(info, ix.Index, info.ObjectOf(rs.Value.(*ast.Ident))) {
						loops = append(loops, rs)
					}
				}
				return true
			})
			return true
		})
		return func(l an.Loc) bool {
			for _, rs := range loops {
				if g.Node(l) == ast.Node(rs.X) {
					return true
				}
			}
			return false
		}
	}
	copiesExisting := func(m types.Object) func(an.Loc) bool {
		return func(l an.Loc) bool {
			hit := false
			ast.Inspect(g.Node(l), func(n ast.Node) bool {
				c, ok := n.(*ast.CallExpr)
				if ok && len(c.Args) == 2 {
					if f := an.Callee(info, c); f != nil && f.Pkg() != nil && f.Pkg().Path() == "maps" && f.Name() == "Copy" && isIdentOf(info, c.Args[0], m) && isIdentOf(info, c.Args[1], existing) {
						hit = true
					}
				}
				return true
			})
			if hit {
				return true
			}
			// range existing { m[k] = v }
			ok := false
			ast.Inspect(d.Decl.Body, func(n ast.Node) bool {
				rs, isR := n.(*ast.RangeStmt)
				if !isR || !isIdentOf(info, rs.X, existing) || g.Node(l) != ast.Node(rs.X) || rs.Key == nil {
					return true
				}
				ast.Inspect(rs.Body, func(k ast.Node) bool {
					if as, isA := k.(*ast.AssignStmt); isA {
						if ix, isI := ast.Unparen(as.Lhs[0]).(*ast.IndexExpr); isI && isIdentOf(info, ix.X, m) && isIdentOf(info, ix.Index, info.ObjectOf(rs.Key.(*ast.Ident))) {
							ok = true
						}
					}
					return true
				})
				return true
			})
			return ok
		}
	}
	emptyFact := func(v types.Object) func(cond ast.Expr, truth bool) bool {
		return func(cond ast.Expr, truth bool) bool {
			be, ok := ast.Unparen(cond).(*ast.BinaryExpr)
			if !ok {
				return false
			}
			if c, ok := ast.Unparen(be.X).(*ast.CallExpr); ok && an.IsBuiltin(info, c, "len") && isIdentOf(info, c.Args[0], v) {
				if tv := info.Types[be.Y]; tv.Value != nil && tv.Value.String() == "0" {
					return (be.Op == token.EQL && truth) || (be.Op == token.NEQ && !truth) || (be.Op == token.GTR && !truth)
				}
			}
			if isIdentOf(info, be.X, v) && info.Types[be.Y].IsNil() {
				return (be.Op == token.EQL && truth) || (be.Op == token.NEQ && !truth)
			}
			return false
		}
	}
	n := 0
	for _, l := range g.Locs(func(nd ast.Node) bool { _, ok := nd.(*ast.ReturnStmt); return ok }) {
		rs := g.Node(l).(*ast.ReturnStmt)
		if len(rs.Results) != 1 {
			continue
		}
		n++
		key := name + "/return#" + itoa(n)
		res := ast.Unparen(rs.Results[0])
		pathsEmpty := g.GuardedBy(l, emptyFact(paths), nil)
		existingEmpty := g.GuardedBy(l, emptyFact(existing), nil)
		keepsOld, addsNew := false, false
		if id, ok := res.(*ast.Ident); ok && !info.Types[res].IsNil() {
			m := info.ObjectOf(id)
			passes := func(pred func(an.Loc) bool) bool {
				return !g.Reach(g.Entry(), false, &an.Search{Target: func(k an.Loc) bool { return k == l }, Cut: pred})
			}
			keepsOld = m == types.Object(existing) || passes(copiesExisting(m))
			addsNew = passes(pathLoopInto(m))
		}
		r.Check(keepsOld || existingEmpty, "C13.R3", key+"/keeps-existing-tombstones", rs.Pos(), "the result still holds the shard's earlier tombstones", "the tombstone merge returns `"+types.ExprString(res)+"` on a path where the existing set may be non-empty and was not carried over: file tombstones recorded by earlier delta builds are dropped and the files they hid resurface")
		r.Check(addsNew || pathsEmpty, "C13.R3", key+"/adds-every-changed-path", rs.Pos(), "the result holds every changed-or-removed path", "the tombstone merge returns `"+types.ExprString(res)+"` on a path where not every changed-or-removed path was added to it")
	}
}
