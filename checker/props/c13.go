package props

import (
	"go/ast"
	"go/token"
	"go/types"

	"golang.org/x/tools/go/cfg"

	"zverif/checker/an"
)

func init() { register("C13", c13) }

func c13(p *an.Prog, r *an.R, tier string) {
	r.Explanation = "C13 (structural clauses): the preconditions and bookkeeping that make a delta build expose the same per-branch view as a full build. prepareDeltaBuild can succeed only when existing metadata was found, submodules are off, the requested branch names equal the indexed ones and the option hash is unchanged - otherwise it returns an error, and indexGitRepo then clears IsDelta and prepares a normal build. Builder.Finish, for a delta build, re-checks branch names and option hash for every older shard, records every changed-or-removed path as a file tombstone of that shard, and registers the rewritten .meta sidecar in the same artifact set that the rename loop installs together with the new shard. (That tombstoned paths are then hidden by search is C17.R2.) Does NOT decide the per-branch equivalence itself: which paths are changed or removed, branch masks of re-added files, histories of several delta runs (value-level)."
	r.Rule("C13.R1", "prepareDeltaBuild: every nil-error return is reached only where (a) FindRepositoryMetadata's ok was true, (b) BranchNamesEqual held, (c) GetHash() equalled the stored IndexOptions, (d) Submodules was false")
	r.Rule("C13.R2", "indexGitRepo: when prepareDeltaBuild fails IsDelta is cleared, and prepareNormalBuild runs whenever IsDelta is false")
	r.Rule("C13.R3", "Builder.Finish (delta): for every older shard, changedOrRemovedFiles are written into FileTombstones, branch names and option hash are re-checked (error return), and the temp sidecar from JsonMarshalRepoMetaTemp is put into artifactPaths before the rename loop")
	// ---- R1
	pd := p.Decl(p.Func("gitindex", "prepareDeltaBuild"))
	bne := p.Func("index", "BranchNamesEqual")
	getHash := p.Func("index", "(*Options).GetHash")
	idxOpts := p.Field("", "Repository", "IndexOptions")
	if r.Anchor(pd != nil && bne != nil && getHash != nil && idxOpts != nil, "gitindex.prepareDeltaBuild / BranchNamesEqual / GetHash") {
		r.Fn("gitindex.prepareDeltaBuild")
		info := pd.Pkg.TypesInfo
		g := an.NewG(info, pd.Decl.Body)
		// ok variable of FindRepositoryMetadata
		var okVar types.Object
		ast.Inspect(pd.Decl.Body, func(n ast.Node) bool {
			as, ok := n.(*ast.AssignStmt)
			if ok && len(as.Lhs) == 4 && len(as.Rhs) == 1 {
				if c, ok := ast.Unparen(as.Rhs[0]).(*ast.CallExpr); ok {
					if se, ok := ast.Unparen(c.Fun).(*ast.SelectorExpr); ok && se.Sel.Name == "FindRepositoryMetadata" {
						if id, ok := as.Lhs[2].(*ast.Ident); ok {
							okVar = info.ObjectOf(id)
						}
					}
				}
			}
			return true
		})
		facts := []struct {
			name  string
			holds func(cond ast.Expr, truth bool) bool
		}{
			{"existing-metadata-found", func(cond ast.Expr, truth bool) bool { return okVar != nil && an.UsesObj(info, cond, okVar) && truth }},
			{"branch-names-equal", func(cond ast.Expr, truth bool) bool {
				c, ok := ast.Unparen(cond).(*ast.CallExpr)
				return ok && an.Callee(info, c) == bne && truth
			}},
			{"option-hash-equal", func(cond ast.Expr, truth bool) bool {
				be, ok := ast.Unparen(cond).(*ast.BinaryExpr)
				if !ok || len(an.CallsTo(info, be, false, getHash)) == 0 {
					return false
				}
				mentions := false
				ast.Inspect(be, func(m ast.Node) bool {
					if se, ok := m.(*ast.SelectorExpr); ok && info.Selections[se] != nil && info.Selections[se].Obj() == idxOpts {
						mentions = true
					}
					return true
				})
				return mentions && ((be.Op == token.NEQ && !truth) || (be.Op == token.EQL && truth))
			}},
			{"submodules-off", func(cond ast.Expr, truth bool) bool {
				se, ok := ast.Unparen(cond).(*ast.SelectorExpr)
				return ok && se.Sel.Name == "Submodules" && !truth
			}},
		}
		n := 0
		for _, l := range g.Locs(func(nd ast.Node) bool { _, ok := nd.(*ast.ReturnStmt); return ok }) {
			rs := g.Node(l).(*ast.ReturnStmt)
			if len(rs.Results) == 0 || !info.Types[rs.Results[len(rs.Results)-1]].IsNil() {
				continue
			}
			n++
			for _, f := range facts {
				ok := g.GuardedBy(l, f.holds, nil)
				r.Check(ok, "C13.R1", "gitindex.prepareDeltaBuild/success-return/requires/"+f.name, rs.Pos(), "a delta build is only prepared when "+f.name, "prepareDeltaBuild can succeed without "+f.name+": a delta shard is stacked on shards it is not compatible with, so branches see stale or missing content")
			}
		}
		r.Floor("C13.R1.success-returns", 1, n)
	}
	// ---- R2
	id := p.Decl(p.Func("gitindex", "indexGitRepo"))
	isDelta := p.Field("index", "Options", "IsDelta")
	if r.Anchor(id != nil && isDelta != nil, "gitindex.indexGitRepo / Options.IsDelta") {
		r.Fn("gitindex.indexGitRepo")
		info := id.Pkg.TypesInfo
		g := an.NewG(info, id.Decl.Body)
		isDeltaSel := func(e ast.Expr) bool {
			se, ok := ast.Unparen(e).(*ast.SelectorExpr)
			return ok && info.Selections[se] != nil && info.Selections[se].Obj() == isDelta
		}
		// the call through the local func value prepareDeltaBuild
		var deltaLoc *an.Loc
		var errObj types.Object
		for _, l := range g.Locs(func(ast.Node) bool { return true }) {
			as, ok := g.Node(l).(*ast.AssignStmt)
			if !ok || len(as.Rhs) != 1 {
				continue
			}
			if c, ok := ast.Unparen(as.Rhs[0]).(*ast.CallExpr); ok {
				if fid, ok := ast.Unparen(c.Fun).(*ast.Ident); ok && fid.Name == "prepareDeltaBuild" && len(as.Lhs) == 4 {
					ll := l
					deltaLoc = &ll
					if eid, ok := as.Lhs[3].(*ast.Ident); ok {
						errObj = info.ObjectOf(eid)
					}
				}
			}
		}
		if r.Anchor(deltaLoc != nil && errObj != nil, "indexGitRepo/prepareDeltaBuild call") {
			clears := func(k an.Loc) bool {
				as, ok := g.Node(k).(*ast.AssignStmt)
				if !ok || len(as.Lhs) != 1 || !isDeltaSel(as.Lhs[0]) {
					return false
				}
				tv := info.Types[as.Rhs[0]]
				return tv.Value != nil && tv.Value.String() == "false"
			}
			// on the err != nil edge: every path reaches `IsDelta = false` before leaving the function or reading IsDelta again
			missed := false
			for _, b := range g.C.Blocks {
				cond := an.CondOf(b)
				if cond == nil {
					continue
				}
				isT, nonNilOnTrue := isErrNilTest(info, cond, errObj)
				if !isT {
					continue
				}
				// only the test of the error that prepareDeltaBuild returned
				condLoc := an.Loc{B: b, I: len(b.Nodes) - 1}
				assignsErr := func(x an.Loc) bool {
					as, ok := g.Node(x).(*ast.AssignStmt)
					if !ok {
						return false
					}
					for _, lh := range as.Lhs {
						if an.UsesObj(info, lh, errObj) {
							return true
						}
					}
					return false
				}
				if !g.Reach(*deltaLoc, true, &an.Search{Target: func(x an.Loc) bool { return x == condLoc }, Cut: func(x an.Loc) bool { return x != condLoc && assignsErr(x) }}) {
					continue
				}
				k := 1
				if nonNilOnTrue {
					k = 0
				}
				start := an.Loc{B: b.Succs[k], I: 0}
				if g.Reach(start, false, &an.Search{ExitIsTarget: true, Cut: clears, Target: func(x an.Loc) bool {
					c := an.CondOf(x.B)
					return c != nil && x.I == len(x.B.Nodes)-1 && isDeltaSel(c)
				}}) {
					missed = true
				}
			}
			r.Check(!missed, "C13.R2", "gitindex.indexGitRepo/delta-failure-clears-IsDelta", g.Node(*deltaLoc).Pos(), "a failed delta preparation switches the build to a normal build", "after prepareDeltaBuild failed the build can continue with IsDelta still set (without the prepared delta state): old shards are kept and no file tombstones are written")
			// prepareNormalBuild reachable when IsDelta is false: a call under !IsDelta
			found := false
			for _, l := range g.Locs(func(ast.Node) bool { return true }) {
				as, ok := g.Node(l).(*ast.AssignStmt)
				if !ok || len(as.Rhs) != 1 {
					continue
				}
				if c, ok := ast.Unparen(as.Rhs[0]).(*ast.CallExpr); ok {
					if fid, ok := ast.Unparen(c.Fun).(*ast.Ident); ok && fid.Name == "prepareNormalBuild" {
						if g.GuardedBy(l, func(cond ast.Expr, truth bool) bool { return isDeltaSel(cond) && !truth }, nil) {
							found = true
						}
					}
				}
			}
			r.Check(found, "C13.R2", "gitindex.indexGitRepo/normal-build-when-not-delta", id.Decl.Pos(), "prepareNormalBuild runs under !IsDelta", "no prepareNormalBuild under !IsDelta: after falling back from a delta build nothing is prepared")
		}
	}
	// ---- R3
	fd := p.Decl(p.Func("index", "(*Builder).Finish"))
	jm := p.Func("index", "JsonMarshalRepoMetaTemp")
	ft := p.Field("", "Repository", "FileTombstones")
	corf := p.Field("index", "Options", "changedOrRemovedFiles")
	rename := p.ExtFunc("os", "Rename")
	if r.Anchor(fd != nil && jm != nil && ft != nil && corf != nil && rename != nil && bne != nil, "index.(*Builder).Finish / JsonMarshalRepoMetaTemp / FileTombstones") {
		info := fd.Pkg.TypesInfo
		g := an.NewG(info, fd.Decl.Body)
		r.Fn("index.(*Builder).Finish")
		isRename := g.HasCallTo(rename)
		// the loop over changedOrRemovedFiles storing into FileTombstones
		stores := 0
		ast.Inspect(fd.Decl.Body, func(n ast.Node) bool {
			rs, ok := n.(*ast.RangeStmt)
			if !ok {
				return true
			}
			se, ok := ast.Unparen(rs.X).(*ast.SelectorExpr)
			if !ok || info.Selections[se] == nil || info.Selections[se].Obj() != corf {
				return true
			}
			ast.Inspect(rs.Body, func(m ast.Node) bool {
				if as, ok := m.(*ast.AssignStmt); ok {
					if ix, ok := ast.Unparen(as.Lhs[0]).(*ast.IndexExpr); ok {
						if s2, ok := ast.Unparen(ix.X).(*ast.SelectorExpr); ok && info.Selections[s2] != nil && info.Selections[s2].Obj() == ft && an.UsesObj(info, ix.Index, info.ObjectOf(rs.Value.(*ast.Ident))) {
							stores++
						}
					}
				}
				return true
			})
			return true
		})
		r.Check(stores == 1, "C13.R3", "index.(*Builder).Finish/delta/changed-paths-become-file-tombstones", fd.Decl.Pos(), "every changed-or-removed path is recorded in the older shard's FileTombstones", "Finish does not record every changedOrRemovedFiles entry in the older shards' FileTombstones: the old copy of a changed or deleted file stays visible next to (or instead of) the new one")
		// JsonMarshalRepoMetaTemp result goes into artifactPaths, before any rename
		for _, l := range g.Locs(func(nd ast.Node) bool { return len(an.CallsTo(info, nd, false, jm)) > 0 }) {
			as, ok := g.Node(l).(*ast.AssignStmt)
			if !ok || len(as.Lhs) != 3 {
				continue
			}
			tmpObj := info.ObjectOf(as.Lhs[0].(*ast.Ident))
			finObj := info.ObjectOf(as.Lhs[1].(*ast.Ident))
			registers := func(k an.Loc) bool {
				a2, ok := g.Node(k).(*ast.AssignStmt)
				if !ok || len(a2.Lhs) != 1 {
					return false
				}
				ix, ok := ast.Unparen(a2.Lhs[0]).(*ast.IndexExpr)
				return ok && an.UsesObj(info, ix.Index, tmpObj) && an.UsesObj(info, a2.Rhs[0], finObj)
			}
			// every path from here to a rename passes the registration (error branch cut)
			errObj := info.ObjectOf(as.Lhs[2].(*ast.Ident))
			skip := g.Reach(l, true, &an.Search{Target: isRename, Cut: registers, CutEdge: func(b *cfg.Block, k int) bool {
				cond := an.CondOf(b)
				if cond == nil {
					return false
				}
				isT, nonNilOnTrue := isErrNilTest(info, cond, errObj)
				return isT && ((k == 0) == nonNilOnTrue)
			}})
			r.Check(!skip, "C13.R3", "index.(*Builder).Finish/delta/sidecar-installed-with-new-shards", as.Pos(), "the rewritten sidecar of each older shard is registered in the artifact set before the rename loop", "the rename loop can run without the older shard's rewritten .meta being registered: the new delta shard becomes visible while the old shard still shows the replaced files")
			before := g.Reach(g.Entry(), false, &an.Search{Target: func(k an.Loc) bool { return k == l }, Cut: isRename})
			r.Check(before, "C13.R3", "index.(*Builder).Finish/delta/sidecars-written-before-renames", as.Pos(), "sidecars are prepared before anything is renamed into place", "the sidecar is only prepared after shards were already renamed")
		}
		// re-checks return errors
		for _, chk := range []struct {
			name string
			is   func(c ast.Expr) bool
		}{
			{"branch-names", func(c ast.Expr) bool {
				found := false
				ast.Inspect(c, func(m ast.Node) bool {
					if call, ok := m.(*ast.CallExpr); ok && an.Callee(info, call) == bne {
						found = true
					}
					return true
				})
				return found
			}},
			{"option-hash", func(c ast.Expr) bool { return len(an.CallsTo(info, c, false, getHash)) > 0 }},
		} {
			ok := false
			for _, b := range g.C.Blocks {
				cond := an.CondOf(b)
				if cond == nil || !chk.is(cond) {
					continue
				}
				// the mismatch edge returns an error
				for _, nd := range b.Succs[0].Nodes {
					if rs, isR := nd.(*ast.ReturnStmt); isR && len(rs.Results) == 1 && !info.Types[rs.Results[0]].IsNil() {
						ok = true
					}
				}
			}
			r.Check(ok, "C13.R3", "index.(*Builder).Finish/delta/rechecks/"+chk.name, fd.Decl.Pos(), "a mismatch of "+chk.name+" aborts the delta build with an error", "Finish no longer aborts a delta build whose "+chk.name+" differ from the older shard's")
		}
	}
}
