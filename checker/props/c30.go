package props

import (
	"fmt"
	"go/ast"
	"go/constant"
	"go/token"
	"go/types"
	"strings"

	"golang.org/x/tools/go/cfg"

	"zverif/checker/an"
)

func init() { register("C30", c30) }

// lockHeldAt: on every path from the entry of g to l a call <x>.mu.Lock()
// precedes, and no explicit <x>.mu.Unlock() can reach l without a new Lock.
func lockHeldAt(g *an.G, info *types.Info, l an.Loc, mu *types.Var, locks ...string) bool {
	if len(locks) == 0 {
		locks = []string{"Lock"}
	}
	isLock := func(k an.Loc) bool { return muCall(info, g.Node(k), mu, locks...) }
	if g.Reach(g.Entry(), false, &an.Search{Target: func(k an.Loc) bool { return k == l }, Cut: isLock}) {
		return false
	}
	for _, ul := range g.Locs(func(n ast.Node) bool { return muCall(info, n, mu, "Unlock", "RUnlock") }) {
		if g.Reach(ul, true, &an.Search{Target: func(k an.Loc) bool { return k == l }, Cut: isLock}) {
			return false
		}
	}
	return true
}

func c30(p *an.Prog, r *an.R, tier string) {
	r.Explanation = "C30 (structural clauses): every access to the queue's items map, heap and sequence counter happens under the queue mutex (directly or because every caller holds it); the heap is modified only through container/heap; heap.Fix/Remove are applied only to items known to be on the heap at their recorded index and heap.Push only to items known to be off it; pqueue.Swap/Push/Pop keep the recorded index in step; every Push gets a fresh sequence number and is gated by the failure backoff; a change of a priority-relevant field of an item that may be on the heap is followed by heap.Fix; inside loops over the items map entries are looked up and deleted by the key they are stored under; the priority comparison is lexicographic over (indexed, failed, seq) with a strict final comparison. (R7) after backoff.Fail the item leaves the heap on every path unless it is not on it. Does NOT decide the priority-queue behaviour over histories."
	r.Rule("C30.R1", "lockset: every access to Queue.items/pq/seq is under Queue.mu, or in a helper all of whose callers hold it")
	r.Rule("C30.R2", "heap discipline: Queue.pq is written only by container/heap (no direct assignment outside pqueue's methods); heap.Fix/Remove(&q.pq, i) only with i == item.heapIdx under item.heapIdx >= 0; heap.Push only under item.heapIdx < 0; pqueue.Swap/Push/Pop store the new position (Pop stores -1)")
	r.Rule("C30.R3", "every heap.Push is preceded by q.seq++ and item.seq = q.seq and guarded by backoff.Allow")
	r.Rule("C30.R4", "inside a loop over q.items the entry is identified by the range key or item.repoID (the key it was inserted under), never by item.opts.RepoID")
	r.Rule("C30.R5", "lessQueueItemPriority, evaluated abstractly over all 48 combinations of (x.indexed, y.indexed, x failed, y failed, order of x.seq and y.seq), equals: un-indexed first, then non-failed first, then strictly lower seq")
	r.Rule("C30.R6", "an assignment to item.indexed/indexState/seq is made either where the item is known to be off the heap or is followed on every on-heap path by heap.Fix/Remove")
	r.Rule("C30.R7", "after backoff.Fail every path to the function exit takes the item off the heap (heap.Remove) or passes the edge on which heapIdx >= 0 is false: an item in backoff is not left where Pop yields it")
	pk := p.Pkg(isrv)
	qT := p.Named(isrv, "Queue")
	mu := p.Field(isrv, "Queue", "mu")
	items := p.Field(isrv, "Queue", "items")
	pq := p.Field(isrv, "Queue", "pq")
	seq := p.Field(isrv, "Queue", "seq")
	heapIdx := p.Field(isrv, "queueItem", "heapIdx")
	if !r.Anchor(pk != nil && qT != nil && mu != nil && items != nil && pq != nil && seq != nil && heapIdx != nil, isrv+".Queue and fields") {
		return
	}
	info := pk.TypesInfo
	hFix := p.ExtFunc("container/heap", "Fix")
	hRemove := p.ExtFunc("container/heap", "Remove")
	hPush := p.ExtFunc("container/heap", "Push")
	hPop := p.ExtFunc("container/heap", "Pop")
	if !r.Anchor(hFix != nil && hRemove != nil && hPush != nil && hPop != nil, "container/heap") {
		return
	}
	guarded := map[*types.Var]bool{items: true, pq: true, seq: true}

	type fnInfo struct {
		fn *types.Func
		d  *an.DeclInfo
		g  *an.G
	}
	var fns []fnInfo
	p.AllDecls(func(fn *types.Func, d *an.DeclInfo) {
		if d.Pkg == pk && d.Decl.Body != nil {
			fns = append(fns, fnInfo{fn, d, nil})
		}
	})
	graph := func(fi *fnInfo) *an.G {
		if fi.g == nil {
			fi.g = an.NewG(info, fi.d.Decl.Body)
		}
		return fi.g
	}
	// ---- R7
	nFail := 0
	for i := range fns {
		fi := &fns[i]
		if strings.HasSuffix(p.Fset.Position(fi.d.Decl.Pos()).Filename, "_test.go") {
			continue
		}
		g := graph(fi)
		for _, l := range g.Locs(func(ast.Node) bool { return true }) {
			isFail := false
			an.Inspect(g.Node(l), false, func(m ast.Node) bool {
				if c, ok := m.(*ast.CallExpr); ok {
					if cf := an.Callee(info, c); cf != nil && cf.Name() == "Fail" && cf.Pkg() == pk.Types {
						if se, ok := ast.Unparen(c.Fun).(*ast.SelectorExpr); ok {
							if s2, ok := ast.Unparen(se.X).(*ast.SelectorExpr); ok && s2.Sel.Name == "backoff" {
								isFail = true
							}
						}
					}
				}
				return true
			})
			if !isFail {
				continue
			}
			nFail++
			removes := func(k an.Loc) bool { return len(an.CallsTo(info, g.Node(k), false, hRemove)) > 0 }
			offHeapEdge := func(b *cfg.Block, k int) bool {
				return g.EdgeImplies(b, k, func(atom ast.Expr, truth bool) bool {
					f, ok := an.IntCompare(info, atom, truth, func(e ast.Expr) bool { return selField(info, e, heapIdx) })
					return ok && f.AtMost(-1)
				})
			}
			srch := &an.Search{ExitIsTarget: true, Cut: removes, CutEdge: offHeapEdge}
			stays := g.Reach(l, true, srch)
			r.Check(!stays, "C30.R7", an.FuncName(fi.fn)+"/backoff.Fail/item-leaves-the-heap", g.Node(l).Pos(), "after the failure is recorded the item is removed from the heap unless it is not on it",
				"after backoff.Fail a path reaches the end of the function with the item still on the heap (neither heap.Remove nor the heapIdx < 0 edge): Pop yields the repository while its backoff has not expired")
		}
	}
	r.Floor("C30.R7.backoff-fail-sites", 1, nFail)
	// ---- R1
	accesses := 0
	for i := range fns {
		fi := &fns[i]
		sig := fi.fn.Type().(*types.Signature)
		var locs []an.Loc
		g := graph(fi)
		for _, l := range g.Locs(func(ast.Node) bool { return true }) {
			if g.Contains(l, func(m ast.Node) bool {
				se, ok := m.(*ast.SelectorExpr)
				if !ok || info.Selections[se] == nil {
					return false
				}
				v, _ := info.Selections[se].Obj().(*types.Var)
				return v != nil && guarded[v]
			}) {
				locs = append(locs, l)
			}
		}
		if len(locs) == 0 {
			continue
		}
		fname := an.FuncName(fi.fn)
		r.Fn(fname)
		if fi.fn.Name() == "NewQueue" {
			continue // constructor: the value is not shared yet
		}
		allHeld := true
		for _, l := range locs {
			accesses++
			if !lockHeldAt(g, info, l, mu) {
				allHeld = false
			}
		}
		if allHeld {
			r.OK("C30.R1", fname+"/queue-state-under-mu", fi.d.Decl.Pos(), fmt.Sprintf("%d accesses, all preceded by q.mu.Lock() with no unlock in between", len(locs)))
			continue
		}
		// helper: no lock call of its own -> every caller must hold mu at the call
		ownLock := len(g.Locs(func(n ast.Node) bool { return muCall(info, n, mu, "Lock") })) > 0
		if ownLock || sig.Recv() == nil {
			r.Bad("C30.R1", fname+"/queue-state-under-mu", fi.d.Decl.Pos(), "the queue's items/pq/seq are accessed on a path where q.mu is not held (before Lock or after Unlock): concurrent AddOrUpdate/Pop/SetIndexed race on the heap and its indices")
			continue
		}
		callers, ok := 0, true
		for j := range fns {
			cg := graph(&fns[j])
			for _, l := range cg.Locs(func(n ast.Node) bool { return len(an.CallsTo(info, n, false, fi.fn)) > 0 }) {
				callers++
				if !lockHeldAt(cg, info, l, mu) {
					ok = false
				}
			}
		}
		r.Check(ok && callers > 0, "C30.R1", fname+"/queue-state-under-mu", fi.d.Decl.Pos(), fmt.Sprintf("lock-free helper: all %d callers hold q.mu at the call", callers),
			"lock-free helper touching the queue's state is called from a place that does not hold q.mu (or is never called)")
	}
	r.Floor("C30.R1.accesses", 25, accesses)

	// ---- R2/R3/R6 per function
	idxCond := func(cond ast.Expr, item types.Object) (isTest bool, onHeapOnTrue bool) {
		be, ok := ast.Unparen(cond).(*ast.BinaryExpr)
		if !ok {
			return false, false
		}
		se, ok := ast.Unparen(be.X).(*ast.SelectorExpr)
		if !ok || info.Selections[se] == nil || info.Selections[se].Obj() != heapIdx || !an.UsesObj(info, se.X, item) {
			return false, false
		}
		tv := info.Types[be.Y]
		if tv.Value == nil || tv.Value.String() != "0" {
			return false, false
		}
		switch be.Op {
		case token.GEQ:
			return true, true
		case token.LSS:
			return true, false
		}
		return false, false
	}
	itemOfArg := func(e ast.Expr) types.Object {
		// item.heapIdx -> item ; item -> item
		switch x := ast.Unparen(e).(type) {
		case *ast.Ident:
			return info.ObjectOf(x)
		case *ast.SelectorExpr:
			if info.Selections[x] != nil && info.Selections[x].Obj() == heapIdx {
				if id, ok := ast.Unparen(x.X).(*ast.Ident); ok {
					return info.ObjectOf(id)
				}
			}
		}
		return nil
	}
	nHeapOps, nPush, nPrio := 0, 0, 0
	allow := p.Func(isrv, "(*backoff).Allow")
	prio := map[string]bool{"indexed": true, "indexState": true, "seq": true}
	for i := range fns {
		fi := &fns[i]
		g := graph(fi)
		fname := an.FuncName(fi.fn)
		sig := fi.fn.Type().(*types.Signature)
		isPQMethod := sig.Recv() != nil && an.NamedOf(sig.Recv().Type()) != nil && an.NamedOf(sig.Recv().Type()).Obj().Name() == "pqueue"
		for _, l := range g.Locs(func(ast.Node) bool { return true }) {
			node := g.Node(l)
			// direct writes to q.pq
			if as, ok := node.(*ast.AssignStmt); ok && !isPQMethod && fi.fn.Name() != "NewQueue" {
				for _, lh := range as.Lhs {
					base := lh
					for {
						if ix, ok := ast.Unparen(base).(*ast.IndexExpr); ok {
							base = ix.X
							continue
						}
						if sl, ok := ast.Unparen(base).(*ast.SliceExpr); ok {
							base = sl.X
							continue
						}
						break
					}
					if selField(info, base, pq) {
						r.Bad("C30.R2", fname+"/direct-write-to-pq", as.Pos(), "q.pq is assigned directly instead of through container/heap: the heapIdx recorded in the surviving items is not updated, so later heap.Fix/Remove act on the wrong entries")
					}
				}
			}
			for _, c := range an.CallsTo(info, node, false, hFix, hRemove) {
				nHeapOps++
				op := an.Callee(info, c).Name()
				item := itemOfArg(c.Args[1])
				key := fmt.Sprintf("%s/heap.%s", fname, op)
				se, isSel := ast.Unparen(c.Args[1]).(*ast.SelectorExpr)
				if item == nil || !isSel || info.Selections[se] == nil || info.Selections[se].Obj() != heapIdx {
					r.Bad("C30.R2", key+"/index-is-item.heapIdx", c.Pos(), "heap."+op+" is called with an index that is not an item's recorded heapIdx")
					continue
				}
				ok := g.GuardedBy(l, func(cond ast.Expr, truth bool) bool {
					isT, onTrue := idxCond(cond, item)
					return isT && onTrue == truth
				}, nil)
				r.Check(ok, "C30.R2", key+"/guarded-by-heapIdx>=0", c.Pos(), "only applied to an item known to be on the heap", "heap."+op+" can run for an item that is not on the heap (heapIdx < 0): index out of range or the wrong entry is fixed/removed")
			}
			for _, c := range an.CallsTo(info, node, false, hPush) {
				nPush++
				item := itemOfArg(c.Args[1])
				key := fname + "/heap.Push"
				if item == nil {
					r.Bad("C30.R2", key+"/pushes-an-item-variable", c.Pos(), "heap.Push is called with something that is not an item variable")
					continue
				}
				offHeapAt := func(gg *an.G, ll an.Loc, it types.Object) bool {
					return gg.GuardedBy(ll, func(cond ast.Expr, truth bool) bool {
						isT, onTrue := idxCond(cond, it)
						return isT && onTrue != truth
					}, nil)
				}
				allowedAt := func(gg *an.G, ll an.Loc) bool {
					return allow != nil && gg.GuardedBy(ll, func(cond ast.Expr, truth bool) bool {
						c2, ok := ast.Unparen(cond).(*ast.CallExpr)
						return ok && an.Callee(info, c2) == allow && truth
					}, nil)
				}
				ok := offHeapAt(g, l, item)
				okAllow := allowedAt(g, l)
				// a helper that pushes its item parameter: the obligations move to every caller of the helper
				if !ok || !okAllow {
					pi := -1
					for k := 0; k < sig.Params().Len(); k++ {
						if types.Object(sig.Params().At(k)) == item {
							pi = k
						}
					}
					if pi >= 0 {
						callers, okAll, allowAll := 0, true, true
						for j := range fns {
							fj := &fns[j]
							gj := graph(fj)
							for _, lj := range gj.Locs(func(ast.Node) bool { return true }) {
								for _, cc := range an.CallsTo(info, gj.Node(lj), false, fi.fn) {
									callers++
									argItem := itemOfArg(cc.Args[pi])
									if argItem == nil || !offHeapAt(gj, lj, argItem) {
										okAll = false
									}
									if !allowedAt(gj, lj) {
										allowAll = false
									}
								}
							}
						}
						if callers > 0 {
							ok = ok || okAll
							okAllow = okAllow || allowAll
						}
					}
				}
				r.Check(ok, "C30.R2", key+"/guarded-by-heapIdx<0", c.Pos(), "only items known to be off the heap are pushed (here or at every caller of this helper)", "heap.Push can run for an item that is already on the heap: the repository is yielded twice per enqueue")
				// R3
				r.Check(okAllow, "C30.R3", key+"/gated-by-backoff.Allow", c.Pos(), "the push is gated by backoff.Allow", "an item can be pushed without consulting its failure backoff")
				isSeqInc := func(k an.Loc) bool {
					inc, ok := g.Node(k).(*ast.IncDecStmt)
					return ok && inc.Tok == token.INC && selField(info, inc.X, seq)
				}
				isSeqSet := func(k an.Loc) bool {
					as, ok := g.Node(k).(*ast.AssignStmt)
					if !ok || len(as.Lhs) != 1 || len(as.Rhs) != 1 {
						return false
					}
					se, ok := ast.Unparen(as.Lhs[0]).(*ast.SelectorExpr)
					return ok && se.Sel.Name == "seq" && an.UsesObj(info, se.X, item) && selField(info, as.Rhs[0], seq)
				}
				noInc := g.Reach(g.Entry(), false, &an.Search{Target: func(k an.Loc) bool { return k == l }, Cut: isSeqInc})
				noSet := g.Reach(g.Entry(), false, &an.Search{Target: func(k an.Loc) bool { return k == l }, Cut: isSeqSet})
				r.Check(!noInc && !noSet, "C30.R3", key+"/fresh-seq", c.Pos(), "q.seq++ and item.seq = q.seq precede the push", "an item can be pushed without a fresh sequence number: first-in first-out order among equal priorities is lost")
			}
			// R6
			if as, ok := node.(*ast.AssignStmt); ok && !isPQMethod {
				for _, lh := range as.Lhs {
					se, ok := ast.Unparen(lh).(*ast.SelectorExpr)
					if !ok || info.Selections[se] == nil || !prio[se.Sel.Name] {
						continue
					}
					fv, _ := info.Selections[se].Obj().(*types.Var)
					if fv == nil || fv.Pkg() != pk.Types || an.NamedOf(info.TypeOf(se.X)) == nil || an.NamedOf(info.TypeOf(se.X)).Obj().Name() != "queueItem" {
						continue
					}
					id, ok := ast.Unparen(se.X).(*ast.Ident)
					if !ok {
						continue
					}
					item := info.ObjectOf(id)
					nPrio++
					key := fmt.Sprintf("%s/assign-item.%s/heap-reordered", fname, se.Sel.Name)
					removesItem := func(k an.Loc) bool {
						for _, c := range an.CallsTo(info, g.Node(k), false, hRemove) {
							if itemOfArg(c.Args[1]) == item {
								return true
							}
						}
						// item := heap.Pop(...)
						if as2, ok := g.Node(k).(*ast.AssignStmt); ok && len(an.CallsTo(info, as2, false, hPop)) > 0 {
							for _, l2 := range as2.Lhs {
								if an.UsesObj(info, l2, item) {
									return true
								}
							}
						}
						return false
					}
					offHeap := g.GuardedByGen(l, func(cond ast.Expr, truth bool) bool {
						isT, onTrue := idxCond(cond, item)
						return isT && onTrue != truth
					}, removesItem, func(k an.Loc) bool {
						for _, c := range an.CallsTo(info, g.Node(k), false, hPush) {
							if itemOfArg(c.Args[1]) == item {
								return true
							}
						}
						return false
					})
					if offHeap {
						r.OK("C30.R6", key, as.Pos(), "the item is known to be off the heap here")
						continue
					}
					// a helper of the queue that is handed the item and, on every path where the item is on the
					// heap, fixes or removes it before returning
					helperReorders := func(c *ast.CallExpr) bool {
						for j := range fns {
							fj := &fns[j]
							if an.Callee(info, c) != fj.fn {
								continue
							}
							hsig := fj.fn.Type().(*types.Signature)
							for ai, a := range c.Args {
								if itemOfArg(a) != item || ai >= hsig.Params().Len() {
									continue
								}
								hp := types.Object(hsig.Params().At(ai))
								hg := graph(fj)
								hre := func(k an.Loc) bool {
									for _, hc := range an.CallsTo(info, hg.Node(k), false, hFix, hRemove, hPush) {
										if itemOfArg(hc.Args[1]) == hp {
											return true
										}
									}
									return false
								}
								staleInHelper := hg.Reach(hg.Entry(), false, &an.Search{ExitIsTarget: true, Cut: hre, CutEdge: func(b *cfg.Block, k int) bool {
									return hg.EdgeImplies(b, k, func(atom ast.Expr, truth bool) bool {
										isT, onTrue := idxCond(atom, hp)
										return isT && onTrue != truth
									})
								}})
								if !staleInHelper {
									return true
								}
							}
						}
						return false
					}
					reorders := func(k an.Loc) bool {
						for _, c := range an.CallsTo(info, g.Node(k), false, hFix, hRemove, hPush) {
							if itemOfArg(c.Args[1]) == item {
								return true
							}
						}
						hit := false
						an.Inspect(g.Node(k), false, func(m ast.Node) bool {
							if c, ok := m.(*ast.CallExpr); ok && helperReorders(c) {
								hit = true
							}
							return true
						})
						return hit
					}
					stale := g.Reach(l, true, &an.Search{ExitIsTarget: true, Cut: reorders, CutEdge: func(b *cfg.Block, k int) bool {
						// cut the edge on which the item is known off the heap
						return g.EdgeImplies(b, k, func(atom ast.Expr, truth bool) bool {
							isT, onTrue := idxCond(atom, item)
							return isT && onTrue != truth
						})
					}})
					r.Check(!stale, "C30.R6", key, as.Pos(), "followed by heap.Fix/Remove/Push on every path where the item may be on the heap",
						"a priority-relevant field of an item that may be on the heap is changed and the function can return without heap.Fix: the heap order is stale and repositories are yielded in the wrong order")
				}
			}
		}
	}
	r.Floor("C30.R2.heap-fix-remove-sites", 4, nHeapOps)
	r.Floor("C30.R3.push-sites", 1, nPush)
	r.Floor("C30.R6.priority-field-assignments", 4, nPrio)
	c30PQ(p, r, heapIdx)
	c30Keys(p, r, items)
	c30Less(p, r)
}

func c30PQ(p *an.Prog, r *an.R, heapIdx *types.Var) {
	for _, spec := range []struct {
		name string
		min  int
		neg1 bool
	}{{"pqueue.Swap", 2, false}, {"(*pqueue).Push", 1, false}, {"(*pqueue).Pop", 1, true}} {
		f := p.Func(isrv, spec.name)
		d := p.Decl(f)
		if !r.Anchor(d != nil, isrv+"."+spec.name) {
			continue
		}
		info := d.Pkg.TypesInfo
		n, neg := 0, false
		ast.Inspect(d.Decl.Body, func(nd ast.Node) bool {
			as, ok := nd.(*ast.AssignStmt)
			if !ok {
				return true
			}
			for i, lh := range as.Lhs {
				if selField(info, lh, heapIdx) {
					n++
					if i < len(as.Rhs) {
						if tv := info.Types[as.Rhs[i]]; tv.Value != nil && tv.Value.String() == "-1" {
							neg = true
						}
					}
				}
			}
			return true
		})
		ok := n >= spec.min && (!spec.neg1 || neg)
		r.Check(ok, "C30.R2", an.FuncName(f)+"/maintains-heapIdx", d.Decl.Pos(), fmt.Sprintf("stores the new position (%d assignments)", n),
			an.FuncName(f)+" does not keep heapIdx in step with the item's position: heap.Fix/Remove later use a stale index")
	}
}

func c30Keys(p *an.Prog, r *an.R, items *types.Var) {
	pk := p.Pkg(isrv)
	info := pk.TypesInfo
	repoIDField := p.Field(isrv, "IndexOptions", "RepoID")
	n := 0
	p.AllDecls(func(fn *types.Func, d *an.DeclInfo) {
		if d.Pkg != pk || d.Decl.Body == nil {
			return
		}
		ast.Inspect(d.Decl.Body, func(nd ast.Node) bool {
			rs, ok := nd.(*ast.RangeStmt)
			if !ok || !selField(info, rs.X, items) {
				return true
			}
			n++
			var val types.Object
			if id, ok := rs.Value.(*ast.Ident); ok {
				val = info.ObjectOf(id)
			}
			bad := false
			var pos token.Pos
			ast.Inspect(rs.Body, func(m ast.Node) bool {
				se, ok := m.(*ast.SelectorExpr)
				if !ok || info.Selections[se] == nil || info.Selections[se].Obj() != repoIDField {
					return true
				}
				// <item>.opts.RepoID
				if inner, ok := ast.Unparen(se.X).(*ast.SelectorExpr); ok && val != nil && an.UsesObj(info, inner.X, val) {
					// only a problem when used as a key (index / delete / append of removed ids)
					bad = true
					pos = se.Pos()
				}
				return true
			})
			key := an.FuncName(fn) + "/range-items/entry-identified-by-its-key"
			if bad {
				r.Bad("C30.R4", key, pos, "inside a loop over q.items the entry is identified by item.opts.RepoID, but entries are stored under item.repoID and an item created by SetIndexed for an unknown repository has zero opts: it is looked up and deleted under key 0 and never removed")
			} else {
				r.OK("C30.R4", key, rs.Pos(), "entries are identified by the range key / item.repoID")
			}
			return true
		})
	})
	r.Floor("C30.R4.loops-over-items", 3, n)
	// insertion key == repoID
	if d := p.Decl(p.Func(isrv, "(*Queue).getOrAdd")); r.Anchor(d != nil, isrv+".(*Queue).getOrAdd") {
		prm := an.Param(info, d.Decl, 0)
		ok := false
		ast.Inspect(d.Decl.Body, func(nd ast.Node) bool {
			as, isA := nd.(*ast.AssignStmt)
			if !isA || len(as.Lhs) != 1 {
				return true
			}
			if ix, isIx := ast.Unparen(as.Lhs[0]).(*ast.IndexExpr); isIx && selField(info, ix.X, items) && an.UsesObj(info, ix.Index, prm) {
				ok = true
			}
			return true
		})
		newItemUsesSame := false
		ast.Inspect(d.Decl.Body, func(nd ast.Node) bool {
			if c, isC := nd.(*ast.CallExpr); isC {
				if se, isS := ast.Unparen(c.Fun).(*ast.SelectorExpr); isS && se.Sel.Name == "newQueueItem" && len(c.Args) == 1 && an.UsesObj(info, c.Args[0], prm) {
					newItemUsesSame = true
				}
			}
			return true
		})
		r.Check(ok && newItemUsesSame, "C30.R4", isrv+".(*Queue).getOrAdd/inserted-under-own-repoID", d.Decl.Pos(), "the item is created for and stored under the same repoID", "getOrAdd stores the item under a key different from the repoID it was created with")
	}
}

func c30Less(p *an.Prog, r *an.R) {
	f := p.Func(isrv, "lessQueueItemPriority")
	d := p.Decl(f)
	if !r.Anchor(d != nil, isrv+".lessQueueItemPriority") {
		return
	}
	r.Fn(an.FuncName(f))
	info := d.Pkg.TypesInfo
	// The function only compares: indexed (bool), indexState against the constant
	// indexStateFail, and seq by order. Evaluate its body abstractly over that
	// finite domain (2*2*2*2 booleans x 3 orderings of seq = 48 cases) and compare
	// with the specification: un-indexed first, then non-failed first, then
	// lower seq (strictly).
	px, py := an.Param(info, d.Decl, 0), an.Param(info, d.Decl, 1)
	failC := p.Obj(isrv, "indexStateFail")
	type world struct {
		xi, yi, xf, yf bool
		seq            int // -1: x.seq < y.seq, 0 equal, 1 greater
	}
	type val struct {
		kind string // "bool", "int", "seqx", "seqy", "statex", "statey", "fail", "itemx", "itemy"
		b    bool
		n    int64
	}
	var callHelper func(c *ast.CallExpr, w world, env map[types.Object]val, depth int) (val, bool)
	depthNow := 0
	errUnsupported := ""
	var evalExpr func(e ast.Expr, w world, env map[types.Object]val) (val, bool)
	evalExpr = func(e ast.Expr, w world, env map[types.Object]val) (val, bool) {
		switch x := ast.Unparen(e).(type) {
		case *ast.BasicLit:
			if tv := info.Types[x]; tv.Value != nil {
				if n, ok := constant.Int64Val(constant.ToInt(tv.Value)); ok {
					return val{kind: "int", n: n}, true
				}
			}
		case *ast.CallExpr:
			if v, ok := callHelper(x, w, env, depthNow); ok {
				return v, true
			}
		case *ast.Ident:
			if v, ok := env[info.ObjectOf(x)]; ok {
				return v, true
			}
			if info.ObjectOf(x) == types.Object(px) {
				return val{kind: "itemx"}, true
			}
			if info.ObjectOf(x) == types.Object(py) {
				return val{kind: "itemy"}, true
			}
			if info.ObjectOf(x) == failC {
				return val{kind: "fail"}, true
			}
			if cst, ok := info.ObjectOf(x).(*types.Const); ok && cst.Val().Kind() == constant.Int {
				if n, ok := constant.Int64Val(cst.Val()); ok {
					return val{kind: "int", n: n}, true
				}
			}
			if tv := info.Types[x]; tv.Value != nil && (tv.Value.String() == "true" || tv.Value.String() == "false") {
				return val{kind: "bool", b: tv.Value.String() == "true"}, true
			}
		case *ast.SelectorExpr:
			isX, isY := false, false
			if bid, ok := ast.Unparen(x.X).(*ast.Ident); ok {
				if bv, ok := evalExpr(bid, w, env); ok {
					isX, isY = bv.kind == "itemx", bv.kind == "itemy"
				}
			}
			if isX || isY {
				switch x.Sel.Name {
				case "indexed":
					if isX {
						return val{kind: "bool", b: w.xi}, true
					}
					return val{kind: "bool", b: w.yi}, true
				case "indexState":
					if isX {
						return val{kind: "statex"}, true
					}
					return val{kind: "statey"}, true
				case "seq":
					if isX {
						return val{kind: "seqx"}, true
					}
					return val{kind: "seqy"}, true
				}
			}
			if info.ObjectOf(x.Sel) == failC {
				return val{kind: "fail"}, true
			}
		case *ast.UnaryExpr:
			if x.Op == token.NOT {
				if v, ok := evalExpr(x.X, w, env); ok && v.kind == "bool" {
					return val{kind: "bool", b: !v.b}, true
				}
			}
		case *ast.BinaryExpr:
			a, okA := evalExpr(x.X, w, env)
			b, okB := evalExpr(x.Y, w, env)
			if !okA || !okB {
				break
			}
			isFail := func(v val) (bool, bool) {
				switch v.kind {
				case "statex":
					return w.xf, true
				case "statey":
					return w.yf, true
				}
				return false, false
			}
			switch {
			case a.kind == "int" && b.kind == "int":
				switch x.Op {
				case token.ADD:
					return val{kind: "int", n: a.n + b.n}, true
				case token.SUB:
					return val{kind: "int", n: a.n - b.n}, true
				case token.MUL:
					return val{kind: "int", n: a.n * b.n}, true
				case token.OR:
					return val{kind: "int", n: a.n | b.n}, true
				case token.AND:
					return val{kind: "int", n: a.n & b.n}, true
				case token.XOR:
					return val{kind: "int", n: a.n ^ b.n}, true
				case token.SHL:
					if b.n >= 0 && b.n < 62 {
						return val{kind: "int", n: a.n << uint(b.n)}, true
					}
				case token.LSS:
					return val{kind: "bool", b: a.n < b.n}, true
				case token.LEQ:
					return val{kind: "bool", b: a.n <= b.n}, true
				case token.GTR:
					return val{kind: "bool", b: a.n > b.n}, true
				case token.GEQ:
					return val{kind: "bool", b: a.n >= b.n}, true
				case token.EQL:
					return val{kind: "bool", b: a.n == b.n}, true
				case token.NEQ:
					return val{kind: "bool", b: a.n != b.n}, true
				}
			case a.kind == "bool" && b.kind == "bool":
				switch x.Op {
				case token.EQL:
					return val{kind: "bool", b: a.b == b.b}, true
				case token.NEQ:
					return val{kind: "bool", b: a.b != b.b}, true
				case token.LAND:
					return val{kind: "bool", b: a.b && b.b}, true
				case token.LOR:
					return val{kind: "bool", b: a.b || b.b}, true
				}
			case (a.kind == "fail") != (b.kind == "fail"):
				other := a
				if a.kind == "fail" {
					other = b
				}
				if fv, ok := isFail(other); ok {
					switch x.Op {
					case token.EQL:
						return val{kind: "bool", b: fv}, true
					case token.NEQ:
						return val{kind: "bool", b: !fv}, true
					}
				}
			case (a.kind == "seqx" && b.kind == "seqy") || (a.kind == "seqy" && b.kind == "seqx"):
				c := w.seq // order of x relative to y
				if a.kind == "seqy" {
					c = -c
				}
				switch x.Op {
				case token.LSS:
					return val{kind: "bool", b: c < 0}, true
				case token.LEQ:
					return val{kind: "bool", b: c <= 0}, true
				case token.GTR:
					return val{kind: "bool", b: c > 0}, true
				case token.GEQ:
					return val{kind: "bool", b: c >= 0}, true
				case token.EQL:
					return val{kind: "bool", b: c == 0}, true
				case token.NEQ:
					return val{kind: "bool", b: c != 0}, true
				}
			}
		}
		errUnsupported = types.ExprString(e)
		return val{}, false
	}
	// statements: returns (result, returned, ok)
	var evalStmts func(list []ast.Stmt, w world, env map[types.Object]val) (val, bool, bool)
	none := val{}
	assignOp := map[token.Token]token.Token{token.ADD_ASSIGN: token.ADD, token.SUB_ASSIGN: token.SUB, token.OR_ASSIGN: token.OR, token.AND_ASSIGN: token.AND, token.XOR_ASSIGN: token.XOR, token.SHL_ASSIGN: token.SHL, token.MUL_ASSIGN: token.MUL}
	evalStmts = func(list []ast.Stmt, w world, env map[types.Object]val) (val, bool, bool) {
		for _, st := range list {
			switch x := st.(type) {
			case *ast.ReturnStmt:
				if len(x.Results) != 1 {
					return none, false, false
				}
				v, ok := evalExpr(x.Results[0], w, env)
				if !ok || (v.kind != "bool" && v.kind != "int") {
					return none, false, false
				}
				return v, true, true
			case *ast.DeclStmt:
				gd, ok := x.Decl.(*ast.GenDecl)
				if !ok || gd.Tok != token.VAR {
					errUnsupported = "declaration"
					return none, false, false
				}
				for _, sp := range gd.Specs {
					vs := sp.(*ast.ValueSpec)
					for i, nm := range vs.Names {
						var v val
						if i < len(vs.Values) {
							var ok bool
							if v, ok = evalExpr(vs.Values[i], w, env); !ok {
								return none, false, false
							}
						} else if b, isB := info.ObjectOf(nm).Type().Underlying().(*types.Basic); isB && b.Info()&types.IsInteger != 0 {
							v = val{kind: "int"}
						} else if isB && b.Kind() == types.Bool {
							v = val{kind: "bool"}
						} else {
							errUnsupported = "var " + nm.Name
							return none, false, false
						}
						env[info.ObjectOf(nm)] = v
					}
				}
			case *ast.IncDecStmt:
				id, ok := x.X.(*ast.Ident)
				cur, has := env[info.ObjectOf(id)]
				if !ok || !has || cur.kind != "int" {
					errUnsupported = "inc/dec"
					return none, false, false
				}
				if x.Tok == token.INC {
					cur.n++
				} else {
					cur.n--
				}
				env[info.ObjectOf(id)] = cur
			case *ast.AssignStmt:
				if len(x.Lhs) != len(x.Rhs) {
					return none, false, false
				}
				vals := make([]val, len(x.Rhs))
				for i, rh := range x.Rhs {
					v, ok := evalExpr(rh, w, env)
					if !ok {
						return none, false, false
					}
					vals[i] = v
				}
				for i, lh := range x.Lhs {
					id, ok := lh.(*ast.Ident)
					if !ok {
						return none, false, false
					}
					if op, isOp := assignOp[x.Tok]; isOp {
						cur, has := env[info.ObjectOf(id)]
						if !has || cur.kind != "int" || vals[i].kind != "int" {
							errUnsupported = "compound assignment"
							return none, false, false
						}
						switch op {
						case token.ADD:
							cur.n += vals[i].n
						case token.SUB:
							cur.n -= vals[i].n
						case token.OR:
							cur.n |= vals[i].n
						case token.AND:
							cur.n &= vals[i].n
						case token.XOR:
							cur.n ^= vals[i].n
						case token.MUL:
							cur.n *= vals[i].n
						case token.SHL:
							cur.n <<= uint(vals[i].n & 63)
						}
						env[info.ObjectOf(id)] = cur
						continue
					}
					if x.Tok != token.ASSIGN && x.Tok != token.DEFINE {
						errUnsupported = x.Tok.String()
						return none, false, false
					}
					env[info.ObjectOf(id)] = vals[i]
				}
			case *ast.IfStmt:
				if x.Init != nil {
					if _, _, ok := evalStmts([]ast.Stmt{x.Init}, w, env); !ok {
						return none, false, false
					}
				}
				c, ok := evalExpr(x.Cond, w, env)
				if !ok || c.kind != "bool" {
					return none, false, false
				}
				if c.b {
					if res, ret, ok := evalStmts(x.Body.List, w, env); !ok || ret {
						return res, ret, ok
					}
				} else if x.Else != nil {
					var body []ast.Stmt
					switch e := x.Else.(type) {
					case *ast.BlockStmt:
						body = e.List
					default:
						body = []ast.Stmt{e}
					}
					if res, ret, ok := evalStmts(body, w, env); !ok || ret {
						return res, ret, ok
					}
				}
			case *ast.SwitchStmt:
				if x.Init != nil {
					if _, _, ok := evalStmts([]ast.Stmt{x.Init}, w, env); !ok {
						return none, false, false
					}
				}
				var tag *val
				if x.Tag != nil {
					tv, ok := evalExpr(x.Tag, w, env)
					if !ok {
						return none, false, false
					}
					tag = &tv
				}
				var chosen, deflt *ast.CaseClause
				for _, cc := range x.Body.List {
					cl := cc.(*ast.CaseClause)
					if cl.List == nil {
						deflt = cl
						continue
					}
					for _, ce := range cl.List {
						cv, ok := evalExpr(ce, w, env)
						if !ok {
							return none, false, false
						}
						hit := false
						switch {
						case tag == nil:
							hit = cv.kind == "bool" && cv.b
						case tag.kind == "bool" && cv.kind == "bool":
							hit = tag.b == cv.b
						case tag.kind == "int" && cv.kind == "int":
							hit = tag.n == cv.n
						case (tag.kind == "statex" || tag.kind == "statey") && cv.kind == "fail":
							hit = (tag.kind == "statex" && w.xf) || (tag.kind == "statey" && w.yf)
						default:
							errUnsupported = "switch over " + tag.kind
							return none, false, false
						}
						if hit && chosen == nil {
							chosen = cl
						}
					}
					if chosen != nil {
						break
					}
				}
				if chosen == nil {
					chosen = deflt
				}
				if chosen != nil {
					for _, bs := range chosen.Body {
						if br, ok := bs.(*ast.BranchStmt); ok && br.Tok == token.FALLTHROUGH {
							errUnsupported = "fallthrough"
							return none, false, false
						}
					}
					if res, ret, ok := evalStmts(chosen.Body, w, env); !ok || ret {
						return res, ret, ok
					}
				}
			case *ast.BlockStmt:
				if res, ret, ok := evalStmts(x.List, w, env); !ok || ret {
					return res, ret, ok
				}
			default:
				errUnsupported = fmt.Sprintf("%T", st)
				return none, false, false
			}
		}
		return none, false, true
	}
	// a call to a small function or method of the package whose arguments are the items (or values computed from
	// them): its body is evaluated the same way, the parameters bound to the argument values
	callHelper = func(c *ast.CallExpr, w world, env map[types.Object]val, depth int) (val, bool) {
		if depth >= 3 {
			errUnsupported = "helper nesting"
			return none, false
		}
		callee := an.Callee(info, c)
		hd := p.Decl(callee)
		if callee == nil || hd == nil || hd.Pkg != d.Pkg || hd.Decl.Body == nil {
			return none, false
		}
		henv := map[types.Object]val{}
		if hd.Decl.Recv != nil && len(hd.Decl.Recv.List) == 1 && len(hd.Decl.Recv.List[0].Names) == 1 {
			se, ok := ast.Unparen(c.Fun).(*ast.SelectorExpr)
			if !ok {
				return none, false
			}
			rv, ok := evalExpr(se.X, w, env)
			if !ok {
				return none, false
			}
			henv[info.ObjectOf(hd.Decl.Recv.List[0].Names[0])] = rv
		}
		k := 0
		for _, fl := range hd.Decl.Type.Params.List {
			for _, nm := range fl.Names {
				if k >= len(c.Args) {
					return none, false
				}
				av, ok := evalExpr(c.Args[k], w, env)
				if !ok {
					return none, false
				}
				henv[info.ObjectOf(nm)] = av
				k++
			}
		}
		depthNow = depth + 1
		res, ret, ok := evalStmts(hd.Decl.Body.List, w, henv)
		depthNow = depth
		if !ok || !ret {
			return none, false
		}
		return res, true
	}
	cases, wrong := 0, ""
	decided := true
	for _, xi := range []bool{false, true} {
		for _, yi := range []bool{false, true} {
			for _, xf := range []bool{false, true} {
				for _, yf := range []bool{false, true} {
					for _, sq := range []int{-1, 0, 1} {
						w := world{xi, yi, xf, yf, sq}
						gotV, ret, ok := evalStmts(d.Decl.Body.List, w, map[types.Object]val{})
						if !ok || !ret || gotV.kind != "bool" {
							decided = false
							continue
						}
						got := gotV.b
						cases++
						var want bool
						switch {
						case xi != yi:
							want = !xi
						case xf != yf:
							want = !xf
						default:
							want = sq < 0
						}
						if got != want && wrong == "" {
							wrong = fmt.Sprintf("x{indexed:%v failed:%v} y{indexed:%v failed:%v} seq order %d: less=%v, specification says %v", xi, xf, yi, yf, sq, got, want)
						}
					}
				}
			}
		}
	}
	key := an.FuncName(f) + "/priority-order"
	if !decided {
		r.Und("C30.R5", key, d.Decl.Pos(), "the comparison uses a construct outside the comparison-only fragment ("+errUnsupported+"): abstract evaluation over the 48 orderings is not possible")
		return
	}
	r.Extra["C30.R5.cases_evaluated"] = cases
	r.Check(wrong == "", "C30.R5", key, d.Decl.Pos(), "abstract evaluation over all 48 combinations of (indexed, failed, seq order) agrees with: un-indexed first, then non-failed, then lower seq (strict)", "the priority comparison disagrees with `un-indexed first, then non-failed first, then first-in first-out`: "+wrong)
}
