package props

import (
	"fmt"
	"go/ast"
	"go/token"
	"go/types"
	"sort"
	"strings"

	"zverif/checker/an"
)

func init() { register("C14", c14) }

func c14(p *an.Prog, r *an.R, tier string) {
	r.Explanation = "C14 (structural clause): sibling agreement of the two blob-reading paths of the git indexer. createDocument (go-git) and indexCatfileBlobs (git cat-file) build their index.Document values with the same set of fields, take name/branches/sub-repository from the same sources (fileKey.FullPath(), repos[key].Branches, fileKey.SubRepoPath), share skippedDoc for placeholders, and decide 'too large' with the same comparison (size > SizeMax and not IgnoreSizeMax(full path)) mapped to the same SkipReason. (R3) the tree walk records a (path, blob) for a branch only after that branch's ignore matcher did not match. Does NOT decide branch-set merging per blob, ignore matching, the slab allocator or the streaming protocol (value-level)."
	r.Rule("C14.R1", "the index.Document literals of createDocument and indexCatfileBlobs set the same fields from the same kind of source expressions")
	r.Rule("C14.R2", "both paths apply the size rule as `size > SizeMax && !IgnoreSizeMax(fullPath)` and map it to SkipReasonTooLarge through skippedDoc")
	c14Ignore(p, r)
	docT := p.Named("index", "Document")
	skipped := p.Func("gitindex", "skippedDoc")
	ignoreMax := p.Func("index", "(*Options).IgnoreSizeMax")
	sizeMax := p.Field("index", "Options", "SizeMax")
	tooLarge := p.Obj("index", "SkipReasonTooLarge")
	if !r.Anchor(docT != nil && skipped != nil && ignoreMax != nil && sizeMax != nil && tooLarge != nil, "index.Document / gitindex.skippedDoc / IgnoreSizeMax / SizeMax") {
		return
	}
	type side struct {
		name   string
		fields map[string]string // field -> normalised source
		sizeOK bool
		skipOK bool
		lits   int
	}
	var sides []side
	for _, fn := range []string{"createDocument", "indexCatfileBlobs"} {
		f := p.Func("gitindex", fn)
		d := p.Decl(f)
		if !r.Anchor(d != nil, "gitindex."+fn) {
			return
		}
		r.Fn(an.FuncName(f))
		info := d.Pkg.TypesInfo
		s := side{name: an.FuncName(f), fields: map[string]string{}}
		// how local names are defined: name -> normalised definition
		defs := map[types.Object]string{}
		// expressions are compared by shape with local variable names replaced
		// by their types, so renaming a variable or parameter changes nothing
		// single-definition locals are replaced by their definition (`repo := repos[key]; repo.Branches`
		// is `repos[key].Branches`)
		defExpr := map[types.Object]ast.Expr{}
		defCount := map[types.Object]int{}
		ast.Inspect(d.Decl.Body, func(n ast.Node) bool {
			as, ok := n.(*ast.AssignStmt)
			if !ok {
				return true
			}
			for i, lh := range as.Lhs {
				if id, ok := lh.(*ast.Ident); ok {
					if o := info.ObjectOf(id); o != nil {
						defCount[o]++
						if len(as.Lhs) == len(as.Rhs) {
							defExpr[o] = as.Rhs[i]
						} else {
							defExpr[o] = nil
						}
					}
				}
			}
			return true
		})
		depth := 0
		var normalise func(e ast.Expr) string
		normalise = func(e ast.Expr) string {
			switch x := ast.Unparen(e).(type) {
			case *ast.Ident:
				if v, ok := info.ObjectOf(x).(*types.Var); ok && !v.IsField() && v.Parent() != v.Pkg().Scope() {
					if de := defExpr[v]; de != nil && defCount[v] == 1 && depth < 4 {
						switch ast.Unparen(de).(type) {
						case *ast.IndexExpr, *ast.SelectorExpr, *ast.Ident:
							depth++
							out := normalise(de)
							depth--
							return out
						}
					}
					return "<" + an.TypeName(v.Type()) + ">"
				}
				return x.Name
			case *ast.SelectorExpr:
				return normalise(x.X) + "." + x.Sel.Name
			case *ast.IndexExpr:
				return normalise(x.X) + "[" + normalise(x.Index) + "]"
			case *ast.CallExpr:
				var args []string
				for _, a := range x.Args {
					args = append(args, normalise(a))
				}
				return normalise(x.Fun) + "(" + strings.Join(args, ",") + ")"
			case *ast.StarExpr:
				return "*" + normalise(x.X)
			case *ast.UnaryExpr:
				return x.Op.String() + normalise(x.X)
			}
			return types.ExprString(e)
		}
		ast.Inspect(d.Decl.Body, func(n ast.Node) bool {
			as, ok := n.(*ast.AssignStmt)
			if !ok || len(as.Lhs) != len(as.Rhs) {
				return true
			}
			for i, lh := range as.Lhs {
				if id, ok := lh.(*ast.Ident); ok {
					if o := info.ObjectOf(id); o != nil {
						defs[o] = normalise(as.Rhs[i])
					}
				}
			}
			return true
		})
		resolve := func(e ast.Expr) string {
			if id, ok := ast.Unparen(e).(*ast.Ident); ok {
				if dsrc, ok := defs[info.ObjectOf(id)]; ok {
					return dsrc
				}
			}
			return normalise(e)
		}
		ast.Inspect(d.Decl.Body, func(n ast.Node) bool {
			switch x := n.(type) {
			case *ast.CompositeLit:
				if an.NamedOf(info.TypeOf(x)) == docT && len(x.Elts) > 0 {
					s.lits++
					for _, e := range x.Elts {
						if kv, ok := e.(*ast.KeyValueExpr); ok {
							src := resolve(kv.Value)
							if kv.Key.(*ast.Ident).Name == "Content" {
								src = "<blob bytes>"
							}
							s.fields[kv.Key.(*ast.Ident).Name] = src
						}
					}
				}
			case *ast.BinaryExpr:
				// size > SizeMax && !IgnoreSizeMax(path)
				if x.Op == token.LAND {
					// either order of the two conjuncts; `size > max` or `max < size`
					l, okL := ast.Unparen(x.X).(*ast.BinaryExpr)
					u, okU := ast.Unparen(x.Y).(*ast.UnaryExpr)
					if !okL || !okU {
						l, okL = ast.Unparen(x.Y).(*ast.BinaryExpr)
						u, okU = ast.Unparen(x.X).(*ast.UnaryExpr)
					}
					var maxSide ast.Expr
					if okL && l.Op == token.GTR {
						maxSide = l.Y
					} else if okL && l.Op == token.LSS {
						maxSide = l.X
					}
					if okL && okU && maxSide != nil && u.Op == token.NOT {
						mentionsMax := false
						ast.Inspect(maxSide, func(m ast.Node) bool {
							if se, ok := m.(*ast.SelectorExpr); ok && info.Selections[se] != nil && info.Selections[se].Obj() == sizeMax {
								mentionsMax = true
							}
							return true
						})
						if c, ok := ast.Unparen(u.X).(*ast.CallExpr); ok && mentionsMax && an.Callee(info, c) == ignoreMax {
							if strings.Contains(resolve(c.Args[0]), "FullPath()") {
								s.sizeOK = true
							}
						}
					}
				}
			case *ast.CallExpr:
				if an.Callee(info, x) == skipped && len(x.Args) == 3 {
					if se, ok := ast.Unparen(x.Args[2]).(*ast.SelectorExpr); ok && info.Uses[se.Sel] == tooLarge {
						s.skipOK = true
					}
				}
			}
			return true
		})
		sides = append(sides, s)
	}
	a, b := sides[0], sides[1]
	r.Floor("C14.R1.document-literals", 2, a.lits+b.lits)
	all := map[string]bool{}
	for k := range a.fields {
		all[k] = true
	}
	for k := range b.fields {
		all[k] = true
	}
	var names []string
	for k := range all {
		names = append(names, k)
	}
	sort.Strings(names)
	norm := func(s string) string {
		// the two functions reach the same data through different local names
		return s
	}
	for _, f := range names {
		sa, okA := a.fields[f]
		sb, okB := b.fields[f]
		key := "gitindex/Document." + f + "/same-on-both-blob-paths"
		switch {
		case !okA || !okB:
			r.Bad("C14.R1", key, 0, fmt.Sprintf("only one of the two blob-reading paths sets Document.%s (%s: %v, %s: %v): the go-git and cat-file paths produce different documents", f, a.name, okA, b.name, okB))
		case norm(sa) != norm(sb):
			r.Bad("C14.R1", key, 0, fmt.Sprintf("the two blob-reading paths fill Document.%s from different sources (%s: %s, %s: %s)", f, a.name, sa, b.name, sb))
		default:
			r.OK("C14.R1", key, 0, "both paths set it from "+norm(sa))
		}
	}
	for _, s := range sides {
		r.Check(s.sizeOK, "C14.R2", s.name+"/size-rule", 0, "size > SizeMax && !IgnoreSizeMax(full path)", s.name+" does not apply the size rule as `size > SizeMax && !IgnoreSizeMax(full path)`: the two blob-reading paths disagree on which files are skipped as too large")
		r.Check(s.skipOK, "C14.R2", s.name+"/too-large-via-skippedDoc", 0, "too-large blobs become skippedDoc(..., SkipReasonTooLarge)", s.name+" does not map too-large blobs to skippedDoc(..., SkipReasonTooLarge)")
	}
}

// c14Ignore: the tree walk records a (path, blob) for a branch - creating the entry or adding the branch to an
// existing one - only after that branch's ignore matcher said the path is not excluded.
func c14Ignore(p *an.Prog, r *an.R) {
	r.Rule("C14.R3", "RepoWalker.handleEntry: every write to RepoWalker.Files is reached only on the false edge of <branch's ignore matcher>.Match(path); submodule links (mode Submodule) never reach such a write")
	f := p.Func("gitindex", "(*RepoWalker).handleEntry")
	d := p.Decl(f)
	files := p.Field("gitindex", "RepoWalker", "Files")
	match := p.Func("ignore", "(*Matcher).Match")
	if !r.Anchor(d != nil && files != nil && match != nil, "gitindex.(*RepoWalker).handleEntry / RepoWalker.Files / ignore.(*Matcher).Match") {
		return
	}
	fname := an.FuncName(f)
	r.Fn(fname)
	n := 0
	for _, x := range calleeDecls(p, d) {
		info := x.Pkg.TypesInfo
		g := an.NewG(info, x.Decl.Body)
		for _, l := range g.Locs(func(ast.Node) bool { return true }) {
			as, ok := g.Node(l).(*ast.AssignStmt)
			if !ok {
				continue
			}
			writes := false
			for _, lh := range as.Lhs {
				if ix, ok := ast.Unparen(lh).(*ast.IndexExpr); ok {
					if se, ok := ast.Unparen(ix.X).(*ast.SelectorExpr); ok && info.Selections[se] != nil && info.Selections[se].Obj() == files {
						writes = true
					}
				}
			}
			if !writes {
				continue
			}
			n++
			key := fmt.Sprintf("%s/write-Files#%d/only-when-not-ignored", fname, n)
			guarded := g.GuardedBy(l, func(cond ast.Expr, truth bool) bool {
				c, ok := ast.Unparen(cond).(*ast.CallExpr)
				return ok && !truth && an.Callee(info, c) == match
			}, nil)
			if !guarded && x != d {
				// a helper that records the entry: its call in handleEntry must be guarded
				hobj, _ := info.Defs[x.Decl.Name].(*types.Func)
				dg := an.NewG(d.Pkg.TypesInfo, d.Decl.Body)
				calls := dg.Locs(func(nd ast.Node) bool { return hobj != nil && len(an.CallsTo(d.Pkg.TypesInfo, nd, false, hobj)) > 0 })
				guarded = len(calls) > 0
				for _, cl := range calls {
					if !dg.GuardedBy(cl, func(cond ast.Expr, truth bool) bool {
						c, ok := ast.Unparen(cond).(*ast.CallExpr)
						return ok && !truth && an.Callee(d.Pkg.TypesInfo, c) == match
					}, nil) {
						guarded = false
					}
				}
			}
			r.Check(guarded, "C14.R3", key, as.Pos(), "the (path, blob) is recorded for the branch only after the branch's ignore rules did not match",
				"a (path, blob) can be recorded for a branch without that branch's ignore matcher having been asked (e.g. when the same blob was already collected for an earlier branch): a file excluded by this branch's ignore file gets this branch in its branch list")
		}
	}
	r.Floor("C14.R3.writes-to-Files", 1, n)
}
