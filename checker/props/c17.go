package props

import (
	"go/ast"
	"go/types"

	"zverif/checker/an"
)

func init() { register("C17", c17) }

func c17(p *an.Prog, r *an.R, tier string) {
	r.Explanation = "C17 (structural clauses): (R1) setTombstone and JsonMarshalRepoMetaTemp report every failure of the calls that make the tombstone take effect (marshal, temp file, chmod, write, rename); (R2) in indexData.Search/List every write of repository-derived data into the result is reached only on paths where that repository's Tombstone flag was tested false, and file matches only where the path is not in FileTombstones; (R3) merge and explode skip tombstoned repositories before copying documents. Does NOT decide idempotence, isolation or reload survival of set/unset histories."
	r.Rule("C17.R1", "every error returned by a call in setTombstone / JsonMarshalRepoMetaTemp is tested and, when non-nil, returned (error discipline on the CFG)")
	r.Rule("C17.R2", "every result sink in indexData.Search/List with repository-derived data is guarded on all feasible paths by repo.Tombstone==false for the same repository index; SearchResult.Files additionally by the FileTombstones lookup")
	r.Rule("C17.R3", "in index.merge/explode the call addDocument is reachable only on paths where the source repository's Tombstone flag was tested false")

	for _, fn := range []string{"setTombstone", "JsonMarshalRepoMetaTemp"} {
		f := p.Func("index", fn)
		if !r.Anchor(f != nil, "index."+fn) {
			continue
		}
		errDiscipline(p, r, "C17.R1", f, errOpts{})
	}
	c23Guards(p, r, "C17.R2", []string{"Tombstone", "FileTombstones"})
	c17Merge(p, r)
	c17Sidecar(p, r)
}

// c17Sidecar: a non-empty ".meta" sidecar always takes precedence over the
// metadata embedded in the shard (tombstones live only in the sidecar).
func c17Sidecar(p *an.Prog, r *an.R) {
	r.Rule("C17.R4", "in reader.parseMetadata the bytes read from the .meta sidecar are replaced only when they are empty (len(blob)==0); they then reach json.Unmarshal")
	f := p.Func("index", "(*reader).parseMetadata")
	d := p.Decl(f)
	readFile := p.ExtFunc("os", "ReadFile")
	if !r.Anchor(d != nil && readFile != nil, "index.(*reader).parseMetadata / os.ReadFile") {
		return
	}
	r.Fn(an.FuncName(f))
	info := d.Pkg.TypesInfo
	g := an.NewG(info, d.Decl.Body)
	// the variable assigned from os.ReadFile(<name>+".meta")
	var blob types.Object
	var readLoc an.Loc
	for _, l := range g.Locs(func(ast.Node) bool { return true }) {
		as, ok := g.Node(l).(*ast.AssignStmt)
		if !ok || len(as.Rhs) != 1 {
			continue
		}
		call, ok := ast.Unparen(as.Rhs[0]).(*ast.CallExpr)
		if !ok || an.Callee(info, call) != readFile {
			continue
		}
		meta := false
		ast.Inspect(call, func(n ast.Node) bool {
			if e, ok := n.(ast.Expr); ok {
				if s, ok := an.StringConst(info, e); ok && s == ".meta" {
					meta = true
				}
			}
			return true
		})
		// the path may be built in a variable first
		if id, ok := as.Lhs[0].(*ast.Ident); ok && (meta || true) {
			blob = info.ObjectOf(id)
			readLoc = l
		}
	}
	if !r.Anchor(blob != nil, "index.(*reader).parseMetadata/sidecar read") {
		return
	}
	n := 0
	for _, l := range g.Locs(func(ast.Node) bool { return true }) {
		if l == readLoc {
			continue
		}
		as, ok := g.Node(l).(*ast.AssignStmt)
		if !ok {
			continue
		}
		assignsBlob := false
		for _, lh := range as.Lhs {
			if id, ok := ast.Unparen(lh).(*ast.Ident); ok && info.ObjectOf(id) == blob {
				assignsBlob = true
			}
		}
		if !assignsBlob {
			continue
		}
		n++
		ok = g.GuardedBy(l, func(cond ast.Expr, truth bool) bool {
			// any comparison that implies len(blob) <= 0 on this edge
			f, isCmp := an.IntCompare(info, cond, truth, func(e ast.Expr) bool {
				call, isC := ast.Unparen(e).(*ast.CallExpr)
				return isC && an.IsBuiltin(info, call, "len") && an.UsesObj(info, call.Args[0], blob)
			})
			return isCmp && f.AtMost(0)
		}, func(k an.Loc) bool { return k == readLoc })
		r.Check(ok, "C17.R4", "index.(*reader).parseMetadata/sidecar-bytes-replaced-only-when-empty", g.Node(l).Pos(),
			"the sidecar bytes are replaced by the embedded metadata only when the sidecar is absent or empty",
			"the bytes read from the .meta sidecar can be discarded although they are non-empty: tombstones recorded in the sidecar are lost when the shard is (re)loaded")
	}
	r.Floor("C17.R4.blob-reassignments", 1, n)
}

// c17Merge: addDocument only for repositories whose Tombstone flag was tested false.
func c17Merge(p *an.Prog, r *an.R) {
	addDoc := p.Func("index", "addDocument")
	tomb := p.Field("", "Repository", "Tombstone")
	if !r.Anchor(addDoc != nil && tomb != nil, "index.addDocument / zoekt.Repository.Tombstone") {
		return
	}
	n := 0
	for _, fn := range []string{"merge", "explode"} {
		f := p.Func("index", fn)
		d := p.Decl(f)
		if !r.Anchor(d != nil, "index."+fn) {
			continue
		}
		r.Fn(an.FuncName(f))
		info := d.Pkg.TypesInfo
		g := an.NewG(info, d.Decl.Body)
		for _, l := range g.Locs(func(ast.Node) bool { return true }) {
			if !g.HasCallTo(addDoc)(l) {
				continue
			}
			n++
			ok := g.GuardedBy(l, func(cond ast.Expr, truth bool) bool {
				se, isSel := ast.Unparen(cond).(*ast.SelectorExpr)
				if !isSel || info.Selections[se] == nil || info.Selections[se].Obj() != tomb {
					return false
				}
				return !truth
			}, nil)
			r.Check(ok, "C17.R3", an.FuncName(f)+"/addDocument/guarded-by/!Tombstone", g.Node(l).Pos(),
				"documents are copied only for repositories whose Tombstone flag was tested false",
				"addDocument is reachable without the Tombstone test: a tombstoned repository's documents are copied into the output shard and become visible again")
		}
	}
	r.Floor("C17.R3.addDocument-sites", 2, n)
}
