package props

import (
	"go/ast"
	"go/token"
	"go/types"

	"zverif/checker/an"
)

func init() { register("C17", c17) }

func c17(p *an.Prog, r *an.R, tier string) {
	r.Explanation = "C17 (structural clauses): (R1) setTombstone and JsonMarshalRepoMetaTemp report every failure of the calls that make the tombstone take effect (marshal, temp file, chmod, write, rename); (R2) in indexData.Search/List every write of repository-derived data into the result is reached only on paths where that repository's Tombstone flag was tested false, and file matches only where the path is not in FileTombstones; (R3) merge and explode skip tombstoned repositories before copying documents. (R5) setTombstone stores the requested flag for every record with the requested id and for no other. Does NOT decide idempotence, isolation or reload survival of set/unset histories."
	r.Rule("C17.R1", "every error returned by a call in setTombstone / JsonMarshalRepoMetaTemp is tested and, when non-nil, returned (error discipline on the CFG)")
	r.Rule("C17.R2", "every result sink in indexData.Search/List with repository-derived data is guarded on all feasible paths by repo.Tombstone==false for the same repository index; SearchResult.Files additionally by the FileTombstones lookup")
	r.Rule("C17.R3", "in index.merge/explode the call addDocument is reachable only on paths where the source repository's Tombstone flag was tested false")

	for _, fn := range []string{"setTombstone", "JsonMarshalRepoMetaTemp"} {
		f := p.Func("index", fn)
		if !r.Anchor(f != nil, "index."+fn) {
			continue
		}
		errDiscipline(p, r, "C17.R1", f, errOpts{})
	}
	c23Guards(p, r, "C17.R2", []string{"Tombstone", "FileTombstones"})
	c17Merge(p, r)
	c17Sidecar(p, r)
	c17SetLoop(p, r)
}

// c17SetLoop: setTombstone changes the flag of every record with the given id and of no other record.
func c17SetLoop(p *an.Prog, r *an.R) {
	r.Rule("C17.R5", "setTombstone: the store X.Tombstone = <the bool parameter> is made for the element of a range loop over the shard's repositories, under X.ID == <the id parameter> and nothing else, and the loop runs to the end (no break/return/goto in its body): every record with that id is changed - a compound shard can hold one id twice after a rename - and no other record is")
	f := p.Func("index", "setTombstone")
	d := p.Decl(f)
	tomb := p.Field("", "Repository", "Tombstone")
	idF := p.Field("", "Repository", "ID")
	if !r.Anchor(d != nil && tomb != nil && idF != nil, "index.setTombstone / Repository.Tombstone / Repository.ID") {
		return
	}
	fname := an.FuncName(f)
	n := 0
	analyse := func(d *an.DeclInfo, viaHelper bool) {
		info := d.Pkg.TypesInfo
		var idParam, boolParam types.Object
		for _, fl := range d.Decl.Type.Params.List {
			for _, nm := range fl.Names {
				o := info.ObjectOf(nm)
				switch o.Type().String() {
				case "uint32":
					idParam = o
				case "bool":
					boolParam = o
				}
			}
		}
		if !r.Anchor(idParam != nil && boolParam != nil, fname+"/id and flag parameters") {
			return
		}
		g := an.NewG(info, d.Decl.Body)
		for _, l := range g.Locs(func(ast.Node) bool { return true }) {
			as, ok := g.Node(l).(*ast.AssignStmt)
			if !ok || len(as.Lhs) != 1 || len(as.Rhs) != 1 {
				continue
			}
			se, ok := ast.Unparen(as.Lhs[0]).(*ast.SelectorExpr)
			if !ok || info.Selections[se] == nil || info.Selections[se].Obj() != tomb {
				continue
			}
			n++
			key := fname + "/store-Tombstone"
			// the innermost enclosing loop
			var loopBody *ast.BlockStmt
			var loopPos token.Pos
			ast.Inspect(d.Decl.Body, func(m ast.Node) bool {
				if m == nil || !(m.Pos() <= as.Pos() && as.End() <= m.End()) {
					return m == nil || false
				}
				switch x := m.(type) {
				case *ast.RangeStmt:
					loopBody, loopPos = x.Body, x.Pos()
				case *ast.ForStmt:
					loopBody, loopPos = x.Body, x.Pos()
				}
				return true
			})
			if loopBody == nil {
				r.Und("C17.R5", key, as.Pos(), "the flag is not stored inside a loop over the shard's repositories")
				continue
			}
			r.Check(an.UsesObj(info, as.Rhs[0], boolParam), "C17.R5", key+"/value-is-the-parameter", as.Pos(), "stores the requested flag", "the value stored into Tombstone is not the requested flag: set and unset no longer do what they report")
			guarded := g.GuardedBy(l, func(cond ast.Expr, truth bool) bool {
				be, ok := ast.Unparen(cond).(*ast.BinaryExpr)
				if !ok || !((be.Op == token.EQL && truth) || (be.Op == token.NEQ && !truth)) {
					return false
				}
				isID := func(e ast.Expr) bool {
					s2, ok := ast.Unparen(e).(*ast.SelectorExpr)
					return ok && info.Selections[s2] != nil && info.Selections[s2].Obj() == idF && sameExpr(s2.X, se.X)
				}
				isParam := func(e ast.Expr) bool { return an.UsesObj(info, astStripConv(info, e), idParam) }
				return (isID(be.X) && isParam(be.Y)) || (isID(be.Y) && isParam(be.X))
			}, nil)
			r.Check(guarded, "C17.R5", key+"/only-for-the-requested-id", as.Pos(), "only under <record>.ID == <id parameter>", "the Tombstone flag is stored for a record whose ID was not compared equal to the requested id: setting or clearing a tombstone changes other repositories of the compound shard")
			early := false
			ast.Inspect(loopBody, func(m ast.Node) bool {
				switch x := m.(type) {
				case *ast.FuncLit:
					return false
				case *ast.ReturnStmt:
					early = true
				case *ast.BranchStmt:
					if x.Tok == token.BREAK || x.Tok == token.GOTO {
						early = true
					}
				}
				return true
			})
			r.Check(!early, "C17.R5", key+"/loop-visits-every-record", loopPos, "the loop over the shard's repositories runs to the end", "the loop over the shard's repositories can stop early (break/return): when a compound shard holds the id twice (the repository was renamed and both generations were merged into one shard) only the first record is tombstoned, the other stays searchable although the operation reported success")
		}
	}
	hasStore := func(x *an.DeclInfo) bool {
		hit := false
		ast.Inspect(x.Decl.Body, func(m ast.Node) bool {
			if as, ok := m.(*ast.AssignStmt); ok && len(as.Lhs) == 1 {
				if se, ok := ast.Unparen(as.Lhs[0]).(*ast.SelectorExpr); ok && x.Pkg.TypesInfo.Selections[se] != nil && x.Pkg.TypesInfo.Selections[se].Obj() == tomb {
					hit = true
				}
			}
			return true
		})
		return hit
	}
	for _, x := range calleeDecls(p, d) {
		if !hasStore(x) {
			continue
		}
		if x != d {
			// the loop was moved into a helper: it must receive setTombstone's own id and flag
			hobj, _ := d.Pkg.TypesInfo.Defs[x.Decl.Name].(*types.Func)
			passes := false
			var dID, dFlag types.Object
			for _, fl := range d.Decl.Type.Params.List {
				for _, nm := range fl.Names {
					o := d.Pkg.TypesInfo.ObjectOf(nm)
					switch o.Type().String() {
					case "uint32":
						dID = o
					case "bool":
						dFlag = o
					}
				}
			}
			for _, c := range an.CallsTo(d.Pkg.TypesInfo, d.Decl.Body, false, hobj) {
				gotID, gotFlag := false, false
				for _, a := range c.Args {
					if an.UsesObj(d.Pkg.TypesInfo, a, dID) {
						gotID = true
					}
					if an.UsesObj(d.Pkg.TypesInfo, a, dFlag) {
						gotFlag = true
					}
				}
				passes = gotID && gotFlag
			}
			r.Check(passes, "C17.R5", fname+"/helper-receives-id-and-flag", x.Decl.Pos(), "the helper that flags the records is called with the requested id and flag", "the helper that stores the Tombstone flag is not called with setTombstone's own id and flag")
		}
		analyse(x, x != d)
	}
	r.Floor("C17.R5.tombstone-stores", 1, n)
}

// c17Sidecar: a non-empty ".meta" sidecar always takes precedence over the
// metadata embedded in the shard (tombstones live only in the sidecar).
func c17Sidecar(p *an.Prog, r *an.R) {
	r.Rule("C17.R4", "in reader.parseMetadata the bytes read from the .meta sidecar are replaced only when they are empty (len(blob)==0); they then reach json.Unmarshal")
	f := p.Func("index", "(*reader).parseMetadata")
	d := p.Decl(f)
	readFile := p.ExtFunc("os", "ReadFile")
	if !r.Anchor(d != nil && readFile != nil, "index.(*reader).parseMetadata / os.ReadFile") {
		return
	}
	r.Fn(an.FuncName(f))
	info := d.Pkg.TypesInfo
	g := an.NewG(info, d.Decl.Body)
	// the variable assigned from os.ReadFile(<name>+".meta")
	var blob types.Object
	var readLoc an.Loc
	for _, l := range g.Locs(func(ast.Node) bool { return true }) {
		as, ok := g.Node(l).(*ast.AssignStmt)
		if !ok || len(as.Rhs) != 1 {
			continue
		}
		call, ok := ast.Unparen(as.Rhs[0]).(*ast.CallExpr)
		if !ok || an.Callee(info, call) != readFile {
			continue
		}
		meta := false
		ast.Inspect(call, func(n ast.Node) bool {
			if e, ok := n.(ast.Expr); ok {
				if s, ok := an.StringConst(info, e); ok && s == ".meta" {
					meta = true
				}
			}
			return true
		})
		// the path may be built in a variable first
		if id, ok := as.Lhs[0].(*ast.Ident); ok && (meta || true) {
			blob = info.ObjectOf(id)
			readLoc = l
		}
	}
	if !r.Anchor(blob != nil, "index.(*reader).parseMetadata/sidecar read") {
		return
	}
	n := 0
	for _, l := range g.Locs(func(ast.Node) bool { return true }) {
		if l == readLoc {
			continue
		}
		as, ok := g.Node(l).(*ast.AssignStmt)
		if !ok {
			continue
		}
		assignsBlob := false
		for _, lh := range as.Lhs {
			if id, ok := ast.Unparen(lh).(*ast.Ident); ok && info.ObjectOf(id) == blob {
				assignsBlob = true
			}
		}
		if !assignsBlob {
			continue
		}
		n++
		ok = g.GuardedBy(l, func(cond ast.Expr, truth bool) bool {
			// any comparison that implies len(blob) <= 0 on this edge
			f, isCmp := an.IntCompare(info, cond, truth, func(e ast.Expr) bool {
				call, isC := ast.Unparen(e).(*ast.CallExpr)
				return isC && an.IsBuiltin(info, call, "len") && an.UsesObj(info, call.Args[0], blob)
			})
			return isCmp && f.AtMost(0)
		}, func(k an.Loc) bool { return k == readLoc })
		r.Check(ok, "C17.R4", "index.(*reader).parseMetadata/sidecar-bytes-replaced-only-when-empty", g.Node(l).Pos(),
			"the sidecar bytes are replaced by the embedded metadata only when the sidecar is absent or empty",
			"the bytes read from the .meta sidecar can be discarded although they are non-empty: tombstones recorded in the sidecar are lost when the shard is (re)loaded")
	}
	r.Floor("C17.R4.blob-reassignments", 1, n)
}

// c17Merge: addDocument only for repositories whose Tombstone flag was tested false.
func c17Merge(p *an.Prog, r *an.R) {
	addDoc := p.Func("index", "addDocument")
	tomb := p.Field("", "Repository", "Tombstone")
	if !r.Anchor(addDoc != nil && tomb != nil, "index.addDocument / zoekt.Repository.Tombstone") {
		return
	}
	n := 0
	for _, fn := range []string{"merge", "explode"} {
		f := p.Func("index", fn)
		d := p.Decl(f)
		if !r.Anchor(d != nil, "index."+fn) {
			continue
		}
		r.Fn(an.FuncName(f))
		info := d.Pkg.TypesInfo
		g := an.NewG(info, d.Decl.Body)
		for _, l := range g.Locs(func(ast.Node) bool { return true }) {
			if !g.HasCallTo(addDoc)(l) {
				continue
			}
			n++
			ok := g.GuardedBy(l, func(cond ast.Expr, truth bool) bool {
				se, isSel := ast.Unparen(cond).(*ast.SelectorExpr)
				if !isSel || info.Selections[se] == nil || info.Selections[se].Obj() != tomb {
					return false
				}
				return !truth
			}, nil)
			r.Check(ok, "C17.R3", an.FuncName(f)+"/addDocument/guarded-by/!Tombstone", g.Node(l).Pos(),
				"documents are copied only for repositories whose Tombstone flag was tested false",
				"addDocument is reachable without the Tombstone test: a tombstoned repository's documents are copied into the output shard and become visible again")
		}
	}
	r.Floor("C17.R3.addDocument-sites", 2, n)
}
