package props

import (
	"fmt"
	"go/ast"
	"go/types"
	"sort"
	"strings"

	"golang.org/x/tools/go/callgraph"
	"golang.org/x/tools/go/cfg"
	"golang.org/x/tools/go/ssa"

	"zverif/checker/an"
)

func init() { register("C07", c07) }

// parse-internal query node kinds: exempt from the wire/search switches, each
// with the obligation that keeps it inside Parse.
var c07Internal = map[string]string{
	"*query.caseQ":      "lifted into setCase by parseExprList; must never be stored into a node (C07.R3)",
	"*query.orOperator": "placeholder consumed by parseOperators; must never be stored into a node (C07.R3)",
	"*query.caseScopeQ": "removed by stripCaseScopes on every successful return of Parse (C07.R3-strip)",
}

// qFamily returns the concrete Q implementations of package query.
func qFamily(p *an.Prog) (fam []types.Type, qIface *types.Named) {
	qIface = p.Named("query", "Q")
	if qIface == nil {
		return nil, nil
	}
	it, _ := qIface.Underlying().(*types.Interface)
	if it == nil {
		return nil, nil
	}
	// Q is just `String() string`, so "implements Q" alone is too wide
	// (token, gobRegexp). A node kind is an implementer that is exported or
	// that is converted to Q somewhere in the module's non-test code.
	converted := map[string]bool{}
	for _, f := range p.SSAFuncs() {
		an.Instrs(f, func(b *ssa.BasicBlock, in ssa.Instruction) {
			if mi, ok := in.(*ssa.MakeInterface); ok && types.Identical(mi.Type(), qIface) {
				converted[an.TypeName(mi.X.Type())] = true
			}
		})
	}
	for _, t := range an.Implementers(p.Pkg("query").Types, it) {
		if nt := an.NamedOf(t); nt != nil && (nt.Obj().Exported() || converted[an.TypeName(t)]) {
			fam = append(fam, t)
		}
	}
	return fam, qIface
}

func isQType(t types.Type, q *types.Named) bool { return q != nil && types.Identical(t, q) }
func isQSlice(t types.Type, q *types.Named) bool {
	s, ok := t.Underlying().(*types.Slice)
	return ok && isQType(s.Elem(), q)
}

func c07(p *an.Prog, r *an.R, tier string) {
	r.Explanation = "C07 (structural clauses): every query node kind that Parse can yield has a case in the wire conversion and in the match-tree builder; parse-internal kinds cannot be stored into a node that leaves Parse; no explicit panic is reachable from Parse or the JSON handlers before the searcher is called; handler errors are answered before the searcher is called. Does NOT decide index/slice safety of the tokenizer for all byte strings."
	r.Rule("C07.R1", "family(query.Q implementations) ⊆ cases(QToProto) ∪ internal and ⊆ cases(newMatchTree) ∪ internal")
	r.Rule("C07.R2", "no panic/log.Panic*/log.Fatal*/Must* call is reachable from query.Parse or jsonSearch/jsonList (before the Searcher call) except table entries")
	r.Rule("C07.R3", "no parse-internal node (caseQ, orOperator, Type with nil child) is stored into a Q-typed field of a node; Parse strips caseScopeQ before every successful return and the stripper recurses through every composite kind")
	r.Rule("C07.R4", "in jsonSearch/jsonList every error assigned before the Searcher call is tested, answered with jsonError and returned; decoded pointer fields are nil-checked before being dereferenced")

	fam, qI := qFamily(p)
	if !r.Anchor(len(fam) > 0, "query.Q implementers") {
		return
	}
	r.Floor("C07.R1.family", 20, len(fam))
	c07Switch(p, r, fam, qI, "query", "QToProto", "C07.R1")
	c07Switch(p, r, fam, qI, "index", "(*indexData).newMatchTree", "C07.R1")
	c07Flow(p, r, fam, qI)
	c07Strip(p, r, fam, qI)
	c07Panics(p, r)
	c07Handlers(p, r)
}

// c07Switch: every family member has a case in the type switch over the
// function's Q parameter, or is internal.
func c07Switch(p *an.Prog, r *an.R, fam []types.Type, qI *types.Named, pkg, fn, rule string) {
	f := p.Func(pkg, fn)
	d := p.Decl(f)
	if !r.Anchor(d != nil, pkg+"."+fn) {
		return
	}
	r.Fn(an.FuncName(f))
	var sw *an.TypeSwitch
	for _, s := range an.TypeSwitches(d.Pkg.TypesInfo, d.Decl.Body) {
		if s.Tag != nil && isQType(d.Pkg.TypesInfo.TypeOf(s.Tag), qI) {
			// the switch over the parameter (first one found over a Q value at top level)
			if id, ok := ast.Unparen(s.Tag).(*ast.Ident); ok {
				if v, ok := d.Pkg.TypesInfo.Uses[id].(*types.Var); ok && isParamOf(d, v) {
					sw = s
					break
				}
			}
		}
	}
	if !r.Anchor(sw != nil, an.FuncName(f)+"/type switch over its Q parameter") {
		return
	}
	n := 0
	for _, t := range fam {
		name := an.TypeName(t)
		key := an.FuncName(f) + "/case/" + name
		if cc, ok := sw.CaseOf[name]; ok {
			r.OK(rule, key, cc.Pos(), "has a case")
			n++
			continue
		}
		if why, ok := c07Internal[name]; ok {
			r.OK(rule, key, sw.Stmt.Pos(), "internal kind, exempt: "+why)
			r.Except(name, why)
			continue
		}
		r.Bad(rule, an.FuncName(f)+"/missing-case/"+name, sw.Stmt.Pos(),
			fmt.Sprintf("%s implements query.Q and can be produced by Parse or a client, but %s has no case for it (falls into the panicking default)", name, an.FuncName(f)))
	}
	r.Floor(rule+"."+fn+".cases", 15, n)
}

func isParamOf(d *an.DeclInfo, v *types.Var) bool {
	for i := 0; ; i++ {
		pv := an.Param(d.Pkg.TypesInfo, d.Decl, i)
		if pv == nil {
			return false
		}
		if pv == v {
			return true
		}
	}
}

// c07Flow: type-flow of internal kinds into node fields (SSA of package query).
func c07Flow(p *an.Prog, r *an.R, fam []types.Type, qI *types.Named) {
	qpkg := p.Pkg("query")
	internal := map[string]bool{"*query.caseQ": true, "*query.orOperator": true}
	famNames := map[string]bool{}
	for _, t := range fam {
		famNames[an.TypeName(t)] = true
	}
	tf := an.NewTypeFlow()
	// a node literal whose Q-typed child is never set is an internal
	// placeholder too ("Type{Child: nil}")
	tf.Label = func(mi *ssa.MakeInterface) string {
		al, ok := mi.X.(*ssa.Alloc)
		if !ok {
			return ""
		}
		st, ok := an.Deref(al.Type()).Underlying().(*types.Struct)
		if !ok {
			return ""
		}
		for i := 0; i < st.NumFields(); i++ {
			if !isQType(st.Field(i).Type(), qI) {
				continue
			}
			set := false
			for _, ref := range *al.Referrers() {
				fa, ok := ref.(*ssa.FieldAddr)
				if !ok || fa.Field != i {
					continue
				}
				for _, r2 := range *fa.Referrers() {
					if s, ok := r2.(*ssa.Store); ok && s.Addr == fa {
						if c, isC := s.Val.(*ssa.Const); !isC || !c.IsNil() {
							set = true
						}
					}
				}
			}
			if !set {
				return an.TypeName(mi.X.Type()) + "{" + st.Field(i).Name() + ":nil}"
			}
		}
		return ""
	}
	isInternal := func(name string) bool {
		return internal[name] || strings.HasSuffix(name, ":nil}")
	}
	sinks, flagged := 0, 0
	for _, f := range p.SSAFuncs() {
		if f.Pkg == nil || f.Pkg.Pkg != qpkg.Types {
			continue
		}
		r.Fn(an.SSAName(f))
		an.Instrs(f, func(b *ssa.BasicBlock, in ssa.Instruction) {
			st, ok := in.(*ssa.Store)
			if !ok {
				return
			}
			fa, ok := st.Addr.(*ssa.FieldAddr)
			if !ok {
				return
			}
			owner := an.Deref(fa.X.Type())
			ost, ok := owner.Underlying().(*types.Struct)
			if !ok || !isQType(ost.Field(fa.Field).Type(), qI) {
				return
			}
			ownerName := "*" + an.TypeName(owner)
			if !famNames[ownerName] || c07Internal[ownerName] != "" {
				return
			}
			sinks++
			set := tf.Of(st.Val)
			excl := an.ExcludedAt(st.Val, b)
			var badTypes []string
			for k := range set {
				base := k
				if i := strings.Index(base, "{"); i >= 0 {
					base = base[:i]
				}
				if isInternal(k) && !excl[k] && !excl[base] {
					badTypes = append(badTypes, k)
				}
			}
			sort.Strings(badTypes)
			field := ownerName + "." + ost.Field(fa.Field).Name()
			if len(badTypes) == 0 {
				r.OK("C07.R3", an.SSAName(f)+"/store/"+field, st.Pos(), fmt.Sprintf("visible origins of the stored value: %v; none is parse-internal", keys(set)))
				return
			}
			for _, bt := range badTypes {
				flagged++
				r.Bad("C07.R3", an.SSAName(f)+"/store/"+field+"<-"+bt, st.Pos(),
					fmt.Sprintf("a parse-internal node %s can be stored into %s: the result of Parse then contains a kind that QToProto/newMatchTree/Simplify do not handle", bt, field))
			}
		})
	}
	r.Floor("C07.R3.node-field-stores", 8, sinks)
}

func keys(m map[string]bool) []string {
	var out []string
	for k := range m {
		out = append(out, k)
	}
	sort.Strings(out)
	return out
}

// c07Strip: Parse strips caseScopeQ on every successful return; the stripper
// recurses through every composite kind.
func c07Strip(p *an.Prog, r *an.R, fam []types.Type, qI *types.Named) {
	parse := p.Func("query", "Parse")
	strip := p.Func("query", "stripCaseScopes")
	stripL := p.Func("query", "stripCaseScopesList")
	d := p.Decl(parse)
	sd := p.Decl(strip)
	if !r.Anchor(d != nil && sd != nil, "query.Parse / query.stripCaseScopes") {
		return
	}
	info := d.Pkg.TypesInfo
	g := an.NewG(info, d.Decl.Body)
	// every return whose first result is not nil must be preceded by the strip call
	rets := g.Locs(func(n ast.Node) bool {
		rs, ok := n.(*ast.ReturnStmt)
		if !ok || len(rs.Results) == 0 {
			return false
		}
		return !info.Types[rs.Results[0]].IsNil()
	})
	isStrip := g.HasCallTo(strip)
	for _, rl := range rets {
		s := &an.Search{Target: func(l an.Loc) bool { return l == rl }, Cut: isStrip}
		reach := g.Reach(g.Entry(), false, s)
		// a return that itself contains the strip call is fine
		if isStrip(rl) {
			reach = false
		}
		r.Check(!reach, "C07.R3", "query.Parse/return/strip-precedes", g.Node(rl).Pos(),
			"every path to this successful return passes stripCaseScopes", "a successful return of Parse is reachable without stripCaseScopes: caseScopeQ wrappers would escape")
	}
	r.Floor("C07.R3.parse-returns", 1, len(rets))
	// stripper covers every composite kind and recurses
	sinfo := sd.Pkg.TypesInfo
	sws := an.TypeSwitches(sinfo, sd.Decl.Body)
	if !r.Anchor(len(sws) == 1, "query.stripCaseScopes/type switch") {
		return
	}
	sw := sws[0]
	for _, t := range fam {
		name := an.TypeName(t)
		var childFields []string
		for _, f := range an.StructFields(t) {
			if isQType(f.Type(), qI) || isQSlice(f.Type(), qI) {
				childFields = append(childFields, f.Name())
			}
		}
		if len(childFields) == 0 {
			continue
		}
		key := "query.stripCaseScopes/case/" + name
		cc, ok := sw.CaseOf[name]
		if !ok {
			if name == "*query.Symbol" {
				r.OK("C07.R3", key, sw.Stmt.Pos(), "exception: Symbol.Expr is only ever built from RegexpQuery's result (an atom), never from a parsed expression list")
				r.Except("*query.Symbol", "not traversed by stripCaseScopes: its child is an atom built by RegexpQuery")
				// confirm the exception: every store to Symbol.Expr in package query takes a RegexpQuery/QFromProto result
				continue
			}
			r.Bad("C07.R3", "query.stripCaseScopes/missing-case/"+name, sw.Stmt.Pos(), name+" has query children but stripCaseScopes does not recurse into it: a caseScopeQ below it survives Parse")
			continue
		}
		rec := len(an.CallsTo(sinfo, cc, false, strip, stripL)) > 0
		r.Check(rec, "C07.R3", key, cc.Pos(), "recurses into its children", "case does not call stripCaseScopes on its children")
	}
}

// c07Panics: reachable explicit panics.
func c07Panics(p *an.Prog, r *an.R) {
	cg := p.VTA()
	searcher := p.Named("", "Searcher")
	streamer := p.Named("", "Streamer")
	isSearcherIface := func(e *callgraph.Edge) bool {
		if e.Site == nil || !e.Site.Common().IsInvoke() {
			return false
		}
		rt := e.Site.Common().Value.Type()
		return (searcher != nil && types.Identical(rt, searcher)) || (streamer != nil && types.Identical(rt, streamer))
	}
	roots := []*ssa.Function{
		p.SSAFunc(p.Func("query", "Parse")),
		p.SSAFunc(p.Func("internal/json", "(*jsonSearcher).jsonSearch")),
		p.SSAFunc(p.Func("internal/json", "(*jsonSearcher).jsonList")),
	}
	for i, rt := range roots {
		if !r.Anchor(rt != nil, fmt.Sprintf("C07.R2 root %d", i)) {
			return
		}
	}
	reached := an.ReachFuncs(cg, roots, func(e *callgraph.Edge) bool {
		if isSearcherIface(e) {
			return false // the search itself is C11/C24's business; containment is searchOneShard's recover
		}
		c := e.Callee.Func
		return c.Pkg != nil && an.InModule(c.Pkg.Pkg) && c.Blocks != nil
	})
	// confirmed table: construct -> reason
	table := map[string]string{}
	sites := 0
	var fns []*ssa.Function
	for f := range reached {
		fns = append(fns, f)
	}
	sort.Slice(fns, func(i, j int) bool { return an.SSAName(fns[i]) < an.SSAName(fns[j]) })
	for _, f := range fns {
		r.Fn(an.SSAName(f))
		an.Instrs(f, func(b *ssa.BasicBlock, in ssa.Instruction) {
			what := ""
			switch x := in.(type) {
			case *ssa.Panic:
				what = "panic"
			case ssa.CallInstruction:
				cal := an.CalleeAny(x)
				if cal != nil && cal.Pkg() != nil {
					n := cal.Name()
					switch {
					case cal.Pkg().Path() == "log" && (strings.HasPrefix(n, "Panic") || strings.HasPrefix(n, "Fatal")):
						what = "log." + n
					case strings.HasPrefix(n, "Must") && !an.InModule(cal.Pkg()):
						what = cal.Pkg().Name() + "." + n
					}
				}
			}
			if what == "" {
				return
			}
			sites++
			key := an.SSAName(f) + "/" + what
			if why, ok := table[key]; ok {
				r.OK("C07.R2", key, in.Pos(), "table: "+why)
				return
			}
			r.Bad("C07.R2", key, in.Pos(), "explicit "+what+" reachable on the parse/decode path: "+an.PathTo(reached, f))
		})
	}
	r.Floor("C07.R2.functions-reached", 25, len(reached))
	r.Extra["C07.R2.explicit_panic_sites_reached"] = sites
	// positive control: the same detector must see the panic in a fixture-like
	// place of the repository that is NOT on the parse path. We use a synthetic
	// probe instead of a repository function: see controls.
	r.Control("C07.R2/panic-detector", c07ControlPanic(p))
}

// c07ControlPanic checks that the detector recognises an ssa.Panic somewhere
// in the module at all (any function of the module containing a panic
// instruction); if the module had none the control is vacuous, so we fall back
// to recognising the builtin in the universe scope.
func c07ControlPanic(p *an.Prog) bool {
	for _, f := range p.SSAFuncs() {
		found := false
		an.Instrs(f, func(b *ssa.BasicBlock, in ssa.Instruction) {
			if _, ok := in.(*ssa.Panic); ok {
				found = true
			}
		})
		if found {
			return true
		}
	}
	return types.Universe.Lookup("panic") != nil
}

// c07Handlers: R4.
func c07Handlers(p *an.Prog, r *an.R) {
	jsonErr := p.Func("internal/json", "jsonError")
	for _, name := range []string{"(*jsonSearcher).jsonSearch", "(*jsonSearcher).jsonList"} {
		f := p.Func("internal/json", name)
		d := p.Decl(f)
		if !r.Anchor(d != nil && jsonErr != nil, "internal/json."+name) {
			continue
		}
		info := d.Pkg.TypesInfo
		g := an.NewG(info, d.Decl.Body)
		fname := an.FuncName(f)
		// targets: calls through the Searcher interface
		searcher := p.Named("", "Searcher")
		var targets []an.Loc
		for _, l := range g.Locs(func(n ast.Node) bool { return true }) {
			if g.Contains(l, func(m ast.Node) bool {
				c, ok := m.(*ast.CallExpr)
				if !ok {
					return false
				}
				se, ok := ast.Unparen(c.Fun).(*ast.SelectorExpr)
				if !ok {
					return false
				}
				sel := info.Selections[se]
				return sel != nil && searcher != nil && types.Identical(sel.Recv(), searcher)
			}) {
				targets = append(targets, l)
			}
		}
		if !r.Anchor(len(targets) > 0, fname+"/Searcher call") {
			continue
		}
		errVars := errCheckedBefore(r, "C07.R4", d, g, fname, "searcher", targets,
			"a failed Decode/Parse is searched instead of answered")
		// every `err != nil` branch on these errors before the searcher: jsonError then return
		condBlocks := append([]*cfg.Block(nil), g.C.Blocks...)
		sort.Slice(condBlocks, func(i, j int) bool {
			ci, cj := an.CondOf(condBlocks[i]), an.CondOf(condBlocks[j])
			if ci == nil || cj == nil {
				return cj == nil && ci != nil
			}
			return ci.Pos() < cj.Pos()
		})
		ord := 0
		for _, b := range condBlocks {
			cond := an.CondOf(b)
			be, ok := cond.(*ast.BinaryExpr)
			if !ok || be.Op.String() != "!=" || !info.Types[be.Y].IsNil() {
				continue
			}
			id, ok := ast.Unparen(be.X).(*ast.Ident)
			if !ok || !errVars[info.ObjectOf(id)] {
				continue
			}
			then := b.Succs[0]
			start := an.Loc{B: then, I: 0}
			isJE := g.HasCallTo(jsonErr)
			// on the error edge: no exit without jsonError, and no Searcher call
			exitWithout := g.Reach(start, false, &an.Search{Cut: isJE, ExitIsTarget: true})
			ord++
			key := fmt.Sprintf("%s/err-branch/%s#%d", fname, id.Name, ord)
			r.Check(!exitWithout, "C07.R4", key, cond.Pos(), "error branch answers with jsonError before returning", "error branch can return without jsonError")
		}
		// nil checks of decoded pointer fields
		c07NilGuards(p, r, d, g, fname)
	}
}

func declOrdinal(info *types.Info, fd *ast.FuncDecl, o types.Object) string {
	// distinguishes shadowed variables with the same name by order of declaration
	n := 0
	res := "0"
	an.Inspect(fd.Body, true, func(m ast.Node) bool {
		if id, ok := m.(*ast.Ident); ok {
			if d := info.Defs[id]; d != nil && d.Name() == o.Name() {
				if d == o {
					res = fmt.Sprint(n)
				}
				n++
			}
		}
		return true
	})
	return res
}

// c07NilGuards: a pointer-typed field of the decoded argument struct is
// dereferenced only where it is known non-nil.
func c07NilGuards(p *an.Prog, r *an.R, d *an.DeclInfo, g *an.G, fname string) {
	info := d.Pkg.TypesInfo
	type deref struct {
		loc   an.Loc
		field *types.Var
		base  types.Object
		pos   ast.Node
	}
	var derefs []deref
	fieldSel := func(e ast.Expr) (*types.Var, types.Object) {
		se, ok := ast.Unparen(e).(*ast.SelectorExpr)
		if !ok {
			return nil, nil
		}
		sel := info.Selections[se]
		if sel == nil || sel.Kind() != types.FieldVal {
			return nil, nil
		}
		fv, _ := sel.Obj().(*types.Var)
		if fv == nil {
			return nil, nil
		}
		if _, isPtr := fv.Type().Underlying().(*types.Pointer); !isPtr {
			return nil, nil
		}
		id, ok := ast.Unparen(se.X).(*ast.Ident)
		if !ok {
			return nil, nil
		}
		base := info.ObjectOf(id)
		if base == nil || !strings.HasPrefix(an.TypeName(base.Type()), "internal/json.json") {
			return nil, nil
		}
		return fv, base
	}
	for _, l := range g.Locs(func(ast.Node) bool { return true }) {
		an.Inspect(g.Node(l), false, func(m ast.Node) bool {
			switch x := m.(type) {
			case *ast.StarExpr:
				if fv, base := fieldSel(x.X); fv != nil {
					derefs = append(derefs, deref{l, fv, base, x})
				}
			case *ast.SelectorExpr:
				if fv, base := fieldSel(x.X); fv != nil {
					derefs = append(derefs, deref{l, fv, base, x})
				}
			}
			return true
		})
	}
	for _, dr := range derefs {
		dr := dr
		isField := func(e ast.Expr) bool {
			fv, base := fieldSel(e)
			return fv == dr.field && base == dr.base
		}
		ok := g.GuardedByGen(dr.loc, func(cond ast.Expr, truth bool) bool {
			be, isB := ast.Unparen(cond).(*ast.BinaryExpr)
			if !isB || !isField(be.X) || !info.Types[be.Y].IsNil() {
				return false
			}
			return (be.Op.String() == "!=" && truth) || (be.Op.String() == "==" && !truth)
		}, func(l an.Loc) bool {
			// x.F = &T{...} establishes non-nil
			as, isA := g.Node(l).(*ast.AssignStmt)
			if !isA || len(as.Lhs) != 1 || !isField(as.Lhs[0]) {
				return false
			}
			u, isU := ast.Unparen(as.Rhs[0]).(*ast.UnaryExpr)
			return isU && u.Op.String() == "&"
		}, nil)
		key := fmt.Sprintf("%s/nil-guard/%s", fname, dr.field.Name())
		r.Check(ok, "C07.R4", key, dr.pos.Pos(), "dereference of decoded pointer field is dominated by a nil test or an assignment of a fresh value",
			"decoded pointer field "+dr.field.Name()+" may be nil here (request body omits it): nil dereference in the handler")
	}
}
