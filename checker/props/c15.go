package props

import (
	"fmt"
	"go/ast"
	"go/token"
	"go/types"
	"strings"

	"golang.org/x/tools/go/cfg"

	"zverif/checker/an"
)

func init() { register("C15", c15) }

const (
	arch   = "internal/archive"
	zindex = "cmd/zoekt-index"
)

func c15(p *an.Prog, r *an.R, tier string) {
	r.Explanation = "C15 (structural clauses): (R1) in the directory and archive indexers a pointer that is only created lazily inside a closure is never dereferenced on a path that may not have run the closure (an archive or directory without files must not crash the indexer); (R2) the directory indexer walks without following links, marks symbolic links from the walk's own mode bits, reads link targets with os.Readlink and file contents with os.ReadFile only for non-links; (R3) the bytes read are passed unmodified as the document content, for every member returned by the archive iterator; (R4) the tar iterator returns only regular members and the zip iterator keeps only regular members. Does NOT decide which paths are ignored, prefix stripping, or the equality of the indexed content with the files for given trees (values)."
	c15Lazy(p, r)
	c15Symlink(p, r)
	c15Content(p, r)
	c15Members(p, r)
}

// c15Lazy: for every function of the two indexer packages, a local pointer
// variable declared without a value and assigned only inside function
// literals must not be dereferenced in the function's own body unless a
// non-nil test guards the use.
func c15Lazy(p *an.Prog, r *an.R) {
	r.Rule("C15.R1", "a zero-declared local pointer whose only assignments are inside closures is dereferenced in the enclosing body only under a non-nil test (or after an assignment in the body itself)")
	nVars := 0
	p.AllDecls(func(fn *types.Func, d *an.DeclInfo) {
		if (d.Pkg != p.Pkg(arch) && d.Pkg != p.Pkg(zindex)) || d.Decl.Body == nil || strings.HasSuffix(p.Fset.Position(d.Decl.Pos()).Filename, "_test.go") {
			return
		}
		info := d.Pkg.TypesInfo
		// candidates: var x *T (no value)
		var cands []types.Object
		ast.Inspect(d.Decl.Body, func(n ast.Node) bool {
			if _, ok := n.(*ast.FuncLit); ok {
				return false
			}
			ds, ok := n.(*ast.DeclStmt)
			if !ok {
				return true
			}
			gd, ok := ds.Decl.(*ast.GenDecl)
			if !ok || gd.Tok != token.VAR {
				return true
			}
			for _, sp := range gd.Specs {
				vs := sp.(*ast.ValueSpec)
				if len(vs.Values) != 0 {
					continue
				}
				for _, nm := range vs.Names {
					o := info.Defs[nm]
					if o == nil {
						continue
					}
					if _, isPtr := o.Type().Underlying().(*types.Pointer); isPtr {
						cands = append(cands, o)
					}
				}
			}
			return true
		})
		for _, v := range cands {
			// where is it assigned
			inLit, inBody := 0, 0
			var walk func(n ast.Node, depth int)
			walk = func(n ast.Node, depth int) {
				ast.Inspect(n, func(m ast.Node) bool {
					if fl, ok := m.(*ast.FuncLit); ok && m != n {
						walk(fl.Body, depth+1)
						return false
					}
					if as, ok := m.(*ast.AssignStmt); ok {
						for _, l := range as.Lhs {
							if isIdentOf(info, l, v) {
								if depth > 0 {
									inLit++
								} else {
									inBody++
								}
							}
						}
					}
					return true
				})
			}
			walk(d.Decl.Body, 0)
			if inLit == 0 {
				continue // ordinary variable: assigned in the body (or never): not this rule
			}
			nVars++
			r.Fn(an.FuncName(fn))
			g := an.NewG(info, d.Decl.Body)
			isAssign := func(l an.Loc) bool {
				as, ok := g.Node(l).(*ast.AssignStmt)
				if !ok {
					return false
				}
				for _, lh := range as.Lhs {
					if isIdentOf(info, lh, v) {
						return true
					}
				}
				return false
			}
			nUse := 0
			for _, l := range g.Locs(func(ast.Node) bool { return true }) {
				// dereferencing uses in the body itself (not inside literals): x.f, x.m(), *x
				var uses []ast.Node
				an.Inspect(g.Node(l), false, func(m ast.Node) bool {
					switch x := m.(type) {
					case *ast.SelectorExpr:
						if isIdentOf(info, x.X, v) {
							uses = append(uses, x)
						}
					case *ast.StarExpr:
						if isIdentOf(info, x.X, v) {
							uses = append(uses, x)
						}
					}
					return true
				})
				if _, isDefer := g.Node(l).(*ast.DeferStmt); isDefer {
					continue
				}
				for _, u := range uses {
					nUse++
					guarded := g.GuardedByGen(l, func(cond ast.Expr, truth bool) bool {
						be, ok := ast.Unparen(cond).(*ast.BinaryExpr)
						if !ok {
							return false
						}
						if (isIdentOf(info, be.X, v) && info.Types[be.Y].IsNil()) || (isIdentOf(info, be.Y, v) && info.Types[be.X].IsNil()) {
							return (be.Op == token.NEQ && truth) || (be.Op == token.EQL && !truth)
						}
						return false
					}, isAssign, nil)
					r.Check(guarded, "C15.R1", fmt.Sprintf("%s/%s/use#%d/created-before-use", an.FuncName(fn), v.Name(), nUse), u.Pos(), v.Name()+" is known non-nil here", "`"+v.Name()+"` is created only inside a closure that runs once per file; here it is dereferenced on a path where no file may have been seen (empty archive / only directories): nil pointer dereference, the indexer crashes")
				}
			}
		}
	})
	r.Floor("C15.R1.lazy-pointers", 1, nVars)
}

func c15Symlink(p *an.Prog, r *an.R) {
	r.Rule("C15.R2", "zoekt-index: the walk does not follow links (filepath.Walk/WalkDir); isSymlink is written only from the walk's mode&os.ModeSymlink != 0; os.ReadFile is reached only where isSymlink is false and os.Readlink only where it is true; no other file-reading call takes the walked name")
	f := p.Func(zindex, "indexArg")
	d := p.Decl(f)
	readFile, readlink := p.ExtFunc("os", "ReadFile"), p.ExtFunc("os", "Readlink")
	isSym := p.Field(zindex, "fileInfo", "isSymlink")
	if !r.Anchor(d != nil && readFile != nil && readlink != nil && isSym != nil, zindex+".indexArg / fileInfo.isSymlink / os.ReadFile / os.Readlink") {
		return
	}
	r.Fn(an.FuncName(f))
	info := d.Pkg.TypesInfo
	symFact := func(want bool) func(cond ast.Expr, truth bool) bool {
		return func(cond ast.Expr, truth bool) bool {
			se, ok := ast.Unparen(cond).(*ast.SelectorExpr)
			if ok && info.Selections[se] != nil && info.Selections[se].Obj() == isSym {
				return truth == want
			}
			if u, ok := ast.Unparen(cond).(*ast.UnaryExpr); ok && u.Op == token.NOT {
				if se, ok := ast.Unparen(u.X).(*ast.SelectorExpr); ok && info.Selections[se] != nil && info.Selections[se].Obj() == isSym {
					return truth != want
				}
			}
			return false
		}
	}
	nRead := 0
	// wherever in the package the reads are made (indexArg itself or a helper split off it)
	p.AllDecls(func(rf *types.Func, rd *an.DeclInfo) {
		if rd.Pkg != d.Pkg || rd.Decl.Body == nil || rf.Name() == "newIgnoreMatcher" || rf.Name() == "main" || strings.HasSuffix(p.Fset.Position(rd.Decl.Pos()).Filename, "_test.go") {
			return
		}
		if len(an.CallsTo(info, rd.Decl.Body, true, readFile, readlink)) == 0 {
			return
		}
		rg := an.NewG(info, rd.Decl.Body)
		rname := an.FuncName(rf)
		r.Fn(rname)
		for _, l := range rg.Locs(func(ast.Node) bool { return true }) {
			if len(an.CallsTo(info, rg.Node(l), false, readFile)) > 0 {
				nRead++
				r.Check(rg.GuardedBy(l, symFact(false), nil), "C15.R2", rname+"/os.ReadFile/only-for-non-links", rg.Node(l).Pos(), "file contents are read only for non-links", "os.ReadFile (which follows links) can be reached for a symbolic link: the document holds the content of the file the link points to, possibly outside the indexed tree")
			}
			if len(an.CallsTo(info, rg.Node(l), false, readlink)) > 0 {
				nRead++
				r.Check(rg.GuardedBy(l, symFact(true), nil), "C15.R2", rname+"/os.Readlink/only-for-links", rg.Node(l).Pos(), "link targets are read only for links", "os.Readlink can be reached for a regular file")
			}
		}
	})
	r.Floor("C15.R2.reads", 2, nRead)
	// other readers in the package
	pkg := p.Pkg(zindex)
	followers := map[string]bool{"os.Open": true, "os.OpenFile": true, "os.Stat": true, "io/ioutil.ReadFile": true, "path/filepath.EvalSymlinks": true}
	p.AllDecls(func(fn *types.Func, dd *an.DeclInfo) {
		if dd.Pkg != pkg || dd.Decl.Body == nil || fn.Name() == "newIgnoreMatcher" || fn.Name() == "main" {
			return
		}
		ast.Inspect(dd.Decl.Body, func(n ast.Node) bool {
			c, ok := n.(*ast.CallExpr)
			if !ok {
				return true
			}
			if cal := an.Callee(dd.Pkg.TypesInfo, c); cal != nil && cal.Pkg() != nil && followers[cal.Pkg().Path()+"."+cal.Name()] {
				r.Bad("C15.R2", an.FuncName(fn)+"/"+cal.Pkg().Name()+"."+cal.Name()+"/link-following-call", c.Pos(), "the directory indexer calls "+cal.Pkg().Name()+"."+cal.Name()+", which follows symbolic links")
			}
			return true
		})
	})
	// the walker
	walk, walkDir := p.ExtFunc("path/filepath", "Walk"), p.ExtFunc("path/filepath", "WalkDir")
	nWalk := len(an.CallsTo(info, d.Decl.Body, true, walk, walkDir))
	r.Check(nWalk >= 1, "C15.R2", zindex+".indexArg/walk-does-not-follow-links", d.Decl.Pos(), "the tree is walked with filepath.Walk/WalkDir (lstat based)", "indexArg no longer walks with filepath.Walk/WalkDir")
	// writers of isSymlink
	nW := 0
	p.AllDecls(func(fn *types.Func, dd *an.DeclInfo) {
		if dd.Pkg != pkg || dd.Decl.Body == nil {
			return
		}
		di := dd.Pkg.TypesInfo
		check := func(val ast.Expr, pos token.Pos) {
			nW++
			if dd := defOf(di, dd.Decl.Body, val); dd != nil {
				val = dd // routed through a single-definition local
			}
			// mode&os.ModeSymlink != 0  (mode from info.Mode())
			ok := false
			if be, isB := ast.Unparen(val).(*ast.BinaryExpr); isB && be.Op == token.NEQ {
				if and, isA := ast.Unparen(be.X).(*ast.BinaryExpr); isA && and.Op == token.AND {
					for _, side := range []ast.Expr{and.X, and.Y} {
						if tv := di.Types[side]; tv.Value != nil && tv.Value.ExactString() == fmt.Sprint(uint32(1<<27)) {
							ok = true
						}
					}
				}
			}
			r.Check(ok, "C15.R2", an.FuncName(fn)+"/isSymlink-from-mode-bits", pos, "isSymlink = mode&os.ModeSymlink != 0", "isSymlink is set from `"+types.ExprString(val)+"`, not from the walk's ModeSymlink bit")
		}
		ast.Inspect(dd.Decl.Body, func(n ast.Node) bool {
			switch x := n.(type) {
			case *ast.CompositeLit:
				if nm := an.NamedOf(di.TypeOf(x)); nm != nil && nm.Obj().Name() == "fileInfo" {
					for _, e := range x.Elts {
						if kv, ok := e.(*ast.KeyValueExpr); ok {
							if id, ok := kv.Key.(*ast.Ident); ok && id.Name == "isSymlink" {
								check(kv.Value, kv.Pos())
							}
						}
					}
				}
			case *ast.AssignStmt:
				for k, l := range x.Lhs {
					if se, ok := ast.Unparen(l).(*ast.SelectorExpr); ok && di.Selections[se] != nil && di.Selections[se].Obj() == isSym && len(x.Rhs) == len(x.Lhs) {
						check(x.Rhs[k], x.Pos())
					}
				}
			}
			return true
		})
	})
	r.Floor("C15.R2.isSymlink-writers", 1, nW)
}

// c15Content: the Content of every Document handed to Builder.Add in the two
// indexers is the unmodified result of the read.
func c15Content(p *an.Prog, r *an.R) {
	r.Rule("C15.R3", "in indexArg and archive.Index the Content field of the Document given to Builder.Add is a variable whose only definitions are os.ReadFile / []byte(os.Readlink target) / io.ReadAll results; every archive member returned by Next reaches add")
	add := p.Func("index", "(*Builder).Add")
	if !r.Anchor(add != nil, "index.(*Builder).Add") {
		return
	}
	nDocs := 0
	for _, where := range []struct{ rel, fn string }{{zindex, "indexArg"}, {arch, "Index"}} {
		d := p.Decl(p.Func(where.rel, where.fn))
		if !r.Anchor(d != nil, where.rel+"."+where.fn) {
			continue
		}
		r.Fn(where.rel + "." + where.fn)
		info := d.Pkg.TypesInfo
		for _, c := range an.CallsTo(info, d.Decl.Body, true, add) {
			var lits []*ast.CompositeLit
			if cl, ok := ast.Unparen(c.Args[0]).(*ast.CompositeLit); ok {
				lits = append(lits, cl)
			} else if id, ok := ast.Unparen(c.Args[0]).(*ast.Ident); ok {
				// the document is built in a local first: every literal assigned to it
				obj := info.ObjectOf(id)
				other := false
				ast.Inspect(d.Decl.Body, func(n ast.Node) bool {
					as, ok := n.(*ast.AssignStmt)
					if !ok || len(as.Lhs) != len(as.Rhs) {
						return true
					}
					for i, l := range as.Lhs {
						if !isIdentOf(info, l, obj) {
							continue
						}
						if cl, ok := ast.Unparen(as.Rhs[i]).(*ast.CompositeLit); ok {
							lits = append(lits, cl)
						} else {
							other = true
						}
					}
					return true
				})
				if other {
					lits = nil
				}
			}
			if len(lits) == 0 {
				r.Und("C15.R3", where.rel+"."+where.fn+"/Builder.Add/document-literal", c.Pos(), "the document is not a composite literal (or a local assigned only composite literals)")
				continue
			}
			for _, cl := range lits {
				for _, e := range cl.Elts {
					kv, ok := e.(*ast.KeyValueExpr)
					if !ok || kv.Key.(*ast.Ident).Name != "Content" {
						continue
					}
					nDocs++
					id, isID := ast.Unparen(kv.Value).(*ast.Ident)
					good := isID
					var defs []string
					if isID {
						obj := info.ObjectOf(id)
						ast.Inspect(d.Decl.Body, func(n ast.Node) bool {
							as, ok := n.(*ast.AssignStmt)
							if !ok {
								return true
							}
							for k, l := range as.Lhs {
								if !isIdentOf(info, l, obj) {
									continue
								}
								var rhs ast.Expr
								if len(as.Rhs) == len(as.Lhs) {
									rhs = as.Rhs[k]
								} else {
									rhs = as.Rhs[0]
								}
								src := c15ReadSource(info, d.Decl.Body, rhs)
								defs = append(defs, src)
								if src == "" {
									good = false
								}
							}
							return true
						})
						if len(defs) == 0 {
							good = false
						}
					}
					r.Check(good, "C15.R3", fmt.Sprintf("%s.%s/document#%d/content-is-what-was-read", where.rel, where.fn, nDocs), kv.Pos(), "Content comes unmodified from "+strings.Join(defs, " / "), "the document content is `"+types.ExprString(kv.Value)+"`, which is not (only) the unmodified result of reading the file, link or archive member")
				}
			}
		}
	}
	r.Floor("C15.R3.documents", 2, nDocs)
	// every member returned by Next reaches add: in archive.Index's loop, between the Next call and the add call only error tests
	d := p.Decl(p.Func(arch, "Index"))
	if d == nil {
		return
	}
	info := d.Pkg.TypesInfo
	g := an.NewG(info, d.Decl.Body)
	var nextLoc *an.Loc
	var fileVar, errVar types.Object
	for _, l := range g.Locs(func(ast.Node) bool { return true }) {
		as, ok := g.Node(l).(*ast.AssignStmt)
		if !ok || len(as.Lhs) != 2 || len(as.Rhs) != 1 {
			continue
		}
		if c, ok := ast.Unparen(as.Rhs[0]).(*ast.CallExpr); ok {
			if se, ok := ast.Unparen(c.Fun).(*ast.SelectorExpr); ok && se.Sel.Name == "Next" && strings.HasSuffix(an.TypeName(info.TypeOf(se.X)), "Archive") {
				ll := l
				nextLoc = &ll
				fileVar = info.ObjectOf(as.Lhs[0].(*ast.Ident))
				errVar = info.ObjectOf(as.Lhs[1].(*ast.Ident))
			}
		}
	}
	if !r.Anchor(nextLoc != nil, arch+".Index/a.Next()") {
		return
	}
	isAddCall := func(l an.Loc) bool {
		hit := false
		an.Inspect(g.Node(l), false, func(m ast.Node) bool {
			if c, ok := m.(*ast.CallExpr); ok && len(c.Args) == 1 && isIdentOf(info, c.Args[0], fileVar) {
				hit = true
			}
			return true
		})
		return hit
	}
	// from Next, on the edges where err is nil, the next iteration / exit is not reachable without add(f)
	skip := g.Reach(*nextLoc, true, &an.Search{
		Target:       func(l an.Loc) bool { return l == *nextLoc },
		Cut:          isAddCall,
		ExitIsTarget: false,
		CutEdge: func(b *cfg.Block, k int) bool {
			cond := an.CondOf(b)
			if cond == nil {
				return false
			}
			// error edges: err == io.EOF true, err != nil true
			be, ok := ast.Unparen(cond).(*ast.BinaryExpr)
			if !ok || !(isIdentOf(info, be.X, errVar) || isIdentOf(info, be.Y, errVar)) {
				return false
			}
			return (k == 0 && (be.Op == token.EQL || be.Op == token.NEQ) && !(be.Op == token.EQL && (info.Types[be.Y].IsNil() || info.Types[be.X].IsNil()))) || (k == 1 && be.Op == token.EQL && (info.Types[be.Y].IsNil() || info.Types[be.X].IsNil()))
		},
	})
	r.Check(!skip, "C15.R3", arch+".Index/every-member-is-added", g.Node(*nextLoc).Pos(), "every member returned by Next is handed to add", "a member returned by the archive iterator can be skipped without being added")
}

// c15ReadSource names the read a definition comes from ("" if none).
func c15ReadSource(info *types.Info, body *ast.BlockStmt, rhs ast.Expr) string {
	e := ast.Unparen(rhs)
	// a single-definition local holding the result of the read (`data, err := os.ReadFile(..); content = data`)
	if id, ok := e.(*ast.Ident); ok {
		obj := info.ObjectOf(id)
		var call ast.Expr
		n := 0
		ast.Inspect(body, func(m ast.Node) bool {
			as, ok := m.(*ast.AssignStmt)
			if !ok {
				return true
			}
			for k, l := range as.Lhs {
				if isIdentOf(info, l, obj) {
					n++
					if len(as.Rhs) == 1 && k == 0 {
						call = as.Rhs[0]
					} else if len(as.Rhs) == len(as.Lhs) {
						call = as.Rhs[k]
					}
				}
			}
			return true
		})
		if n == 1 && call != nil && ast.Unparen(call) != e {
			return c15ReadSource(info, body, call)
		}
		return ""
	}
	// []byte(target) with target from os.Readlink
	if c, ok := e.(*ast.CallExpr); ok && len(c.Args) == 1 {
		if tv, ok := info.Types[c.Fun]; ok && tv.IsType() {
			inner := aliasRootMulti(info, body, c.Args[0])
			if inner != "" {
				return inner
			}
			return ""
		}
	}
	if c, ok := e.(*ast.CallExpr); ok {
		if f := an.Callee(info, c); f != nil && f.Pkg() != nil {
			switch f.Pkg().Path() + "." + f.Name() {
			case "os.ReadFile", "io.ReadAll", "os.Readlink":
				return f.Pkg().Name() + "." + f.Name()
			}
			// a helper of the module whose every return hands back what it read
			if an.InModule(f.Pkg()) && an.Current != nil {
				if hd := an.Current.Decl(f); hd != nil && hd.Decl.Body != nil && hd.Pkg.TypesInfo == info {
					var srcs []string
					all := true
					ast.Inspect(hd.Decl.Body, func(m ast.Node) bool {
						if _, isLit := m.(*ast.FuncLit); isLit {
							return false
						}
						rs, ok := m.(*ast.ReturnStmt)
						if !ok || len(rs.Results) == 0 {
							return true
						}
						first := rs.Results[0]
						if info.Types[first].IsNil() {
							return true // error path
						}
						src := c15ReadSource(info, hd.Decl.Body, first)
						if src == "" {
							all = false
						} else {
							srcs = append(srcs, src)
						}
						return true
					})
					if all && len(srcs) > 0 {
						return f.Name() + "(" + strings.Join(srcs, "/") + ")"
					}
				}
			}
		}
	}
	return ""
}

// aliasRootMulti: the identifier is defined exactly once, from a (possibly
// multi-valued) read call.
func aliasRootMulti(info *types.Info, body *ast.BlockStmt, e ast.Expr) string {
	id, ok := ast.Unparen(e).(*ast.Ident)
	if !ok {
		return ""
	}
	obj := info.ObjectOf(id)
	src, n := "", 0
	ast.Inspect(body, func(m ast.Node) bool {
		as, ok := m.(*ast.AssignStmt)
		if !ok {
			return true
		}
		for _, l := range as.Lhs {
			if isIdentOf(info, l, obj) {
				n++
				if len(as.Rhs) == 1 {
					if c, ok := ast.Unparen(as.Rhs[0]).(*ast.CallExpr); ok {
						if f := an.Callee(info, c); f != nil && f.Pkg() != nil && f.Pkg().Path() == "os" && f.Name() == "Readlink" {
							src = "os.Readlink"
						}
					}
				}
			}
		}
		return true
	})
	if n == 1 {
		return src
	}
	return ""
}

func c15Members(p *an.Prog, r *an.R) {
	r.Rule("C15.R4", "tarArchive.Next returns a File only where the header's Typeflag was tested to be a regular-file flag; newZipArchive keeps a member only under Mode().IsRegular()")
	tn := p.Func(arch, "(*tarArchive).Next")
	d := p.Decl(tn)
	if r.Anchor(d != nil, arch+".(*tarArchive).Next") {
		r.Fn(an.FuncName(tn))
		info := d.Pkg.TypesInfo
		g := an.NewG(info, d.Decl.Body)
		n := 0
		for _, l := range g.Locs(func(nd ast.Node) bool { _, ok := nd.(*ast.ReturnStmt); return ok }) {
			rs := g.Node(l).(*ast.ReturnStmt)
			if len(rs.Results) != 2 || info.Types[rs.Results[0]].IsNil() {
				continue
			}
			n++
			isReg := func(e ast.Expr) bool {
				tv := info.Types[e]
				return tv.Value != nil && (tv.Value.ExactString() == "48" || tv.Value.ExactString() == "0")
			}
			guarded := g.GuardedBy(l, func(cond ast.Expr, truth bool) bool {
				// an atom that pins the type flag to a regular-file flag: `tf == Reg` taken true, `tf != Reg` taken false
				// (compound conditions are decomposed by the engine: a disjunction of such atoms taken true, or a
				// conjunction of their negations taken false, establishes the fact)
				be, ok := ast.Unparen(cond).(*ast.BinaryExpr)
				if !ok || !((be.Op == token.EQL && truth) || (be.Op == token.NEQ && !truth)) {
					return false
				}
				return (isReg(be.Y) && strings.HasSuffix(types.ExprString(be.X), "Typeflag")) || (isReg(be.X) && strings.HasSuffix(types.ExprString(be.Y), "Typeflag"))
			}, nil)
			r.Check(guarded, "C15.R4", arch+".(*tarArchive).Next/returns-only-regular-members", rs.Pos(), "a File is returned only for TypeReg/TypeRegA headers", "tarArchive.Next can return a member that is not a regular file (directory, link, device): it becomes a document")
		}
		r.Floor("C15.R4.tar-returns", 1, n)
	}
	zn := p.Func(arch, "newZipArchive")
	zd := p.Decl(zn)
	if r.Anchor(zd != nil, arch+".newZipArchive") {
		r.Fn(an.FuncName(zn))
		info := zd.Pkg.TypesInfo
		g := an.NewG(info, zd.Decl.Body)
		n := 0
		for _, l := range g.Locs(func(ast.Node) bool { return true }) {
			as, ok := g.Node(l).(*ast.AssignStmt)
			if !ok || len(as.Rhs) != 1 {
				continue
			}
			c, ok := ast.Unparen(as.Rhs[0]).(*ast.CallExpr)
			if !ok || !an.IsBuiltin(info, c, "append") || !strings.HasSuffix(an.TypeName(info.TypeOf(c)), "zip.File") && !strings.Contains(info.TypeOf(c).String(), "zip.File") {
				continue
			}
			n++
			guarded := g.GuardedBy(l, func(cond ast.Expr, truth bool) bool {
				cc, ok := ast.Unparen(cond).(*ast.CallExpr)
				if !ok || !truth {
					return false
				}
				se, ok := ast.Unparen(cc.Fun).(*ast.SelectorExpr)
				return ok && se.Sel.Name == "IsRegular"
			}, nil)
			r.Check(guarded, "C15.R4", arch+".newZipArchive/keeps-only-regular-members", as.Pos(), "a zip member is kept only when Mode().IsRegular()", "a zip member that is not a regular file is kept: it becomes a document")
		}
		r.Floor("C15.R4.zip-appends", 1, n)
		// the archive's file list is that filtered list
	}
}
