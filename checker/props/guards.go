package props

import (
	"fmt"
	"go/ast"
	"go/token"
	"go/types"
	"sort"

	"golang.org/x/tools/go/ssa"

	"zverif/checker/an"
)

// Shared machinery of C23 and C17: in indexData.Search/List every sink that
// puts repository-derived data into the result must be reached only on paths
// on which the per-repository guards (tenant access, not tombstoned) hold for
// the same repository.

type repoIdx struct {
	viaRepos bool      // index is d.repos[V]
	v        ssa.Value // V, or the index value itself
}

type guardCtx struct {
	p      *an.Prog
	fn     *ssa.Function
	idata  *types.Named
	stores map[*ssa.Alloc][]pathStore // values stored into (a part of) a local allocation
	result *types.Named               // the function's result type: loads from it are already-checked data
	arrays map[string]bool            // indexData fields holding per-repository records
}

func newGuardCtx(p *an.Prog, fn *ssa.Function) *guardCtx {
	g := &guardCtx{p: p, fn: fn, idata: p.Named("index", "indexData"), stores: map[*ssa.Alloc][]pathStore{},
		arrays: map[string]bool{"repoMetaData": true, "repoListEntry": true}}
	an.Instrs(fn, func(b *ssa.BasicBlock, in ssa.Instruction) {
		if st, ok := in.(*ssa.Store); ok {
			root, path := storeRootPath(st.Addr)
			if al, ok := root.(*ssa.Alloc); ok {
				g.stores[al] = append(g.stores[al], pathStore{path, st.Val})
			}
		}
	})
	return g
}

type pathStore struct {
	path string
	val  ssa.Value
}

func related(p, q string) bool {
	return len(p) <= len(q) && q[:len(p)] == p || len(q) <= len(p) && p[:len(q)] == q
}

func (g *guardCtx) isResultAlloc(v ssa.Value) bool {
	al, ok := v.(*ssa.Alloc)
	return ok && g.result != nil && an.NamedOf(al.Type()) == g.result
}

func stripConv(v ssa.Value) ssa.Value {
	for {
		switch x := v.(type) {
		case *ssa.Convert:
			v = x.X
		case *ssa.ChangeType:
			v = x.X
		default:
			return v
		}
	}
}

// isIndexDataField reports whether v is a load of field name of *indexData.
func (g *guardCtx) isIndexDataField(v ssa.Value, names map[string]bool) (string, bool) {
	u, ok := v.(*ssa.UnOp)
	if !ok || u.Op != token.MUL {
		return "", false
	}
	fa, ok := u.X.(*ssa.FieldAddr)
	if !ok || an.NamedOf(fa.X.Type()) != g.idata {
		return "", false
	}
	n := an.StructFields(g.idata)[fa.Field].Name()
	return n, names[n]
}

func (g *guardCtx) normIdx(v ssa.Value) repoIdx {
	v = stripConv(v)
	if u, ok := v.(*ssa.UnOp); ok && u.Op == token.MUL {
		if ia, ok := u.X.(*ssa.IndexAddr); ok {
			if _, ok := g.isIndexDataField(ia.X, map[string]bool{"repos": true}); ok {
				return repoIdx{true, stripConv(ia.Index)}
			}
		}
	}
	return repoIdx{false, v}
}

// repoIndexes returns the normalised indexes of all accesses to the
// per-repository arrays of indexData that v depends on (through operands and
// through local memory).
func (g *guardCtx) repoIndexes(vs ...ssa.Value) map[repoIdx]string {
	out := map[repoIdx]string{}
	seen := map[ssa.Value]bool{}
	work := append([]ssa.Value(nil), vs...)
	for len(work) > 0 && len(seen) < 20000 {
		v := work[len(work)-1]
		work = work[:len(work)-1]
		if v == nil || seen[v] {
			continue
		}
		seen[v] = true
		switch x := v.(type) {
		case *ssa.IndexAddr:
			if n, ok := g.isIndexDataField(x.X, g.arrays); ok {
				out[g.normIdx(x.Index)] = n
			}
		case *ssa.Index:
			if n, ok := g.isIndexDataField(x.X, g.arrays); ok {
				out[g.normIdx(x.Index)] = n
			}
		case *ssa.UnOp:
			if x.Op == token.MUL {
				root, path := storeRootPath(x.X)
				if g.isResultAlloc(root) {
					continue // data already written to the result was checked when it was written
				}
				if al, ok := root.(*ssa.Alloc); ok {
					for _, ps := range g.stores[al] {
						if related(path, ps.path) {
							work = append(work, ps.val)
						}
					}
				}
			}
		case *ssa.Alloc:
			if g.isResultAlloc(x) {
				continue
			}
			for _, ps := range g.stores[x] {
				work = append(work, ps.val)
			}
		}
		if in, ok := v.(ssa.Instruction); ok {
			for _, op := range in.Operands(nil) {
				if *op != nil {
					work = append(work, *op)
				}
			}
		}
	}
	return out
}

// sink describes an instruction that writes repository-derived data into the
// function's result value.
type guardSink struct {
	in   ssa.Instruction
	what string // "SearchResult.Files", "call index.addRepo", ...
	idx  map[repoIdx]string
}

// resultSinks finds stores/map updates/calls that write into the result
// allocation (a local of the given named type whose address is returned) with
// data derived from the per-repository arrays.
func (g *guardCtx) resultSinks(resultType *types.Named) []guardSink {
	var out []guardSink
	g.result = resultType
	isResult := func(v ssa.Value) bool {
		root := storeRoot(v)
		al, ok := root.(*ssa.Alloc)
		return ok && an.NamedOf(al.Type()) == resultType
	}
	an.Instrs(g.fn, func(b *ssa.BasicBlock, in ssa.Instruction) {
		switch x := in.(type) {
		case *ssa.Store:
			if isResult(x.Addr) {
				_, path := storeRootPath(x.Addr)
				if idx := g.repoIndexes(x.Val); len(idx) > 0 {
					out = append(out, guardSink{in, "store " + resultType.Obj().Name() + path, idx})
				}
			}
		case *ssa.MapUpdate:
			if isResult(x.Map) {
				_, path := storeRootPath(x.Map)
				if idx := g.repoIndexes(x.Key, x.Value); len(idx) > 0 {
					out = append(out, guardSink{in, "map update " + resultType.Obj().Name() + path, idx})
				}
			}
		case *ssa.Call:
			hasRes := false
			for _, a := range x.Common().Args {
				if _, isPtr := a.Type().Underlying().(*types.Pointer); isPtr && isResult(a) {
					hasRes = true
				}
			}
			if hasRes {
				var others []ssa.Value
				for _, a := range x.Common().Args {
					if !isResult(a) {
						others = append(others, a)
					}
				}
				if idx := g.repoIndexes(others...); len(idx) > 0 {
					out = append(out, guardSink{in, "call " + calleeName(x), idx})
				}
			}
		}
	})
	sort.Slice(out, func(i, j int) bool { return out[i].in.Pos() < out[j].in.Pos() })
	return out
}

// guardFact describes a required branch fact.
type guardFact struct {
	name string
	want bool
	// match reports whether key k is an instance of this fact and, if so,
	// which repository indexes it speaks about.
	match func(g *guardCtx, k an.FKey) (map[repoIdx]string, bool)
	// alt, if non-nil, is an alternative fact that is accepted instead.
	alt *guardFact
	// only, if non-nil, restricts the sinks the fact is required for.
	only func(s guardSink) bool
	// ctxParam: for tenant.HasAccess, the request context the check must be made with
	ctxParam ssa.Value
}

// wrapperMatch: key is a call to a small predicate helper whose result `val`
// establishes fact `kind` for the repository record passed to it.
func wrapperMatch(g *guardCtx, f *guardFact, k an.FKey, val bool) (map[repoIdx]string, bool) {
	if k.Op != token.ILLEGAL {
		return nil, false
	}
	c, ok := k.X.(*ssa.Call)
	if !ok {
		return nil, false
	}
	callee := c.Call.StaticCallee()
	if callee == nil {
		return nil, false
	}
	var sum []wrapperFact
	if callee.Object() != nil {
		fobj, _ := callee.Object().(*types.Func)
		sum = wrapperSummary(g.p, fobj)
	} else if lit, ok := callee.Syntax().(*ast.FuncLit); ok && callee.Parent() == g.fn {
		// a predicate closure of this very function: `listable := func(i int) bool {..}`
		if pkg := g.p.PkgOfSSA(callee); pkg != nil {
			sum = wrapperSummaryLit(pkg.TypesInfo, lit)
		}
	}
	for _, wf := range sum {
		if wf.kind != f.name || wf.result != val || wf.repoArg >= len(c.Call.Args) {
			continue
		}
		if wf.kind == "tenant.HasAccess" {
			var ctxv ssa.Value
			switch {
			case wf.ctxArg >= 0 && wf.ctxArg < len(c.Call.Args):
				ctxv = c.Call.Args[wf.ctxArg]
			case wf.ctxArg == -2:
				// the context captured by the closure: its binding at the closure's creation
				if mc, ok := c.Call.Value.(*ssa.MakeClosure); ok {
					for i, fv := range callee.FreeVars {
						if wf.capturedCtx != nil && fv.Name() == wf.capturedCtx.Name() && i < len(mc.Bindings) {
							ctxv = mc.Bindings[i]
						}
					}
				}
			}
			if ctxv == nil {
				continue
			}
			if f.ctxParam != nil && !derivesFromRequestCtx(ctxv, f.ctxParam) {
				continue
			}
		}
		if wf.byIndex {
			return map[repoIdx]string{g.normIdx(c.Call.Args[wf.repoArg]): "repoMetaData"}, true
		}
		return g.repoIndexes(c.Call.Args[wf.repoArg]), true
	}
	return nil, false
}

// factFileTombstones: the comma-ok lookup in Repository.FileTombstones missed
// (ok == false), or the map was tested empty (len(m) > 0 is false).
func factFileTombstones() guardFact {
	isFT := func(v ssa.Value) (ssa.Value, bool) {
		switch x := v.(type) {
		case *ssa.UnOp:
			if fa, ok := x.X.(*ssa.FieldAddr); ok && x.Op == token.MUL {
				st := an.Deref(fa.X.Type()).Underlying().(*types.Struct)
				if st.Field(fa.Field).Name() == "FileTombstones" {
					return fa.X, true
				}
			}
		case *ssa.Field:
			st := x.X.Type().Underlying().(*types.Struct)
			if st.Field(x.Field).Name() == "FileTombstones" {
				return x.X, true
			}
		}
		return nil, false
	}
	lenGuard := &guardFact{name: "len(FileTombstones)>0", want: false, match: func(g *guardCtx, k an.FKey) (map[repoIdx]string, bool) {
		if k.Op != token.LSS {
			return nil, false
		}
		c, ok := k.X.(*ssa.Const)
		if !ok || c.Value == nil || c.Value.String() != "0" {
			return nil, false
		}
		call, ok := k.Y.(*ssa.Call)
		if !ok {
			return nil, false
		}
		if b, ok := call.Call.Value.(*ssa.Builtin); !ok || b.Name() != "len" {
			return nil, false
		}
		base, ok := isFT(call.Call.Args[0])
		if !ok {
			return nil, false
		}
		return g.repoIndexes(base), true
	}}
	return guardFact{name: "FileTombstones", want: false, alt: lenGuard, match: func(g *guardCtx, k an.FKey) (map[repoIdx]string, bool) {
		if k.Op != token.ILLEGAL {
			return nil, false
		}
		ex, ok := k.X.(*ssa.Extract)
		if !ok || ex.Index != 1 {
			return nil, false
		}
		lk, ok := ex.Tuple.(*ssa.Lookup)
		if !ok {
			return nil, false
		}
		base, ok := isFT(lk.X)
		if !ok {
			return nil, false
		}
		return g.repoIndexes(base), true
	}}
}

// factHasAccess: key is a call to tenant.HasAccess whose id argument is read
// from a per-repository record.
func factHasAccess(hasAccess *types.Func, ctxParam ssa.Value) guardFact {
	return guardFact{name: "tenant.HasAccess", want: true, ctxParam: ctxParam, match: func(g *guardCtx, k an.FKey) (map[repoIdx]string, bool) {
		if k.Op != token.ILLEGAL {
			return nil, false
		}
		c, ok := k.X.(*ssa.Call)
		if !ok {
			return nil, false
		}
		ctxArg, repoArg := ssa.Value(nil), ssa.Value(nil)
		if an.StaticCallee(c) == hasAccess && len(c.Call.Args) == 2 {
			ctxArg, repoArg = c.Call.Args[0], c.Call.Args[1]
		} else if w := c.Call.StaticCallee(); w != nil {
			// a thin wrapper: every return of w is HasAccess(<ctx parameter>, <repository parameter>.TenantID)
			ci, ri, isW := hasAccessWrapper(w, hasAccess)
			if !isW {
				return nil, false
			}
			args := c.Call.Args
			if ci >= len(args) || ri >= len(args) {
				return nil, false
			}
			ctxArg, repoArg = args[ci], args[ri]
		} else {
			return nil, false
		}
		if ctxParam != nil && !derivesFromRequestCtx(ctxArg, ctxParam) {
			return nil, false // a context that is not the request's proves nothing
		}
		return g.repoIndexes(repoArg), true
	}}
}

// factField: key is a read of the named boolean field of a per-repository record.
func factField(field string, want bool) guardFact {
	return guardFact{name: field, want: want, match: func(g *guardCtx, k an.FKey) (map[repoIdx]string, bool) {
		if k.Op != token.ILLEGAL {
			return nil, false
		}
		switch x := k.X.(type) {
		case *ssa.UnOp:
			if fa, ok := x.X.(*ssa.FieldAddr); ok && x.Op == token.MUL {
				st := an.Deref(fa.X.Type()).Underlying().(*types.Struct)
				if st.Field(fa.Field).Name() == field {
					return g.repoIndexes(fa.X), true
				}
			}
		case *ssa.Field:
			st := x.X.Type().Underlying().(*types.Struct)
			if st.Field(x.Field).Name() == field {
				return g.repoIndexes(x.X), true
			}
		}
		return nil, false
	}}
}

// checkGuards verifies for every sink that on all feasible paths each
// required fact holds for one of the repository indexes the sink depends on.
func (g *guardCtx) checkGuards(r *an.R, rule string, sinks []guardSink, facts []guardFact, consequence map[string]string) {
	eng := &an.FactEngine{Fn: g.fn, Track: func(k an.FKey) bool {
		for i := range facts {
			for ff := &facts[i]; ff != nil; ff = ff.alt {
				if _, ok := ff.match(g, k); ok {
					return true
				}
			}
			for _, v := range []bool{true, false} {
				if _, ok := wrapperMatch(g, &facts[i], k, v); ok {
					return true
				}
			}
		}
		return false
	}}
	fname := an.SSAName(g.fn)
	count := map[string]int{}
	for _, s := range sinks {
		count[s.what]++
		ord := ""
		if count[s.what] > 1 {
			ord = fmt.Sprintf("#%d", count[s.what])
		}
		for _, f := range facts {
			f := f
			if f.only != nil && !f.only(s) {
				continue
			}
			key := fmt.Sprintf("%s/%s%s/guarded-by/%s", fname, s.what, ord, f.name)
			paths, unguarded := 0, 0
			decided := eng.AtBlock(s.in.Block(), func(fs an.Facts) {
				paths++
				ok := false
				for ff := &f; ff != nil && !ok; ff = ff.alt {
					for k, v := range fs {
						// the fact hidden in a predicate helper (any result value that establishes it)
						if idx, isW := wrapperMatch(g, &f, k, v); isW {
							for i := range idx {
								if _, same := s.idx[i]; same {
									ok = true
								}
							}
						}
						if v != ff.want {
							continue
						}
						idx, isF := ff.match(g, k)
						if !isF {
							continue
						}
						for i := range idx {
							if _, same := s.idx[i]; same {
								ok = true
							}
						}
					}
				}
				if !ok {
					unguarded++
				}
			})
			switch {
			case !decided:
				r.Und(rule, key, s.in.Pos(), "path exploration exceeded its bound")
			case paths == 0:
				r.OK(rule, key, s.in.Pos(), "sink is unreachable")
			case unguarded == 0:
				r.OK(rule, key, s.in.Pos(), fmt.Sprintf("holds on all %d distinct path fact-sets reaching the sink, for the same repository index", paths))
			default:
				r.Bad(rule, key, s.in.Pos(), fmt.Sprintf("%s is reachable on %d of %d path fact-sets without %s==%v established for the repository whose data it writes: %s", s.what, unguarded, paths, f.name, f.want, consequence[f.name]))
			}
		}
	}
}

// derivesFromRequestCtx: v is the request context parameter or is computed
// from it (context.WithValue, tracing wrappers, ...) and no call to
// systemtenant.WithUnsafeContext is involved.
func derivesFromRequestCtx(v ssa.Value, ctxParam ssa.Value) bool {
	seen := map[ssa.Value]bool{}
	fromParam, unsafe := false, false
	var walk func(x ssa.Value, depth int)
	walk = func(x ssa.Value, depth int) {
		if x == nil || seen[x] || depth > 10 {
			return
		}
		seen[x] = true
		if x == ctxParam {
			fromParam = true
			return
		}
		if c, ok := x.(*ssa.Call); ok {
			if cal := an.StaticCallee(c); cal != nil && cal.Name() == "WithUnsafeContext" {
				unsafe = true
			}
		}
		if al, ok := x.(*ssa.Alloc); ok && al.Referrers() != nil {
			// a context captured by a closure lives in a cell: whatever is stored there
			for _, ref := range *al.Referrers() {
				if st, ok := ref.(*ssa.Store); ok && st.Addr == al {
					walk(st.Val, depth+1)
				}
			}
		}
		if in, ok := x.(ssa.Instruction); ok {
			for _, op := range in.Operands(nil) {
				if *op != nil {
					walk(*op, depth+1)
				}
			}
		}
	}
	walk(v, 0)
	return fromParam && !unsafe
}

// hasAccessWrapper: w's every return is tenant.HasAccess(p_i, p_j.TenantID)
// for parameters p_i (a context) and p_j (a repository record). It returns
// the argument positions (receiver included, as in ssa call arguments).
func hasAccessWrapper(w *ssa.Function, hasAccess *types.Func) (ctxIdx, repoIdx int, ok bool) {
	if w == nil || len(w.Blocks) == 0 {
		return 0, 0, false
	}
	paramIdx := func(v ssa.Value) int {
		for i, p := range w.Params {
			if ssa.Value(p) == v {
				return i
			}
		}
		return -1
	}
	ctxIdx, repoIdx = -1, -1
	rets := 0
	good := true
	an.Instrs(w, func(b *ssa.BasicBlock, in ssa.Instruction) {
		rt, isR := in.(*ssa.Return)
		if !isR {
			return
		}
		rets++
		if len(rt.Results) != 1 {
			good = false
			return
		}
		c, isC := rt.Results[0].(*ssa.Call)
		if !isC || an.StaticCallee(c) != hasAccess || len(c.Call.Args) != 2 {
			good = false
			return
		}
		ci := paramIdx(c.Call.Args[0])
		ri := -1
		switch x := c.Call.Args[1].(type) {
		case *ssa.UnOp:
			if fa, isFA := x.X.(*ssa.FieldAddr); isFA && x.Op == token.MUL {
				if st, isS := an.Deref(fa.X.Type()).Underlying().(*types.Struct); isS && st.Field(fa.Field).Name() == "TenantID" {
					ri = paramIdx(fa.X)
				}
			}
		case *ssa.Field:
			if st, isS := x.X.Type().Underlying().(*types.Struct); isS && st.Field(x.Field).Name() == "TenantID" {
				ri = paramIdx(x.X)
			}
		}
		if ci < 0 || ri < 0 || (ctxIdx >= 0 && (ci != ctxIdx || ri != repoIdx)) {
			good = false
			return
		}
		ctxIdx, repoIdx = ci, ri
	})
	return ctxIdx, repoIdx, good && rets > 0 && ctxIdx >= 0
}
