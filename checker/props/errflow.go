package props

import (
	"fmt"
	"go/ast"
	"go/token"
	"go/types"

	"golang.org/x/tools/go/cfg"

	"zverif/checker/an"
)

// Error discipline (engine E3) for a designated function: every error
// returned by a call made in the function body must be examined, and on the
// branch where it is non-nil it must be propagated: returned (possibly
// wrapped), stored into a sticky error destination, or end in a no-return
// call. Accepted idioms are enumerated in errOpts.

type errOpts struct {
	// only restricts the fallible callees considered (nil: every call whose
	// last result is error).
	only func(callee *types.Func) bool
	// exempt names discarded/swallowed sites that are accepted, by construct key.
	exempt map[string]string
	// swallowOK accepts leaving the error branch without propagating when the
	// branch contains a call satisfying it (e.g. a documented fallback).
	swallowOK func(info *types.Info, n ast.Node) bool
}

var errorType = types.Universe.Lookup("error").Type()

func returnsError(f *types.Func) bool {
	if f == nil {
		return false
	}
	sig := f.Type().(*types.Signature)
	n := sig.Results().Len()
	return n > 0 && types.Identical(sig.Results().At(n-1).Type(), errorType)
}

func mentions(info *types.Info, n ast.Node, obj types.Object) bool {
	found := false
	an.Inspect(n, true, func(m ast.Node) bool {
		if id, ok := m.(*ast.Ident); ok && info.Uses[id] == obj {
			found = true
		}
		return !found
	})
	return found
}

// errDiscipline analyses one function declaration.
func errDiscipline(p *an.Prog, r *an.R, rule string, fn *types.Func, o errOpts) {
	d := p.Decl(fn)
	if !r.Anchor(d != nil && d.Decl.Body != nil, an.FuncName(fn)) {
		return
	}
	fname := an.FuncName(fn)
	r.Fn(fname)
	info := d.Pkg.TypesInfo
	g := an.NewG(info, d.Decl.Body)
	// named error results: leaving the function returns them
	namedErr := map[types.Object]bool{}
	if d.Decl.Type.Results != nil {
		for _, f := range d.Decl.Type.Results.List {
			for _, n := range f.Names {
				if o := info.Defs[n]; o != nil && types.Identical(o.Type(), errorType) {
					namedErr[o] = true
				}
			}
		}
	}
	sites := 0
	counts := map[string]int{}
	keyFor := func(kind string, callee *types.Func) string {
		base := fmt.Sprintf("%s/%s/%s", fname, calleeShort(callee), kind)
		counts[base]++
		if counts[base] > 1 {
			return fmt.Sprintf("%s#%d", base, counts[base])
		}
		return base
	}
	// dominated region helper: blocks reachable from b without passing through join
	for _, l := range g.Locs(func(ast.Node) bool { return true }) {
		node := g.Node(l)
		// calls directly in this node (not nested in function literals)
		var calls []*ast.CallExpr
		an.Inspect(node, false, func(m ast.Node) bool {
			if c, ok := m.(*ast.CallExpr); ok {
				if cal := an.Callee(info, c); cal != nil && returnsError(cal) && (o.only == nil || o.only(cal)) {
					calls = append(calls, c)
				}
			}
			return true
		})
		for _, call := range calls {
			cal := an.Callee(info, call)
			sites++
			switch st := node.(type) {
			case *ast.ExprStmt:
				if ast.Unparen(st.X) == call {
					key := keyFor("error-discarded", cal)
					if why, ok := o.exempt[key]; ok {
						r.OK(rule, key, call.Pos(), "accepted idiom: "+why)
						r.Except(key, why)
					} else if inErrorCleanup(g, info, l) && isCleanupCallee(cal) {
						r.OK(rule, key, call.Pos(), "best-effort cleanup on an error path that itself propagates")
					} else {
						r.Bad(rule, key, call.Pos(), fmt.Sprintf("the error returned by %s is discarded: %s cannot report this failure", calleeShort(cal), fname))
					}
					continue
				}
			case *ast.DeferStmt, *ast.GoStmt:
				key := keyFor("error-discarded-in-defer", cal)
				if why, ok := o.exempt[key]; ok {
					r.OK(rule, key, call.Pos(), "accepted idiom: "+why)
					r.Except(key, why)
				} else {
					r.Bad(rule, key, call.Pos(), fmt.Sprintf("the error returned by the deferred %s is discarded: a failure of the last write/flush is reported as success", calleeShort(cal)))
				}
				continue
			case *ast.ReturnStmt:
				r.OK(rule, keyFor("returned-directly", cal), call.Pos(), "error result is returned directly")
				continue
			case *ast.AssignStmt:
				// find the error position
				var errLHS ast.Expr
				if len(st.Rhs) == 1 && ast.Unparen(st.Rhs[0]) == call {
					errLHS = st.Lhs[len(st.Lhs)-1]
				} else {
					for i, rh := range st.Rhs {
						if ast.Unparen(rh) == call && i < len(st.Lhs) {
							errLHS = st.Lhs[i]
						}
					}
				}
				if errLHS == nil {
					continue // nested in a larger expression
				}
				id, isIdent := ast.Unparen(errLHS).(*ast.Ident)
				if isIdent && id.Name == "_" {
					key := keyFor("error-discarded", cal)
					if why, ok := o.exempt[key]; ok {
						r.OK(rule, key, call.Pos(), "accepted idiom: "+why)
						r.Except(key, why)
					} else if inErrorCleanup(g, info, l) && isCleanupCallee(cal) {
						r.OK(rule, key, call.Pos(), "best-effort cleanup on an error path that itself propagates")
					} else {
						r.Bad(rule, key, call.Pos(), fmt.Sprintf("the error returned by %s is assigned to _", calleeShort(cal)))
					}
					continue
				}
				if !isIdent {
					// stored straight into a field (sticky destination): propagated
					r.OK(rule, keyFor("stored", cal), call.Pos(), "error stored into "+types.ExprString(errLHS))
					continue
				}
				obj := info.ObjectOf(id)
				if obj == nil {
					continue
				}
				key := keyFor("error-propagated", cal)
				if why, ok := o.exempt[key]; ok {
					r.OK(rule, key, call.Pos(), "accepted idiom: "+why)
					r.Except(key, why)
					continue
				}
				verdict, pos := errVarFate(g, info, l, obj, namedErr[obj], o)
				if verdict == "" {
					r.OK(rule, key, call.Pos(), "error is tested and, when non-nil, returned/stored on every path")
				} else {
					r.Bad(rule, key, pos, fmt.Sprintf("error of %s in %s: %s", calleeShort(cal), fname, verdict))
				}
			}
		}
	}
	r.Extra[rule+"."+fname+".fallible_call_sites"] = sites
}

func calleeShort(f *types.Func) string {
	if f == nil {
		return "?"
	}
	if an.InModule(f.Pkg()) {
		return an.FuncName(f)
	}
	sig := f.Type().(*types.Signature)
	if sig.Recv() != nil {
		if nt := an.NamedOf(sig.Recv().Type()); nt != nil {
			return f.Pkg().Name() + "." + nt.Obj().Name() + "." + f.Name()
		}
	}
	return f.Pkg().Name() + "." + f.Name()
}

func isCleanupCallee(f *types.Func) bool {
	return an.IsPkgFunc(f, "os", "Remove", "RemoveAll", "File.Close")
}

// isErrNilTest recognises `obj != nil` / `obj == nil`; returns (isTest, nonNilOnTrue).
func isErrNilTest(info *types.Info, cond ast.Expr, obj types.Object) (bool, bool) {
	be, ok := ast.Unparen(cond).(*ast.BinaryExpr)
	if !ok || (be.Op != token.NEQ && be.Op != token.EQL) {
		return false, false
	}
	if an.UsesObj(info, be.X, obj) && info.Types[be.Y].IsNil() {
		return true, be.Op == token.NEQ
	}
	if an.UsesObj(info, be.Y, obj) && info.Types[be.X].IsNil() {
		return true, be.Op == token.NEQ
	}
	return false, false
}

// inErrorCleanup: the location is only reachable through the non-nil edge of
// some error test (it sits on an error path).
func inErrorCleanup(g *an.G, info *types.Info, l an.Loc) bool {
	return g.GuardedBy(l, func(cond ast.Expr, truth bool) bool {
		be, ok := ast.Unparen(cond).(*ast.BinaryExpr)
		if !ok {
			return false
		}
		isErr := func(e ast.Expr) bool {
			t := info.TypeOf(e)
			return t != nil && types.Identical(t, errorType)
		}
		if (isErr(be.X) && info.Types[be.Y].IsNil()) || (isErr(be.Y) && info.Types[be.X].IsNil()) {
			return (be.Op == token.NEQ) == truth
		}
		return false
	}, nil)
}

// errVarFate follows the error variable assigned at `from`. It returns ""
// when the discipline holds, else a description and a position.
func errVarFate(g *an.G, info *types.Info, from an.Loc, obj types.Object, named bool, o errOpts) (string, token.Pos) {
	assigns := func(n ast.Node) bool {
		as, ok := n.(*ast.AssignStmt)
		if !ok {
			return false
		}
		for _, lh := range as.Lhs {
			if id, ok := ast.Unparen(lh).(*ast.Ident); ok && info.ObjectOf(id) == obj {
				return true
			}
		}
		return false
	}
	reads := func(n ast.Node) bool {
		if as, ok := n.(*ast.AssignStmt); ok {
			for _, rh := range as.Rhs {
				if mentions(info, rh, obj) {
					return true
				}
			}
			return false
		}
		return mentions(info, n, obj)
	}
	// (i) never examined: reach a reassignment or the exit without any read
	s := &an.Search{
		Target: func(l an.Loc) bool { return l != from && assigns(g.Node(l)) && !reads(g.Node(l)) },
		Cut:    func(l an.Loc) bool { return l != from && reads(g.Node(l)) },
	}
	s.ExitIsTarget = !named
	if g.Reach(from, true, s) {
		pos := g.Node(from).Pos()
		return "the value is never examined on some path (overwritten or the function returns without looking at it)", pos
	}
	// (ii) every non-nil branch of a test reachable from here propagates
	for _, b := range g.C.Blocks {
		if !b.Live {
			continue
		}
		cond := an.CondOf(b)
		if cond == nil {
			continue
		}
		isTest, nonNilOnTrue := isErrNilTest(info, cond, obj)
		if !isTest {
			continue
		}
		condLoc := an.Loc{B: b, I: len(b.Nodes) - 1}
		// is this test reachable from `from` without reassignment?
		if !(condLoc == from) && !g.Reach(from, true, &an.Search{Target: func(l an.Loc) bool { return l == condLoc }, Cut: func(l an.Loc) bool { return l != condLoc && assigns(g.Node(l)) }}) {
			continue
		}
		errSucc := 1
		if nonNilOnTrue {
			errSucc = 0
		}
		start := an.Loc{B: b.Succs[errSucc], I: 0}
		// region: blocks reachable from the error successor without passing the other successor's entry...
		region := regionOf(b, errSucc)
		propagates := func(l an.Loc) bool {
			n := g.Node(l)
			switch x := n.(type) {
			case *ast.ReturnStmt:
				if named && len(x.Results) == 0 {
					return true
				}
				for _, res := range x.Results {
					if mentions(info, res, obj) {
						return true
					}
				}
				return false
			case *ast.AssignStmt:
				for i, rh := range x.Rhs {
					if mentions(info, rh, obj) {
						// assigned to something that is not blank
						lh := x.Lhs[0]
						if i < len(x.Lhs) {
							lh = x.Lhs[i]
						}
						if id, ok := ast.Unparen(lh).(*ast.Ident); ok && id.Name == "_" {
							continue
						}
						return true
					}
				}
			case *ast.ExprStmt:
				if c, ok := x.X.(*ast.CallExpr); ok && an.NoReturn(info, c) {
					return true
				}
			}
			if o.swallowOK != nil && o.swallowOK(info, n) {
				return true
			}
			return false
		}
		leaves := &an.Search{
			Cut: propagates,
			Target: func(l an.Loc) bool {
				if !region[l.B] {
					return true // fell out of the error branch
				}
				if rs, ok := g.Node(l).(*ast.ReturnStmt); ok && !propagates(l) {
					_ = rs
					return true
				}
				return false
			},
			ExitIsTarget: !named,
		}
		if len(start.B.Nodes) == 0 && !region[start.B] {
			continue
		}
		if g.Reach(start, false, leaves) {
			w := leaves.Witness
			pos := cond.Pos()
			what := "the non-nil branch is left without returning or storing the error (execution continues as if the call had succeeded)"
			if w.B != nil && w.I < len(w.B.Nodes) {
				pos = w.B.Nodes[w.I].Pos()
				if rs, ok := w.B.Nodes[w.I].(*ast.ReturnStmt); ok && region[w.B] {
					what = "the non-nil branch returns without the error: `" + shortStmt(info, rs) + "` reports success"
				}
			}
			return what, pos
		}
	}
	return "", token.NoPos
}

func shortStmt(info *types.Info, rs *ast.ReturnStmt) string {
	s := "return"
	for i, e := range rs.Results {
		if i > 0 {
			s += ","
		}
		s += " " + types.ExprString(e)
	}
	return s
}

// regionOf returns the blocks that are reachable from b.Succs[k] and not
// reachable from the entry without passing the edge b->Succs[k] — approximated
// by: reachable from Succs[k] without entering a block that has a predecessor
// outside the region (a join with the non-error flow).
func regionOf(b *cfg.Block, k int) map[*cfg.Block]bool {
	start := b.Succs[k]
	preds := map[*cfg.Block][]*cfg.Block{}
	var all []*cfg.Block
	seen := map[*cfg.Block]bool{}
	var walk func(x *cfg.Block)
	walk = func(x *cfg.Block) {
		if seen[x] {
			return
		}
		seen[x] = true
		all = append(all, x)
		for _, s := range x.Succs {
			preds[s] = append(preds[s], x)
			walk(s)
		}
	}
	// preds over the whole graph: walk from b's function entry is not available
	// here; walking from b covers everything reachable from the test, which is
	// what matters for joins with the non-error successor.
	walk(b)
	// dominators over the sub-graph reachable from b (root b)
	idx := map[*cfg.Block]int{}
	for i, x := range all {
		idx[x] = i
	}
	n := len(all)
	dom := make([][]bool, n)
	for i := range dom {
		dom[i] = make([]bool, n)
		for j := range dom[i] {
			dom[i][j] = i != 0 // root is dominated only by itself
		}
		dom[i][i] = true
	}
	changed := true
	for changed {
		changed = false
		for i := 1; i < n; i++ {
			x := all[i]
			nd := make([]bool, n)
			first := true
			for _, pp := range preds[x] {
				pi := idx[pp]
				if first {
					copy(nd, dom[pi])
					first = false
				} else {
					for k := range nd {
						nd[k] = nd[k] && dom[pi][k]
					}
				}
			}
			nd[i] = true
			for k := range nd {
				if nd[k] != dom[i][k] {
					dom[i] = nd
					changed = true
					break
				}
			}
		}
	}
	region := map[*cfg.Block]bool{}
	if len(preds[start]) > 1 {
		return region
	}
	si := idx[start]
	for i, x := range all {
		if dom[i][si] {
			region[x] = true
		}
	}
	return region
}
