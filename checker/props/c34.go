package props

import (
	"go/ast"
	"go/parser"
	"go/token"
	"go/types"
	"strconv"

	"golang.org/x/tools/go/ssa"
	"golang.org/x/tools/go/ssa/ssautil"

	"zverif/checker/an"
)

func init() { register("C34", c34) }

func c34(p *an.Prog, r *an.R, tier string) {
	r.Explanation = "C34 (structural clause): validation precedes mutation. In runSync the discovery of repositories (which reports duplicate names and duplicate sources as an error) and the reading of the inventory run, and their errors are tested, on every path before the calls that can remove or write shards (applyRemovals, indexRepositories); in removeRepositories the selection of records (ambiguous / not found errors) precedes applyRemovals the same way. (R2) in runSync the prune plan is applied before indexing rewrites shard files (also when deferred). Does NOT decide convergence (exactly one up-to-date repository per discovered repository and nothing else)."
	r.Rule("C34.R1", "every path to applyRemovals/indexRepositories passes the validation call, and the validation's error is tested (== nil edge) before them")
	r.Rule("C34.R3", "no update of the in-memory inventory is lost: in the functions of cmd/zoekt-local-sync a store to a field of a struct-typed local whose address never leaves the function (in particular a copy of a map element obtained by lookup) is followed on some path by a read of that field or of the whole variable (e.g. the write-back into the map) before it is overwritten; a store that no read can follow updated a copy only")
	r.Rule("C34.R2", "runSync: applyRemovals is not reachable from indexRepositories without the inventory being read and the prune plan being computed again (the plan identifies shards by file path; indexing writes files of the same names)")
	c34LostUpdates(p, r)
	for _, spec := range []struct {
		fn       string
		validate []string
		mutate   []string
	}{
		{"runSync", []string{"discoverRepositories", "readInventory"}, []string{"applyRemovals", "indexRepositories"}},
		{"removeRepositories", []string{"readInventory", "selectRecords"}, []string{"applyRemovals"}},
	} {
		f := p.Func(lsync, spec.fn)
		d := p.Decl(f)
		if !r.Anchor(d != nil, lsync+"."+spec.fn) {
			continue
		}
		fname := an.FuncName(f)
		r.Fn(fname)
		info := d.Pkg.TypesInfo
		// the body that contains the mutating calls: the entry point itself, or the helper of the package it
		// was split into (validation and mutation then both live there)
		hasMut := func(x *an.DeclInfo) bool {
			for _, m := range spec.mutate {
				if mf := p.Func(lsync, m); mf != nil && len(an.CallsTo(info, x.Decl.Body, false, mf)) > 0 {
					return true
				}
			}
			return false
		}
		entry := d
		if !hasMut(d) {
			for _, x := range calleeDecls(p, d) {
				if x != d && hasMut(x) {
					d = x
					r.Fn(lsync + "." + x.Decl.Name.Name)
				}
			}
		}
		g := an.NewG(info, d.Decl.Body)
		var targets []an.Loc
		for _, m := range spec.mutate {
			mf := p.Func(lsync, m)
			if !r.Anchor(mf != nil, lsync+"."+m) {
				continue
			}
			targets = append(targets, g.Locs(func(n ast.Node) bool { return len(an.CallsTo(info, n, false, mf)) > 0 })...)
		}
		if !r.Anchor(len(targets) > 0, fname+"/mutating calls") {
			continue
		}
		for _, v := range spec.validate {
			vf := p.Func(lsync, v)
			if !r.Anchor(vf != nil, lsync+"."+v) {
				continue
			}
			isV := g.HasCallTo(vf)
			// the validation may sit in a helper of the package that the function calls (readInventory inside
			// a pruneStaleShards helper): a call to such a helper counts
			var vHelpers []*types.Func
			for _, x := range calleeDecls(p, d) {
				if x != d && len(an.CallsTo(info, x.Decl.Body, false, vf)) > 0 {
					if hf, ok := info.Defs[x.Decl.Name].(*types.Func); ok {
						vHelpers = append(vHelpers, hf)
					}
				}
			}
			if len(vHelpers) > 0 {
				direct := isV
				viaHelper := g.HasCallTo(vHelpers...)
				isV = func(l an.Loc) bool { return direct(l) || viaHelper(l) }
			}
			// a validation that stayed in the entry point, before the call of the helper, counts as well
			doneInEntry := false
			if d != entry {
				eg := an.NewG(info, entry.Decl.Body)
				hobj, _ := info.Defs[d.Decl.Name].(*types.Func)
				calls := eg.Locs(func(n ast.Node) bool { return hobj != nil && len(an.CallsTo(info, n, false, hobj)) > 0 })
				doneInEntry = len(calls) > 0
				for _, cl := range calls {
					if eg.Reach(eg.Entry(), false, &an.Search{Target: func(l an.Loc) bool { return l == cl }, Cut: eg.HasCallTo(vf)}) {
						doneInEntry = false
					}
				}
			}
			for _, t := range targets {
				skip := !doneInEntry && g.Reach(g.Entry(), false, &an.Search{Target: func(l an.Loc) bool { return l == t }, Cut: isV})
				r.Check(!skip, "C34.R1", fname+"/"+v+"/precedes-mutation", g.Node(t).Pos(), v+" runs before any shard is removed or written", "a shard-mutating call is reachable without "+v+" having run: a name/source conflict is detected only after the index was changed (or not at all)")
			}
		}
		errCheckedBefore(r, "C34.R1", d, g, fname, "mutation", targets, "the index is changed although validation (duplicate names, ambiguous selection) failed")
		// R2: the prune plan names shard files of the inventory it was computed from; indexing rewrites files of
		// the same names, so the plan must be applied before indexing runs
		applyF, indexF := p.Func(lsync, "applyRemovals"), p.Func(lsync, "indexRepositories")
		if spec.fn == "runSync" && applyF != nil && indexF != nil {
			applies := g.Locs(func(n ast.Node) bool { return len(an.CallsTo(info, n, false, applyF)) > 0 })
			indexes := g.Locs(func(n ast.Node) bool { return len(an.CallsTo(info, n, false, indexF)) > 0 })
			if len(applies) > 0 && len(indexes) > 0 {
				stale := false
				pos := g.Node(applies[0]).Pos()
				for _, il := range indexes {
					for _, al := range applies {
						// a deferred applyRemovals runs when the function returns, i.e. after an indexing that follows the defer
						if _, isDefer := g.Node(al).(*ast.DeferStmt); isDefer && g.Reach(al, true, &an.Search{Target: func(l an.Loc) bool { return l == il }}) {
							stale = true
							pos = g.Node(al).Pos()
						}
						if g.Reach(il, true, &an.Search{Target: func(l an.Loc) bool { return l == al }, Cut: g.HasCallTo(p.Func(lsync, "readInventory"), p.Func(lsync, "planPrune"))}) {
							stale = true
							pos = g.Node(al).Pos()
						}
					}
				}
				r.Check(!stale, "C34.R2", fname+"/prune-plan-applied-before-indexing", pos, "the removals planned from the inventory are applied before indexing rewrites shard files",
					"applyRemovals can run after indexRepositories with a plan computed from the inventory read before indexing: the plan names shard files by path, indexing has rewritten (or kept as up to date) a file of the same name for the discovered repository, and the stale plan deletes it - sync reports success while the repository has no shard")
			}
		}
	}
}

// c34LostUpdates: R3. recordsFromShards, selectRecords and the plan builders group shards per repository in maps
// and structs; an append to a copy of a map element that is never written back silently drops shards from the
// inventory, so removal and pruning leave them on disk.
func c34LostUpdates(p *an.Prog, r *an.R) {
	pk := p.Pkg(lsync)
	if !r.Anchor(pk != nil, lsync) {
		return
	}
	nf, nlocals := 0, 0
	for _, f := range p.SSAFuncs() {
		if p.PkgOfSSA(f) != pk {
			continue
		}
		nf++
		for _, ls := range an.LocalStructs(f) {
			name := ls.Alloc.Comment
			if name == "" || name == "complit" {
				continue // the temporary of a composite literal: its field stores are the literal's initialisation
			}
			nlocals++
			construct := an.SSAName(f) + "/local " + name + "/field-stores-observed"
			if len(ls.Lost) == 0 {
				r.OK("C34.R3", construct, ls.Alloc.Pos(), "every store to a field of this local can be followed by a read")
				continue
			}
			what := "a struct-typed local"
			if ls.FromMap {
				what = "a copy of a map element"
			}
			r.Bad("C34.R3", construct, ls.Lost[0].Pos, "the store to field "+ls.Lost[0].Field+" of "+what+" is never read again and the variable is not written back: the update is lost (an inventory record then misses shards, which removal and pruning leave on disk)")
		}
	}
	r.Fn(lsync + " (all " + strconv.Itoa(nf) + " functions, SSA)")
	r.Assume("C34.R3 evaluated " + strconv.Itoa(nlocals) + " non-escaping named struct locals with field stores in " + strconv.Itoa(nf) + " functions")
	r.Control("C34.R3/lost-store-detector", c34ControlLostStore())
}

// c34ControlLostStore: the detector must report the append to a copy of a map element in a tiny synthetic
// function, and stay silent on its written-back sibling (type-checked and built to SSA in memory on every run).
func c34ControlLostStore() bool {
	const src = `package probe
type rec struct{ n string; s []string }
func lost(m map[string]rec, k, v string) {
	x, ok := m[k]
	if !ok { m[k] = rec{n: k, s: []string{v}}; return }
	x.s = append(x.s, v)
}
func kept(m map[string]rec, k, v string) {
	x := m[k]
	x.s = append(x.s, v)
	m[k] = x
}`
	fset := token.NewFileSet()
	file, err := parser.ParseFile(fset, "probe.go", src, 0)
	if err != nil {
		return false
	}
	pkg, _, err := ssautil.BuildPackage(&types.Config{}, fset, types.NewPackage("probe", "probe"), []*ast.File{file}, ssa.SanityCheckFunctions)
	if err != nil {
		return false
	}
	lost, kept := 0, 0
	for _, ls := range an.LocalStructs(pkg.Func("lost")) {
		lost += len(ls.Lost)
	}
	for _, ls := range an.LocalStructs(pkg.Func("kept")) {
		kept += len(ls.Lost)
	}
	return lost == 1 && kept == 0
}
