package props

import (
	"fmt"
	"go/ast"
	"go/token"
	"go/types"
	"strings"

	"golang.org/x/tools/go/cfg"

	"zverif/checker/an"
)

func init() { register("C12", c12) }

func c12(p *an.Prog, r *an.R, tier string) {
	r.Explanation = "C12 (structural clauses): (R1) in packages index, gitindex, search and cmd/zoekt-merge-index every file-creating call produces a name that the loader cannot see (a .tmp name, or the listed heap-profile exception); loader-visible names (*.zoekt, *.meta) only come into being as the destination of os.Rename; (R2) the loader's suffix set and the temp suffix are disjoint and the .meta suffix is the same literal wherever it is used; (R3) Builder.Finish retires old shards (os.Remove, SetTombstone) only after the rename loop and never on a path where the build error is set; (R4) writeShard/builderWriteAll close the temp file with the error checked before it is registered or renamed; (R5) the sticky buildError is never overwritten by a possibly-nil value, every rename/remove error reaches it, and Finish returns it. With shard merging on, no compound-prefixed file (shard or .meta sidecar) reaches os.Remove in Finish. Does NOT decide atomicity across several shards of one repository (known finding: independent renames), nor durability under power loss."
	r.Rule("C12.R1", "who-may-create: every os.Create/CreateTemp/OpenFile(O_CREATE)/WriteFile in the index-writing packages creates a name ending in .tmp (exception table); loader-visible names are produced only by os.Rename")
	r.Rule("C12.R2", "suffix agreement: the directory watcher loads exactly *.zoekt (+ .meta sidecars); the temp suffix .tmp is not loader-visible; '.meta' is one literal shared by writer, reader and watcher")
	r.Rule("C12.R3", "Builder.Finish: every os.Remove/SetTombstone of an old shard is preceded by the rename loop and is unreachable while buildError != nil")
	r.Rule("C12.R4", "writeShard/builderWriteAll: a checked f.Close() precedes every success return / the rename")
	r.Rule("C12.R5", "sticky error: every assignment to Builder.buildError stores a value known non-nil there (inside `if err != nil`, or a freshly built error) or happens where buildError is known nil; error discipline of Finish/writeShard; every return of Finish after the rename loop returns buildError")

	c12WhoMayCreate(p, r)
	c12Suffixes(p, r)
	c12Finish(p, r)
	c12Close(p, r)
	c12Sticky(p, r)
	// the design-level finding
	finish := p.Decl(p.Func("index", "(*Builder).Finish"))
	if finish != nil {
		c12MultiShard(p, r, finish)
	}
}

func c12WhoMayCreate(p *an.Prog, r *an.R) {
	creators := map[*types.Func]int{}
	for name, arg := range map[string]int{"Create": 0, "CreateTemp": 1, "OpenFile": 0, "WriteFile": 0} {
		if f := p.ExtFunc("os", name); f != nil {
			creators[f] = arg
		}
	}
	exceptions := map[string]string{
		"index.(*Builder).CheckMemoryUsage/os.Create": "heap profile indexmemory.prof.<n>: not a shard name (the watcher globs *.zoekt)",
	}
	n := 0
	for _, rel := range []string{"index", "gitindex", "search", "cmd/zoekt-merge-index"} {
		pk := p.Pkg(rel)
		if pk == nil {
			continue
		}
		p.AllDecls(func(fn *types.Func, d *an.DeclInfo) {
			if d.Pkg != pk || d.Decl.Body == nil {
				return
			}
			info := d.Pkg.TypesInfo
			ast.Inspect(d.Decl.Body, func(nd ast.Node) bool {
				c, ok := nd.(*ast.CallExpr)
				if !ok {
					return true
				}
				cal := an.Callee(info, c)
				argIdx, isCreator := creators[cal]
				if !isCreator {
					return true
				}
				if cal.Name() == "OpenFile" && len(c.Args) >= 2 {
					// only when it may create
					flags := types.ExprString(c.Args[1])
					if !strings.Contains(flags, "O_CREATE") && !strings.Contains(flags, "O_TRUNC") && !strings.Contains(flags, "O_WRONLY") && !strings.Contains(flags, "O_RDWR") {
						return true
					}
				}
				n++
				key := an.FuncName(fn) + "/os." + cal.Name()
				r.Fn(an.FuncName(fn))
				if why, ok := exceptions[key]; ok {
					r.OK("C12.R1", key, c.Pos(), "exception: "+why)
					r.Except(key, why)
					return true
				}
				ok = endsInTmp(info, d.Decl.Body, c.Args[argIdx], 0)
				r.Check(ok, "C12.R1", key, c.Pos(), "creates a name ending in .tmp (invisible to the loader)",
					"a file is created under a name that is not recognisably a .tmp name: if it is a *.zoekt/*.meta name the loader can pick up a half-written file when the indexer is killed")
				return true
			})
		})
	}
	r.Floor("C12.R1.file-creating-calls", 4, n)
}

func c12Suffixes(p *an.Prog, r *an.R) {
	// watcher: the glob pattern and the suffix filters
	scan := p.Decl(p.Func("search", "(*DirectoryWatcher).scan"))
	if !r.Anchor(scan != nil, "search.(*DirectoryWatcher).scan") {
		return
	}
	info := scan.Pkg.TypesInfo
	glob := p.ExtFunc("path/filepath", "Glob")
	var patterns []string
	for _, c := range an.CallsTo(info, scan.Decl.Body, true, glob) {
		ast.Inspect(c, func(n ast.Node) bool {
			if e, ok := n.(ast.Expr); ok {
				if s, ok := an.StringConst(info, e); ok && strings.Contains(s, "*") {
					patterns = append(patterns, s)
				}
			}
			return true
		})
	}
	r.Fn("search.(*DirectoryWatcher).scan")
	ok := len(patterns) == 1 && patterns[0] == "*.zoekt"
	r.Check(ok, "C12.R2", "search.(*DirectoryWatcher).scan/glob", scan.Decl.Pos(), "the loader globs exactly *.zoekt", fmt.Sprintf("the loader's glob patterns are %v, not exactly [*.zoekt]: temporary files (.tmp) may be loaded", patterns))
	for _, pat := range patterns {
		r.Check(!strings.HasSuffix(pat, ".tmp") && !strings.HasSuffix(pat, "*"), "C12.R2", "search.(*DirectoryWatcher).scan/glob-excludes-tmp/"+pat, scan.Decl.Pos(), "pattern cannot match *.tmp", "pattern matches temporary files")
	}
	// ".meta" literal agreement: every string constant containing "meta" used as a suffix in these functions is exactly ".meta"
	n := 0
	for _, site := range []struct{ pkg, fn string }{
		{"index", "JsonMarshalRepoMetaTemp"}, {"index", "(*reader).parseMetadata"}, {"index", "IndexFilePaths"}, {"search", "(*DirectoryWatcher).scan"}, {"search", "(*DirectoryWatcher).watch"},
	} {
		d := p.Decl(p.Func(site.pkg, site.fn))
		if !r.Anchor(d != nil, site.pkg+"."+site.fn) {
			continue
		}
		found := false
		for _, sd := range calleeDecls(p, d) { // the function itself and helpers split off it
			ast.Inspect(sd.Decl.Body, func(nd ast.Node) bool {
				if bl, ok := nd.(*ast.BasicLit); ok && bl.Kind == token.STRING {
					if s, ok := an.StringConst(sd.Pkg.TypesInfo, bl); ok && strings.Contains(strings.ToLower(s), "meta") && strings.HasPrefix(s, ".") {
						if !found {
							n++
						}
						found = true
						r.Check(s == ".meta", "C12.R2", site.pkg+"."+site.fn+"/sidecar-suffix", bl.Pos(), "uses the sidecar suffix .meta", "uses sidecar suffix "+s+" where the other sites use .meta: the sidecar written by one is not found by the other")
					}
				}
				return true
			})
		}
		if !found {
			r.Und("C12.R2", site.pkg+"."+site.fn+"/sidecar-suffix", d.Decl.Pos(), "no sidecar suffix literal found in a function that is known to handle the sidecar")
		}
	}
	r.Floor("C12.R2.sidecar-literals", 5, n)
}

// buildErrorNonNil: cond establishes b.buildError != nil on edge `truth`.
func isFieldNilTest(info *types.Info, cond ast.Expr, field *types.Var) (isTest, nonNilOnTrue bool) {
	be, ok := ast.Unparen(cond).(*ast.BinaryExpr)
	if !ok || (be.Op != token.NEQ && be.Op != token.EQL) {
		return false, false
	}
	sel := func(e ast.Expr) bool {
		se, ok := ast.Unparen(e).(*ast.SelectorExpr)
		return ok && info.Selections[se] != nil && info.Selections[se].Obj() == field
	}
	if (sel(be.X) && info.Types[be.Y].IsNil()) || (sel(be.Y) && info.Types[be.X].IsNil()) {
		return true, be.Op == token.NEQ
	}
	return false, false
}

func c12Finish(p *an.Prog, r *an.R) {
	f := p.Func("index", "(*Builder).Finish")
	d := p.Decl(f)
	rename := p.ExtFunc("os", "Rename")
	remove := p.ExtFunc("os", "Remove")
	setTomb := p.Func("index", "SetTombstone")
	be := p.Field("index", "Builder", "buildError")
	if !r.Anchor(d != nil && rename != nil && remove != nil && setTomb != nil && be != nil, "index.(*Builder).Finish / buildError") {
		return
	}
	r.Fn(an.FuncName(f))
	info := d.Pkg.TypesInfo
	g := an.NewG(info, d.Decl.Body)
	renames := g.Locs(func(n ast.Node) bool { return len(an.CallsTo(info, n, false, rename)) > 0 })
	if !r.Anchor(len(renames) > 0, "Finish/rename loop") {
		return
	}
	isRename := g.HasCallTo(rename)
	// retire sites: Remove/SetTombstone reachable after a rename (the early
	// cleanup of temp files under buildError != nil precedes the renames)
	n := 0
	// functions of the package, called from Finish, that remove or tombstone shards are retire sites too
	retirers := []*types.Func{remove, setTomb}
	for _, xd := range calleeDecls(p, d) {
		if xd == d {
			continue
		}
		xi := xd.Pkg.TypesInfo
		if len(an.CallsTo(xi, xd.Decl.Body, false, remove, setTomb)) > 0 && len(an.CallsTo(xi, xd.Decl.Body, false, rename)) == 0 {
			if hf, ok := xi.Defs[xd.Decl.Name].(*types.Func); ok {
				retirers = append(retirers, hf)
			}
		}
	}
	for _, l := range g.Locs(func(nd ast.Node) bool { return len(an.CallsTo(info, nd, false, retirers...)) > 0 }) {
		afterRename := false
		for _, rn := range renames {
			if g.Reach(rn, true, &an.Search{Target: func(k an.Loc) bool { return k == l }}) {
				afterRename = true
			}
		}
		if !afterRename {
			// must then be unreachable towards the renames as a retire of old shards: it is the temp cleanup; require it to be on an error path
			r.Check(inErrorCleanup(g, info, l), "C12.R3", "index.(*Builder).Finish/remove-before-rename-is-error-cleanup", g.Node(l).Pos(),
				"a removal that precedes the rename loop only runs on the build-error path (temp file cleanup)",
				"Finish removes files before the new shards are renamed into place on a non-error path: a kill in between leaves the repository without its old shards and without the new ones")
			continue
		}
		n++
		what := "os.Remove"
		if len(an.CallsTo(info, g.Node(l), false, setTomb)) > 0 {
			what = "SetTombstone"
		}
		if len(retirers) > 2 {
			if cs := an.CallsTo(info, g.Node(l), false, retirers[2:]...); len(cs) > 0 {
				what = an.Callee(info, cs[0]).Name()
			}
		}
		// (a) every path entry -> l passes a rename
		skips := g.Reach(g.Entry(), false, &an.Search{Target: func(k an.Loc) bool { return k == l }, Cut: isRename})
		// the rename loop may run zero times only if artifactPaths is empty, which returns earlier; accept the range head as the loop marker
		if skips {
			skips = g.Reach(g.Entry(), false, &an.Search{Target: func(k an.Loc) bool { return k == l }, Cut: func(k an.Loc) bool { return isRename(k) || isRangeHeadOfLoopWith(g, info, d.Decl.Body, k, rename) }})
		}
		r.Check(!skips, "C12.R3", "index.(*Builder).Finish/"+what+"/after-rename-loop", g.Node(l).Pos(),
			"old shards are retired only after the loop that renames the new shards into place",
			"an old shard can be retired ("+what+") without the rename loop having run: a kill in between leaves neither the old nor the new index")
		// (b) guarded by buildError == nil established after the last rename
		guarded := g.GuardedBy(l, func(cond ast.Expr, truth bool) bool {
			ok, nonNilOnTrue := isFieldNilTest(info, cond, be)
			return ok && nonNilOnTrue != truth
		}, func(k an.Loc) bool { return isRename(k) })
		r.Check(guarded, "C12.R3", "index.(*Builder).Finish/"+what+"/not-after-failed-rename", g.Node(l).Pos(),
			"old shards are retired only where buildError was tested nil after the renames",
			"an old shard is retired ("+what+") although a rename of a new shard may have failed (buildError is not tested between the rename loop and the removal): the repository loses shards that were never replaced")
	}
	r.Floor("C12.R3.retire-sites", 1, n)
	// R6': files of a compound shard (other repositories live there) are never removed by Finish
	notCompound := func(gi *an.G, ii *types.Info) func(cond ast.Expr, truth bool) bool {
		return func(cond ast.Expr, truth bool) bool {
			if truth {
				return false
			}
			switch x := ast.Unparen(cond).(type) {
			case *ast.SelectorExpr:
				return x.Sel.Name == "ShardMerging"
			case *ast.CallExpr:
				if fn := an.Callee(ii, x); fn != nil && fn.Pkg() != nil && fn.Pkg().Path() == "strings" && fn.Name() == "HasPrefix" && len(x.Args) == 2 {
					tv := ii.Types[x.Args[1]]
					return tv.Value != nil && strings.Contains(tv.Value.String(), "compound-")
				}
			}
			return false
		}
	}
	nc := 0
	for _, l := range g.Locs(func(nd ast.Node) bool { return len(an.CallsTo(info, nd, false, retirers...)) > 0 }) {
		if len(an.CallsTo(info, g.Node(l), false, setTomb)) > 0 {
			continue
		}
		afterRename := false
		for _, rn := range renames {
			if g.Reach(rn, true, &an.Search{Target: func(k an.Loc) bool { return k == l }}) {
				afterRename = true
			}
		}
		if !afterRename {
			continue
		}
		ok := g.GuardedBy(l, notCompound(g, info), nil)
		if !ok && len(an.CallsTo(info, g.Node(l), false, remove)) == 0 {
			// the removal sits in a helper: the guard may be there
			for _, c := range an.CallsTo(info, g.Node(l), false, retirers[2:]...) {
				if hd := p.Decl(an.Callee(info, c)); hd != nil {
					hi := hd.Pkg.TypesInfo
					hg := an.NewG(hi, hd.Decl.Body)
					all := true
					for _, hl := range hg.Locs(func(nd ast.Node) bool { return len(an.CallsTo(hi, nd, false, remove)) > 0 }) {
						if !hg.GuardedBy(hl, notCompound(hg, hi), nil) {
							all = false
						}
					}
					ok = all
				}
			}
		}
		nc++
		r.Check(ok, "C12.R3", "index.(*Builder).Finish/remove/never-a-compound-shard-file", g.Node(l).Pos(),
			"os.Remove of an old file is reached only when shard merging is off or the file is not compound-prefixed (compound shards get a tombstone instead)",
			"with shard merging on, a file with the compound- prefix can reach os.Remove: the compound shard (or its .meta sidecar holding the tombstones of other repositories) is deleted, repositories that were replaced earlier come back next to their new shards")
	}
	r.Floor("C12.R3.remove-sites-after-rename", 1, nc)
	// every return reachable from a rename returns b.buildError
	for _, l := range g.Locs(func(nd ast.Node) bool { _, ok := nd.(*ast.ReturnStmt); return ok }) {
		reach := false
		for _, rn := range renames {
			if g.Reach(rn, true, &an.Search{Target: func(k an.Loc) bool { return k == l }}) {
				reach = true
			}
		}
		if !reach {
			continue
		}
		rs := g.Node(l).(*ast.ReturnStmt)
		ok := false
		if len(rs.Results) == 1 {
			if se, isSel := ast.Unparen(rs.Results[0]).(*ast.SelectorExpr); isSel && info.Selections[se] != nil && info.Selections[se].Obj() == be {
				ok = true
			}
		}
		r.Check(ok, "C12.R5", "index.(*Builder).Finish/return-after-renames-returns-buildError", rs.Pos(), "returns the sticky build error", "a return after the rename loop does not return b.buildError: rename/remove failures recorded there are not reported")
	}
}

func isRangeHeadOfLoopWith(g *an.G, info *types.Info, body ast.Node, k an.Loc, fn *types.Func) bool {
	found := false
	ast.Inspect(body, func(n ast.Node) bool {
		if rs, ok := n.(*ast.RangeStmt); ok && len(an.CallsTo(info, rs.Body, false, fn)) > 0 {
			if g.Node(k) == ast.Node(rs.X) {
				found = true
			}
		}
		return true
	})
	return found
}

func c12Close(p *an.Prog, r *an.R) {
	closeF := p.ExtFunc("os", "File.Close")
	rename := p.ExtFunc("os", "Rename")
	for _, name := range []string{"(*Builder).writeShard", "builderWriteAll"} {
		f := p.Func("index", name)
		d := p.Decl(f)
		if !r.Anchor(d != nil && closeF != nil, "index."+name) {
			continue
		}
		r.Fn(an.FuncName(f))
		info := d.Pkg.TypesInfo
		g := an.NewG(info, d.Decl.Body)
		// checked close: an `if err := f.Close(); err != nil` / assignment form, not an ExprStmt or defer
		isCheckedClose := func(l an.Loc) bool {
			switch g.Node(l).(type) {
			case *ast.AssignStmt:
				return len(an.CallsTo(info, g.Node(l), false, closeF)) > 0
			}
			return false
		}
		n := 0
		// targets: rename of the temp file, and success returns (last result nil)
		for _, l := range g.Locs(func(nd ast.Node) bool { return true }) {
			isTarget := false
			what := ""
			if len(an.CallsTo(info, g.Node(l), false, rename)) > 0 {
				isTarget, what = true, "rename"
			}
			if rs, ok := g.Node(l).(*ast.ReturnStmt); ok && len(rs.Results) > 0 && info.Types[rs.Results[len(rs.Results)-1]].IsNil() {
				isTarget, what = true, "success-return"
			}
			if !isTarget {
				continue
			}
			n++
			skip := g.Reach(g.Entry(), false, &an.Search{Target: func(k an.Loc) bool { return k == l }, Cut: isCheckedClose})
			r.Check(!skip, "C12.R4", an.FuncName(f)+"/"+what+"/checked-close-precedes", g.Node(l).Pos(),
				"the temp file is closed with its error checked before the shard is registered/renamed",
				"the shard's temp file can be registered or renamed without a checked Close: a write error reported at close time (delayed allocation, quota) is lost and a truncated shard is installed")
		}
		r.Floor("C12.R4."+name+".targets", 1, n)
		errDiscipline(p, r, "C12.R5", f, errOpts{exempt: map[string]string{
			"index.(*Builder).writeShard/os.File.Close/error-discarded-in-defer": "second Close on error paths only; the success path closes with the error checked (C12.R4)",
			"index.builderWriteAll/os.File.Close/error-discarded-in-defer":       "second Close on error paths only; the success path closes with the error checked (C12.R4)",
		}})
	}
}

func c12Sticky(p *an.Prog, r *an.R) {
	be := p.Field("index", "Builder", "buildError")
	if be == nil {
		return
	}
	idx := p.Pkg("index")
	n := 0
	p.AllDecls(func(fn *types.Func, d *an.DeclInfo) {
		if d.Pkg != idx || d.Decl.Body == nil {
			return
		}
		info := d.Pkg.TypesInfo
		var bodies []*ast.BlockStmt
		bodies = append(bodies, d.Decl.Body)
		ast.Inspect(d.Decl.Body, func(nd ast.Node) bool {
			if lit, ok := nd.(*ast.FuncLit); ok {
				bodies = append(bodies, lit.Body)
			}
			return true
		})
		for bi, body := range bodies {
			g := an.NewG(info, body)
			for _, l := range g.Locs(func(ast.Node) bool { return true }) {
				as, ok := g.Node(l).(*ast.AssignStmt)
				if !ok {
					continue
				}
				for i, lh := range as.Lhs {
					se, ok := ast.Unparen(lh).(*ast.SelectorExpr)
					if !ok || info.Selections[se] == nil || info.Selections[se].Obj() != be || i >= len(as.Rhs) {
						continue
					}
					n++
					rhs := ast.Unparen(as.Rhs[i])
					fname := an.FuncName(fn)
					if bi > 0 {
						fname = fmt.Sprintf("%s$%d", fname, bi)
					}
					r.Fn(fname)
					key := fmt.Sprintf("%s/buildError=%s", fname, types.ExprString(rhs))
					// freshly built error
					if c, ok := rhs.(*ast.CallExpr); ok {
						cal := an.Callee(info, c)
						if an.IsPkgFunc(cal, "fmt", "Errorf") || an.IsPkgFunc(cal, "errors", "New", "Join") {
							r.OK("C12.R5", key, as.Pos(), "stores a freshly built (non-nil) error")
							continue
						}
					}
					okGuard := false
					if id, ok := rhs.(*ast.Ident); ok {
						obj := info.ObjectOf(id)
						// inside `if err != nil`
						okGuard = g.GuardedBy(l, func(cond ast.Expr, truth bool) bool {
							isT, nonNilOnTrue := isErrNilTest(info, cond, obj)
							if isT && nonNilOnTrue == truth {
								return true
							}
							// `err != nil && b.buildError == nil`
							return false
						}, nil)
					}
					// or buildError known nil here
					if !okGuard {
						okGuard = g.GuardedBy(l, func(cond ast.Expr, truth bool) bool {
							isT, nonNilOnTrue := isFieldNilTest(info, cond, be)
							return isT && nonNilOnTrue != truth
						}, func(k an.Loc) bool {
							if k == l {
								return false
							}
							as2, ok := g.Node(k).(*ast.AssignStmt)
							if !ok {
								return false
							}
							for _, lh2 := range as2.Lhs {
								if se2, ok := ast.Unparen(lh2).(*ast.SelectorExpr); ok && info.Selections[se2] != nil && info.Selections[se2].Obj() == be {
									return true
								}
							}
							return false
						})
					}
					r.Check(okGuard, "C12.R5", key, as.Pos(), "the stored value is known non-nil here, or buildError is known nil",
						"buildError is overwritten with a value that may be nil while it may already hold an error: an earlier failure (e.g. a failed rename) is forgotten and the run reports success")
				}
			}
		}
	})
	r.Floor("C12.R5.buildError-assignments", 5, n)
	if f := p.Func("index", "(*Builder).Finish"); f != nil {
		// no error classification is accepted as "handling" here: an
		// installation step that failed for whatever reason has not installed
		errDiscipline(p, r, "C12.R5", f, errOpts{
			exempt: map[string]string{
				"index.(*Builder).Finish/index.(*Builder).flush/error-discarded": "flush records its error in the sticky buildError (tested right after building.Wait())",
			}})
	}
}

// c12MultiShard records the design-level finding: the rename loop installs
// the shards of one repository one by one.
func c12MultiShard(p *an.Prog, r *an.R, d *an.DeclInfo) {
	info := d.Pkg.TypesInfo
	rename := p.ExtFunc("os", "Rename")
	ast.Inspect(d.Decl.Body, func(n ast.Node) bool {
		rs, ok := n.(*ast.RangeStmt)
		if !ok || len(an.CallsTo(info, rs.Body, false, rename)) == 0 {
			return true
		}
		// ranging over a map of temp->final names and renaming each: non-atomic over several shards
		if t := info.TypeOf(rs.X); t != nil {
			if _, isMap := t.Underlying().(*types.Map); isMap {
				r.Bad("C12.R6", "index.(*Builder).Finish/rename-loop/non-atomic-multi-shard", rs.Pos(),
					"the new shards of one repository are installed by independent renames in map order: a kill between two renames leaves a mixture of old and new shards (and the old higher-numbered shards are only removed afterwards)")
			}
		}
		return false
	})
	_ = cfg.KindUnreachable
}
