package props

import (
	"fmt"
	"go/ast"
	"go/token"
	"go/types"

	"zverif/checker/an"
)

func init() { register("C16", c16) }

func c16(p *an.Prog, r *an.R, tier string) {
	r.Explanation = "C16 (structural clauses): copy completeness of merge/explode. addDocument sets every field of index.Document that ShardBuilder.Add reads (SkipReason excepted: the stored content already is the NOT-INDEXED marker); the values it stores into the document are freshly read per document (no buffer reused across documents, since Add keeps them by reference); merge and explode install the source shard's own repository metadata at every repository boundary before copying that repository's documents; documents of tombstoned repositories are not copied. Does NOT decide equality of search results over input and output."
	r.Rule("C16.R1", "fields(index.Document) read by (*ShardBuilder).Add \\ {SkipReason} ⊆ fields set by addDocument")
	r.Rule("C16.R2", "merge/explode: setRepository(&d.repoMetaData[repoID]) is called in the `repoID != lastRepoID` arm with the repoID that addDocument receives; lastRepoID starts at -1 and is only ever set to repoID in that arm")
	r.Rule("C16.R3", "addDocument is reachable only where the repository's Tombstone flag tested false (shared with C17.R3)")
	r.Rule("C16.R4", "buffers passed to the read helpers whose results are stored in the Document are nil (fresh per document)")
	docT := p.Named("index", "Document")
	add := p.Func("index", "(*ShardBuilder).Add")
	addDoc := p.Func("index", "addDocument")
	ad, dd := p.Decl(add), p.Decl(addDoc)
	if !r.Anchor(docT != nil && ad != nil && dd != nil, "index.Document / ShardBuilder.Add / addDocument") {
		return
	}
	r.Fn(an.FuncName(add))
	r.Fn(an.FuncName(addDoc))
	readU := an.FieldUses(ad.Pkg.TypesInfo, ad.Decl.Body, docT)
	setU := an.FieldUses(dd.Pkg.TypesInfo, dd.Decl.Body, docT)
	exceptions := map[string]string{"SkipReason": "the content read back from the source shard already is the NOT-INDEXED marker written by the original indexer (comment in addDocument)"}
	n := 0
	for _, f := range an.StructFields(docT) {
		if _, ok := readU.Read[f.Name()]; !ok {
			continue
		}
		n++
		key := "index.addDocument/sets/Document." + f.Name()
		if _, ok := setU.Written[f.Name()]; ok || setU.AllSet {
			r.OK("C16.R1", key, setU.Written[f.Name()], "set from the source shard")
			continue
		}
		if why, ok := exceptions[f.Name()]; ok {
			r.OK("C16.R1", key, dd.Decl.Pos(), "exception: "+why)
			r.Except("Document."+f.Name(), why)
			continue
		}
		r.Bad("C16.R1", key, dd.Decl.Pos(), "ShardBuilder.Add reads Document."+f.Name()+" but addDocument never sets it: merged/exploded shards lose that information")
	}
	r.Floor("C16.R1.document-fields-read-by-Add", 8, n)
	// R4
	info := dd.Pkg.TypesInfo
	k := 0
	ast.Inspect(dd.Decl.Body, func(nd ast.Node) bool {
		as, ok := nd.(*ast.AssignStmt)
		if !ok || len(as.Rhs) != 1 {
			return true
		}
		call, ok := ast.Unparen(as.Rhs[0]).(*ast.CallExpr)
		if !ok {
			return true
		}
		storesDoc := false
		for _, lh := range as.Lhs {
			if se, ok := ast.Unparen(lh).(*ast.SelectorExpr); ok && info.Selections[se] != nil {
				if an.NamedOf(info.TypeOf(se.X)) == docT {
					storesDoc = true
				}
			}
		}
		if !storesDoc {
			// the result may go through a local first: `x, _, err := read(..); doc.F = x`
			for _, lh := range as.Lhs {
				id, ok := lh.(*ast.Ident)
				if !ok || id.Name == "_" {
					continue
				}
				obj := info.ObjectOf(id)
				ast.Inspect(dd.Decl.Body, func(m ast.Node) bool {
					a2, ok := m.(*ast.AssignStmt)
					if !ok || len(a2.Lhs) != len(a2.Rhs) {
						return true
					}
					for i, l2 := range a2.Lhs {
						if se, ok := ast.Unparen(l2).(*ast.SelectorExpr); ok && info.Selections[se] != nil && an.NamedOf(info.TypeOf(se.X)) == docT && isIdentOf(info, a2.Rhs[i], obj) {
							storesDoc = true
						}
					}
					return true
				})
			}
		}
		if !storesDoc || an.Callee(info, call) == nil || !an.InModule(an.Callee(info, call).Pkg()) {
			return true // builtins (make, append) build fresh values of their own
		}
		for _, a := range call.Args {
			if _, isSlice := info.TypeOf(a).Underlying().(*types.Slice); !isSlice && !info.Types[a].IsNil() {
				continue
			}
			k++
			r.Check(info.Types[a].IsNil(), "C16.R4", "index.addDocument/"+calleeShort(an.Callee(info, call))+"/fresh-buffer", a.Pos(), "reads into a fresh buffer (nil)", "a reused buffer is passed to "+calleeShort(an.Callee(info, call))+" and the result is stored in the Document: ShardBuilder.Add keeps it by reference, so later documents overwrite the sections of earlier ones")
		}
		return true
	})
	r.Floor("C16.R4.buffer-arguments", 1, k)
	// R2, R3
	setRepo := p.Func("index", "(*ShardBuilder).setRepository")
	tomb := p.Field("", "Repository", "Tombstone")
	for _, fn := range []string{"merge", "explode"} {
		f := p.Func("index", fn)
		d := p.Decl(f)
		if !r.Anchor(d != nil && setRepo != nil && tomb != nil, "index."+fn) {
			continue
		}
		fname := an.FuncName(f)
		r.Fn(fname)
		inf := d.Pkg.TypesInfo
		g := an.NewG(inf, d.Decl.Body)
		for _, l := range g.Locs(func(nd ast.Node) bool { return len(an.CallsTo(inf, nd, false, addDoc)) > 0 }) {
			call := an.CallsTo(inf, g.Node(l), false, addDoc)[0]
			repoArg, _ := ast.Unparen(call.Args[2]).(*ast.Ident)
			if repoArg == nil {
				r.Und("C16.R2", fname+"/addDocument/repoID-argument", call.Pos(), "repoID argument is not a variable")
				continue
			}
			repoObj := inf.ObjectOf(repoArg)
			// R3
			okT := g.GuardedBy(l, func(cond ast.Expr, truth bool) bool {
				se, isSel := ast.Unparen(cond).(*ast.SelectorExpr)
				return isSel && inf.Selections[se] != nil && inf.Selections[se].Obj() == tomb && !truth
			}, nil)
			r.Check(okT, "C16.R3", fname+"/addDocument/guarded-by/!Tombstone", call.Pos(), "only documents of non-tombstoned repositories are copied", "documents of a tombstoned repository can be copied: the repository is not dropped (its files re-appear, possibly under the previous repository)")
			// R2: a setRepository(&X.repoMetaData[repoObj]) under `repoObj != last`
			found := false
			var lastObj types.Object
			for _, sl := range g.Locs(func(nd ast.Node) bool { return len(an.CallsTo(inf, nd, false, setRepo)) > 0 }) {
				sc := an.CallsTo(inf, g.Node(sl), false, setRepo)[0]
				arg0 := sc.Args[0]
				if dd := defOf(inf, d.Decl.Body, arg0); dd != nil {
					arg0 = dd // the pointer was taken into a single-definition local first
				}
				u, ok := ast.Unparen(arg0).(*ast.UnaryExpr)
				if !ok || u.Op != token.AND {
					continue
				}
				ix, ok := ast.Unparen(u.X).(*ast.IndexExpr)
				if !ok || !an.UsesObj(inf, ix.Index, repoObj) {
					continue
				}
				se, ok := ast.Unparen(ix.X).(*ast.SelectorExpr)
				if !ok || se.Sel.Name != "repoMetaData" {
					continue
				}
				guarded := g.GuardedBy(sl, func(cond ast.Expr, truth bool) bool {
					be, ok := ast.Unparen(cond).(*ast.BinaryExpr)
					if !ok || be.Op != token.NEQ || !truth {
						return false
					}
					if an.UsesObj(inf, be.X, repoObj) {
						if id, ok := ast.Unparen(be.Y).(*ast.Ident); ok {
							lastObj = inf.ObjectOf(id)
							return true
						}
					}
					return false
				}, nil)
				if guarded {
					found = true
				}
			}
			r.Check(found, "C16.R2", fname+"/setRepository-at-repository-boundary", call.Pos(), "the source's own metadata for this repoID is installed when the repository changes", "no setRepository(&d.repoMetaData[repoID]) under `repoID != lastRepoID` for the repoID passed to addDocument: documents are attached to another repository's metadata")
			if lastObj != nil {
				// lastObj: initialised to -1, otherwise only `= repoObj`
				okInit, okAssign := false, true
				ast.Inspect(d.Decl.Body, func(nd ast.Node) bool {
					as, ok := nd.(*ast.AssignStmt)
					if !ok {
						return true
					}
					for i, lh := range as.Lhs {
						id, ok := ast.Unparen(lh).(*ast.Ident)
						if !ok || inf.ObjectOf(id) != lastObj || i >= len(as.Rhs) {
							continue
						}
						if as.Tok == token.DEFINE {
							if tv := inf.Types[as.Rhs[i]]; tv.Value != nil && tv.Value.String() == "-1" {
								okInit = true
							}
						} else if !an.UsesObj(inf, as.Rhs[i], repoObj) {
							okAssign = false
						}
					}
					return true
				})
				r.Check(okInit && okAssign, "C16.R2", fname+"/lastRepoID-discipline", call.Pos(), "lastRepoID starts at -1 and is only set to the current repoID", fmt.Sprintf("lastRepoID is initialised or updated differently (init -1: %v, only `= repoID`: %v): the first repository's metadata may never be installed", okInit, okAssign))
			}
		}
	}
}
