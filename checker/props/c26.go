package props

import (
	"fmt"
	"go/ast"
	"go/types"
	"sort"
	"strings"

	"golang.org/x/tools/go/callgraph"
	"golang.org/x/tools/go/ssa"

	"zverif/checker/an"
)

func init() {
	register("C26", c26)
	register("C11", c11)
}

// lenTaintPackages runs the untrusted-length rules over the functions of the
// given packages. Returns counts.
func lenTaintPackages(p *an.Prog, r *an.R, rule string, pkgs []string, kinds map[string]bool, only func(f *ssa.Function) bool) (sinks, progress int) {
	sources, validated := 0, 0
	defer func() {
		r.Floor(rule+".decoded-integer-sources", 4, sources)
		r.Extra[rule+".functions_returning_validated_lengths"] = validated
	}()
	inScope := func(f *ssa.Function) bool {
		if f.Pkg == nil {
			return false
		}
		for _, rel := range pkgs {
			if pk := p.Pkg(rel); pk != nil && f.Pkg.Pkg == pk.Types {
				return only == nil || only(f)
			}
		}
		return false
	}
	var fns []*ssa.Function
	for _, f := range p.SSAFuncs() {
		if inScope(f) {
			fns = append(fns, f)
		}
	}
	lt := an.NewLenTaint()
	// summaries: functions returning an unvalidated decoded length
	for iter := 0; iter < 4; iter++ {
		changed := false
		for _, f := range fns {
			if lt.Summary[f] != nil {
				continue
			}
			t := lt.Tainted(f)
			if len(t) == 0 {
				continue
			}
			an.Instrs(f, func(b *ssa.BasicBlock, in ssa.Instruction) {
				ret, ok := in.(*ssa.Return)
				if !ok || lt.Summary[f] != nil {
					return
				}
				for i := range ret.Results {
					v := retOperand(ret, i)
					ti := t[v]
					if ti == nil {
						continue
					}
					if _, isInt := v.Type().Underlying().(*types.Basic); !isInt {
						continue
					}
					if ok, decided, _ := an.Bounded(f, t, an.LenSink{In: ret, Val: v, Kind: "return"}); !ok || !decided {
						lt.Summary[f] = &an.TaintInfo{Root: v, MaybeNeg: ti.MaybeNeg}
						changed = true
					} else if iter == 0 {
						validated++
						r.OK(rule, an.SSAName(f)+"/returns-validated-length", ret.Pos(), "the decoded integer it returns was compared against the remaining input on every path")
					}
				}
			})
		}
		if !changed {
			break
		}
	}
	var sumNames []string
	for f := range lt.Summary {
		sumNames = append(sumNames, an.SSAName(f))
	}
	sort.Strings(sumNames)
	r.Extra[rule+".functions_returning_unvalidated_lengths"] = sumNames
	counts := map[string]int{}
	for _, f := range fns {
		t := lt.Tainted(f)
		fname := an.SSAName(f)
		if len(t) > 0 {
			r.Fn(fname)
		}
		for v, ti := range t {
			if ti.Root == v {
				sources++
			}
		}
		for _, s := range an.LenSinks(f, t, kinds) {
			sinks++
			key := fmt.Sprintf("%s/%s", fname, s.Kind)
			counts[key]++
			if counts[key] > 1 {
				key = fmt.Sprintf("%s#%d", key, counts[key])
			}
			ok, decided, why := an.Bounded(f, t, s)
			switch {
			case !decided:
				r.Und(rule, key, s.In.Pos(), why)
			case ok:
				r.OK(rule, key, s.In.Pos(), "the decoded length is bounded against untainted data on every path to this "+s.Kind)
			default:
				r.Bad(rule, key, s.In.Pos(), "a length decoded from untrusted bytes sizes a "+s.Kind+": "+why)
			}
		}
		for _, ps := range an.ProgressSites(f) {
			progress++
			key := fmt.Sprintf("%s/uvarint-progress", fname)
			counts[key]++
			if counts[key] > 1 {
				key = fmt.Sprintf("%s#%d", key, counts[key])
			}
			ok, decided := an.ProgressChecked(f, ps)
			switch {
			case !decided:
				r.Und(rule, key, ps.Slice.Pos(), "path exploration exceeded its bound")
			case ok:
				r.OK(rule, key, ps.Slice.Pos(), "the byte count of binary.Uvarint is tested > 0 before the input is advanced")
			default:
				r.Bad(rule, key, ps.Slice.Pos(), "the input is advanced by the byte count of binary.Uvarint without testing it: 0 (truncated varint) makes a `for len(data) > 0` loop spin forever, a negative count (overlong varint) panics in the slice expression")
			}
		}
	}
	return sinks, progress
}

func c26(p *an.Prog, r *an.R, tier string) {
	r.Explanation = "C26 (structural clauses): in the three compact binary decoders (ReposMap, BranchesRepos, FileNameSet) and their binaryReaders no length or count decoded from the input sizes an allocation, bounds a loop or a slice expression without having been compared, on every path, against untainted data (the remaining input) - in the unsigned domain or together with a lower bound, so that values >= 2^63 cannot slip through as negative ints; the byte count of binary.Uvarint is tested before the input is advanced; the encoder and decoder of each format write and read the same fields. Does NOT decide value round-trip equality."
	r.Rule("C26.R1", "untrusted-length taint: every make/map hint/loop bound/slice bound fed by a decoded length is bounded on all feasible paths (sign-aware)")
	r.Rule("C26.R2", "varint progress: `b = b[n:]` with n from binary.Uvarint only under n > 0")
	r.Rule("C26.R3", "encoder/decoder field agreement: every field of MinimalRepoListEntry/RepositoryBranch/BranchRepos written by the encoder is set by the decoder")
	isDecoder := func(f *ssa.Function) bool {
		n := an.SSAName(f)
		for _, s := range []string{"reposMapDecode", "branchesReposDecode", "stringSetDecode", "binaryReader"} {
			if strings.Contains(n, s) {
				return true
			}
		}
		return false
	}
	sinks, progress := lenTaintPackages(p, r, "C26.R1", []string{"", "query"}, map[string]bool{"make": true, "makemap": true, "slice-bound": true, "loop-bound": true}, isDecoder)
	_ = sinks
	r.Floor("C26.R2.progress-sites", 2, progress)
	// R3: field agreement (AST)
	for _, spec := range []struct {
		pkg, enc, dec string
		typ           *types.Named
	}{
		{"", "reposMapEncode", "reposMapDecode", p.Named("", "MinimalRepoListEntry")},
		{"", "reposMapEncode", "reposMapDecode", p.Named("", "RepositoryBranch")},
		{"query", "branchesReposEncode", "branchesReposDecode", p.Named("query", "BranchRepos")},
	} {
		ed, dd := p.Decl(p.Func(spec.pkg, spec.enc)), p.Decl(p.Func(spec.pkg, spec.dec))
		if !r.Anchor(ed != nil && dd != nil && spec.typ != nil, spec.enc+"/"+spec.dec) {
			continue
		}
		// the encoder/decoder and the helpers split off them (e.g. a reader method for one sub-record)
		readBy, setBy := map[string]bool{}, map[string]bool{}
		for _, x := range calleeDecls(p, ed) {
			for k := range an.FieldUses(x.Pkg.TypesInfo, x.Decl.Body, spec.typ).Read {
				readBy[k] = true
			}
		}
		for _, x := range calleeDecls(p, dd) {
			u := an.FieldUses(x.Pkg.TypesInfo, x.Decl.Body, spec.typ)
			for k := range u.Written {
				setBy[k] = true
			}
			if u.AllSet {
				for _, f := range an.StructFields(spec.typ) {
					setBy[f.Name()] = true
				}
			}
		}
		for _, f := range an.StructFields(spec.typ) {
			read := readBy[f.Name()]
			set := setBy[f.Name()]
			key := fmt.Sprintf("%s.%s/encoded-and-decoded", spec.typ.Obj().Name(), f.Name())
			r.Check(read == set || (set && !read), "C26.R3", key, dd.Decl.Pos(), fmt.Sprintf("encoder reads it: %v, decoder sets it: %v", read, set),
				"the encoder writes "+spec.typ.Obj().Name()+"."+f.Name()+" but the decoder never sets it: the value does not survive a round trip")
		}
	}
	_ = ast.Inspect
	// R4: the encoders return the bytes of a buffer they own
	r.Rule("C26.R4", "each encoder returns the bytes of a locally allocated bytes.Buffer (not a pooled or shared one): the returned encoding is not overwritten by a later encode")
	for _, spec := range []struct{ pkg, fn string }{{"", "reposMapEncode"}, {"query", "branchesReposEncode"}, {"query", "stringSetEncode"}} {
		f := p.SSAFunc(p.Func(spec.pkg, spec.fn))
		if !r.Anchor(f != nil, spec.fn) {
			continue
		}
		r.Fn(an.SSAName(f))
		an.Instrs(f, func(b *ssa.BasicBlock, in ssa.Instruction) {
			ret, ok := in.(*ssa.Return)
			if !ok || len(ret.Results) == 0 {
				return
			}
			v := retOperand(ret, 0)
			if c, isC := v.(*ssa.Const); isC && c.IsNil() {
				return
			}
			own := false
			how := "a value of unknown origin"
			if c, ok := v.(*ssa.Call); ok {
				if cal := an.StaticCallee(c); cal != nil && an.IsPkgFunc(cal, "bytes", "Buffer.Bytes") {
					if al, ok := c.Call.Args[0].(*ssa.Alloc); ok {
						own = true
						how = "Bytes() of local buffer " + al.Comment
					} else {
						how = "Bytes() of a buffer that is not a local variable (pooled/shared?)"
					}
				}
				if cal := an.StaticCallee(c); cal != nil && (an.IsPkgFunc(cal, "bytes", "Clone") || an.IsPkgFunc(cal, "slices", "Clone")) {
					own, how = true, "a fresh copy"
				}
			}
			r.Check(own, "C26.R4", an.SSAName(f)+"/returns-owned-bytes", ret.Pos(), "returns "+how, "the encoder returns "+how+": a later encode can overwrite the bytes the caller still holds, so decode(encode(v)) != v")
		})
	}
}

func c11(p *an.Prog, r *an.R, tier string) {
	r.Explanation = "C11 (structural clauses): (R1) every goroutine/entry of package search that loads a shard or calls a shard's Search/List does so under a deferred recover(); (R2) the memory-mapped file is sliced only inside mmapedIndexFile.Read, behind its bounds test; (R3) every varint-decoding step over file bytes tests the consumed count before advancing (a truncated varint would otherwise be an infinite loop, which no recover contains); (R4) no allocation is sized by a length decoded from the file without a bound against the remaining input. Does NOT decide that every corruption is caught (offset arithmetic inside search is runtime-valued; verify() is partial)."
	r.Rule("C11.R1", "containment: calls to zoekt.Searcher.Search/List made from package search, and index.NewSearcher/loadIndexData reached from package search, are in functions with a deferred recover() (exception table)")
	r.Rule("C11.R2", "mmapedIndexFile.data is sliced only in mmapedIndexFile.Read, and that slice expression is guarded by the bounds test")
	r.Rule("C11.R3", "varint progress in package index: `data = data[n:]` with n from binary.Uvarint only under n > 0")
	r.Rule("C11.R4", "untrusted-length taint in package index: make/map sizes fed by a decoded varint are bounded against untainted data")
	sinks, progress := lenTaintPackages(p, r, "C11.R4", []string{"index"}, map[string]bool{"make": true, "makemap": true}, nil)
	r.Floor("C11.R3.progress-sites", 8, progress)
	_ = sinks
	c11Containment(p, r)
	c11Mmap(p, r)
	c11NoErrorInDocLoop(p, r)
}

// c11NoErrorInDocLoop: a problem found while evaluating the documents of one
// shard must not surface as an error of indexData.Search: the sharded searcher
// aborts the whole query on a shard error, whereas a panic is contained per
// shard (Crashes counter).
func c11NoErrorInDocLoop(p *an.Prog, r *an.R) {
	r.Rule("C11.R5", "inside the document loop of indexData.Search no return carries a non-nil error (data-dependent failures of one shard must stay contained per shard; errors abort the whole sharded query)")
	d := p.Decl(p.Func("index", "(*indexData).Search"))
	filesF := p.Field("", "SearchResult", "Files")
	if !r.Anchor(d != nil && filesF != nil, "index.(*indexData).Search") {
		return
	}
	info := d.Pkg.TypesInfo
	var loop *ast.ForStmt
	ast.Inspect(d.Decl.Body, func(n ast.Node) bool {
		fs, ok := n.(*ast.ForStmt)
		if !ok || loop != nil {
			return true
		}
		has := false
		ast.Inspect(fs.Body, func(m ast.Node) bool {
			if as, ok := m.(*ast.AssignStmt); ok {
				for _, lh := range as.Lhs {
					if selField(info, lh, filesF) {
						has = true
					}
				}
			}
			return true
		})
		if has {
			loop = fs
		}
		return true
	})
	if !r.Anchor(loop != nil, "document loop of indexData.Search") {
		return
	}
	bad := 0
	ast.Inspect(loop.Body, func(n ast.Node) bool {
		if _, isLit := n.(*ast.FuncLit); isLit {
			return false
		}
		rs, ok := n.(*ast.ReturnStmt)
		if !ok || len(rs.Results) == 0 {
			return true
		}
		last := rs.Results[len(rs.Results)-1]
		if t := info.TypeOf(last); t != nil && types.Identical(t, errorType) && !info.Types[last].IsNil() {
			bad++
			r.Bad("C11.R5", "index.(*indexData).Search/document-loop/returns-error", rs.Pos(), "the document loop returns an error: for a corrupt shard the sharded searcher then fails the whole query (and discards the other shards' results) instead of counting one crashed shard")
		}
		return true
	})
	if bad == 0 {
		r.OK("C11.R5", "index.(*indexData).Search/document-loop/no-error-returns", loop.Pos(), "no return with a non-nil error inside the document loop")
	}
}

func hasDeferredRecover(f *ssa.Function) bool {
	found := false
	an.Instrs(f, func(b *ssa.BasicBlock, in ssa.Instruction) {
		d, ok := in.(*ssa.Defer)
		if !ok {
			return
		}
		var fn *ssa.Function
		switch v := d.Call.Value.(type) {
		case *ssa.Function:
			fn = v
		case *ssa.MakeClosure:
			fn, _ = v.Fn.(*ssa.Function)
		}
		if fn == nil {
			return
		}
		an.Instrs(fn, func(b2 *ssa.BasicBlock, in2 ssa.Instruction) {
			if c, ok := in2.(*ssa.Call); ok {
				if bi, ok := c.Call.Value.(*ssa.Builtin); ok && bi.Name() == "recover" {
					found = true
				}
			}
		})
	})
	return found
}

func c11Containment(p *an.Prog, r *an.R) {
	searchPkg := p.Pkg("search")
	searcher := p.Named("", "Searcher")
	newSearcher := p.Func("index", "NewSearcher")
	if !r.Anchor(searchPkg != nil && searcher != nil && newSearcher != nil, "search package / zoekt.Searcher / index.NewSearcher") {
		return
	}
	exceptions := map[string]string{
		"search.mkRankedShard/Searcher.List":                      "lists Const(true) over metadata that NewSearcher already parsed into memory; evaluated while the shard is being published, before any request",
		"search.(*typeRepoSearcher).Search/Searcher.Search":       "wrapper around the sharded searcher (not a single shard): per-shard containment happens below it",
		"search.(*typeRepoSearcher).StreamSearch/Searcher.Search": "wrapper around the sharded searcher",
		"search.(*typeRepoSearcher).List/Searcher.List":           "wrapper around the sharded searcher",
	}
	n := 0
	for _, f := range p.SSAFuncs() {
		if f.Pkg == nil || f.Pkg.Pkg != searchPkg.Types {
			continue
		}
		an.Instrs(f, func(b *ssa.BasicBlock, in ssa.Instruction) {
			c, ok := in.(ssa.CallInstruction)
			if !ok {
				return
			}
			what := ""
			if c.Common().IsInvoke() && types.Identical(c.Common().Value.Type(), searcher) && (c.Common().Method.Name() == "Search" || c.Common().Method.Name() == "List") {
				what = "Searcher." + c.Common().Method.Name()
			}
			if an.StaticCallee(c) == newSearcher {
				what = "index.NewSearcher"
			}
			if what == "" {
				return
			}
			n++
			fname := an.SSAName(f)
			r.Fn(fname)
			key := fname + "/" + what
			if why, ok := exceptions[key]; ok {
				r.OK("C11.R1", key, in.Pos(), "exception: "+why)
				r.Except(key, why)
				return
			}
			// the function itself, or every caller chain inside package search up to a goroutine entry, has a deferred recover
			ok = hasDeferredRecover(f)
			r.Check(ok, "C11.R1", key, in.Pos(), "made under a deferred recover()", "a shard's "+what+" is called from "+fname+" without a deferred recover(): a panic caused by a corrupt shard kills the whole process instead of failing that shard")
		})
	}
	r.Floor("C11.R1.shard-call-sites", 3, n)
	_ = callgraph.Edge{}
}

func c11Mmap(p *an.Prog, r *an.R) {
	dataField := p.Field("index", "mmapedIndexFile", "data")
	read := p.Func("index", "(*mmapedIndexFile).Read")
	if !r.Anchor(dataField != nil && read != nil, "index.mmapedIndexFile.data / Read") {
		return
	}
	idx := p.Pkg("index")
	n := 0
	for _, f := range p.SSAFuncs() {
		if f.Pkg == nil || f.Pkg.Pkg != idx.Types {
			continue
		}
		an.Instrs(f, func(b *ssa.BasicBlock, in ssa.Instruction) {
			sl, ok := in.(*ssa.Slice)
			if !ok {
				return
			}
			u, ok := sl.X.(*ssa.UnOp)
			if !ok {
				return
			}
			fa, ok := u.X.(*ssa.FieldAddr)
			if !ok {
				return
			}
			st := an.Deref(fa.X.Type()).Underlying().(*types.Struct)
			if st.Field(fa.Field) != dataField {
				return
			}
			n++
			fname := an.SSAName(f)
			r.Fn(fname)
			if f.Object() != types.Object(read) {
				r.Bad("C11.R2", fname+"/slices-mmap-data", in.Pos(), "the memory-mapped file is sliced outside mmapedIndexFile.Read: offsets from a corrupt file reach the mapping without the bounds test (SIGBUS/SIGSEGV cannot be recovered)")
				return
			}
			// guarded: both bound operands compared; use the fact engine: some comparison involving Low/High operands holds on all paths
			eng := &an.FactEngine{Fn: f, Track: func(k an.FKey) bool { return k.Op.String() == "<" }}
			bad, paths := 0, 0
			decided := eng.AtBlock(b, func(fs an.Facts) {
				paths++
				// either the overflow test and the length test (two comparisons), or a
				// single comparison whose sum is computed in 64 bits
				wide := false
				for k := range fs {
					for _, v := range []ssa.Value{k.X, k.Y} {
						if bo, ok := v.(*ssa.BinOp); ok && bo.Op.String() == "+" {
							_, cx := bo.X.(*ssa.Convert)
							_, cy := bo.Y.(*ssa.Convert)
							if sz := p.Roots[0].TypesSizes.Sizeof(bo.Type()); cx && cy && sz == 8 {
								wide = true
							}
						}
					}
				}
				if len(fs) < 2 && !wide {
					bad++
				}
			})
			r.Check(decided && bad == 0 && paths > 0, "C11.R2", fname+"/slice-guarded-by-bounds-test", in.Pos(), "the slice of the mapping is reached only through both comparisons of the bounds test", "the slice of the memory-mapped file is reachable without the bounds test (overflow check and length check)")
		})
	}
	r.Floor("C11.R2.mmap-slices", 1, n)
}
