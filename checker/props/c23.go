package props

import (
	"go/ast"
	"go/token"
	"go/types"
	"strings"

	"golang.org/x/tools/go/ssa"

	"zverif/checker/an"
)

func init() { register("C23", c23) }

func c23(p *an.Prog, r *an.R, tier string) {
	r.Explanation = "C23 (structural clauses): in indexData.Search and indexData.List every write of repository-derived data into the result (file matches, RepoURLs/LineFragments, repository list entries and map, per-repository statistics) is reached only on paths on which tenant.HasAccess(requestCtx, thatRepository.TenantID) returned true; HasAccess returns true unconditionally only when enforcement is off or the context is the system tenant; results obtained under systemtenant.WithUnsafeContext are not handed to a client. Premise checked: every writer of indexData.repoListEntry adds exactly one entry per element of repoMetaData, in order. Does NOT decide that query rewriting respects tenancy, nor the wire layer."
	r.Rule("C23.R2", "tenant.HasAccess, evaluated abstractly over all 16 combinations of (enforcement on, system-tenant context, tenant present in context, tenant id equals repository tenant id), equals: !enforcement || systemTenant || (tenantPresent && idEqual)")
	r.Rule("C23.R2", "tenant.HasAccess returns constant true only under !enforceTenant() or systemtenant.Is(ctx); every other return is false or the tenant-id comparison")
	r.Rule("C23.R3", "every non-test use of systemtenant.WithUnsafeContext is inventoried; the result of a search/list made under it is neither returned, passed on, nor are its tenant-data fields read (exceptions listed)")
	c23Guards(p, r, "C23.R1", []string{"tenant.HasAccess"})
	c23HasAccess(p, r)
	c23Unsafe(p, r)
}

// c23Guards is shared with C17: which selects the facts required.
func c23Guards(p *an.Prog, r *an.R, rule string, which []string) {
	hasAccess := p.Func("internal/tenant", "HasAccess")
	if !r.Anchor(hasAccess != nil, "internal/tenant.HasAccess") {
		return
	}
	conseq := map[string]string{
		"tenant.HasAccess": "another tenant's repository data reaches the result",
		"Tombstone":        "a tombstoned repository's data reaches the result",
		"FileTombstones":   "a file whose path is tombstoned for its repository is returned",
	}
	c23Aligned(p, r, rule)
	total := 0
	for _, spec := range []struct {
		fn     string
		result *types.Named
		min    int
	}{
		{"(*indexData).Search", p.Named("", "SearchResult"), 2},
		{"(*indexData).List", p.Named("", "RepoList"), 2},
	} {
		f := p.SSAFunc(p.Func("index", spec.fn))
		if !r.Anchor(f != nil && spec.result != nil, "index."+spec.fn) {
			continue
		}
		r.Fn(an.SSAName(f))
		g := newGuardCtx(p, f)
		var ctxParam ssa.Value
		for _, prm := range f.Params {
			if prm.Type().String() == "context.Context" {
				ctxParam = prm
			}
		}
		var facts []guardFact
		for _, w := range which {
			switch w {
			case "tenant.HasAccess":
				facts = append(facts, factHasAccess(hasAccess, ctxParam))
			case "Tombstone":
				facts = append(facts, factField("Tombstone", false))
			case "FileTombstones":
				ff := factFileTombstones()
				ff.only = func(s guardSink) bool { return s.what == "store SearchResult.Files" }
				facts = append(facts, ff)
			}
		}
		sinks := g.resultSinks(spec.result)
		r.Floor(rule+"."+spec.fn+".sinks", spec.min, len(sinks))
		total += len(sinks)
		g.checkGuards(r, rule, sinks, facts, conseq)
	}
	r.Extra[rule+".sinks"] = total
}

func c23HasAccess(p *an.Prog, r *an.R) {
	f := p.SSAFunc(p.Func("internal/tenant", "HasAccess"))
	if !r.Anchor(f != nil && f.Blocks != nil, "internal/tenant.HasAccess body") {
		return
	}
	r.Fn(an.SSAName(f))
	// HasAccess is a pure function of four conditions: enforcement on (E), system tenant context (S),
	// the context carries a tenant (T: FromContext's error is nil), and that tenant's id equals the
	// repository's (Q). Evaluate its body abstractly over the 16 combinations and compare with
	//   !E || S || (T && Q)
	d := p.Decl(p.Func("internal/tenant", "HasAccess"))
	if !r.Anchor(d != nil, "internal/tenant.HasAccess declaration") {
		return
	}
	info := d.Pkg.TypesInfo
	idParam := an.Param(info, d.Decl, 1)
	// the error variable of FromContext and the tenant value
	var errObj, tenObj types.Object
	ast.Inspect(d.Decl.Body, func(n ast.Node) bool {
		as, ok := n.(*ast.AssignStmt)
		if !ok || len(as.Lhs) != 2 || len(as.Rhs) != 1 {
			return true
		}
		if c, ok := ast.Unparen(as.Rhs[0]).(*ast.CallExpr); ok {
			if f := an.Callee(info, c); f != nil && f.Name() == "FromContext" {
				if id, ok := as.Lhs[0].(*ast.Ident); ok {
					tenObj = info.ObjectOf(id)
				}
				if id, ok := as.Lhs[1].(*ast.Ident); ok {
					errObj = info.ObjectOf(id)
				}
			}
		}
		return true
	})
	atom := func(e ast.Expr) (string, bool, bool) {
		switch x := ast.Unparen(e).(type) {
		case *ast.CallExpr:
			if f := an.Callee(info, x); f != nil && f.Pkg() != nil {
				if f.Name() == "enforceTenant" && strings.HasSuffix(f.Pkg().Path(), "internal/tenant") {
					return "E", false, true
				}
				if f.Name() == "Is" && strings.HasSuffix(f.Pkg().Path(), "systemtenant") {
					return "S", false, true
				}
			}
		case *ast.BinaryExpr:
			if x.Op != token.EQL && x.Op != token.NEQ {
				return "", false, false
			}
			// err == nil / err != nil
			if errObj != nil && ((isIdentOf(info, x.X, errObj) && info.Types[x.Y].IsNil()) || (isIdentOf(info, x.Y, errObj) && info.Types[x.X].IsNil())) {
				return "T", x.Op == token.NEQ, true
			}
			// t.ID() == id
			isID := func(e ast.Expr) bool { return isIdentOf(info, e, idParam) }
			isTenantID := func(e ast.Expr) bool {
				c, ok := ast.Unparen(e).(*ast.CallExpr)
				if !ok {
					return false
				}
				se, ok := ast.Unparen(c.Fun).(*ast.SelectorExpr)
				return ok && se.Sel.Name == "ID" && tenObj != nil && isIdentOf(info, se.X, tenObj)
			}
			if (isID(x.X) && isTenantID(x.Y)) || (isID(x.Y) && isTenantID(x.X)) {
				return "Q", x.Op == token.NEQ, true
			}
		}
		return "", false, false
	}
	res, why := an.BoolEval(info, d.Decl.Body, []string{"E", "S", "T", "Q"}, atom)
	key := "internal/tenant.HasAccess/grants-access-exactly-when-allowed"
	if why != "" {
		r.Und("C23.R2", key, d.Decl.Pos(), "HasAccess uses a construct outside the boolean fragment ("+why+"): abstract evaluation over the 16 combinations is not possible")
		return
	}
	wrong := ""
	for w, got := range res {
		e, s2, t, q := strings.Contains(w, "E=1"), strings.Contains(w, "S=1"), strings.Contains(w, "T=1"), strings.Contains(w, "Q=1")
		want := !e || s2 || (t && q)
		// when the context carries no tenant (T=0) the id comparison is meaningless: both values of Q describe the same situation
		if got != want && (wrong == "" || w < wrong) {
			wrong = w
		}
	}
	r.Extra["C23.R2.cases_evaluated"] = len(res)
	r.Check(wrong == "", "C23.R2", key, d.Decl.Pos(), "abstract evaluation over all 16 combinations of (enforcement, system tenant, tenant in context, id equal) agrees with !E || S || (T && Q)",
		"HasAccess disagrees with `enforcement off, or system-tenant context, or the context's tenant id equals the repository's` for "+wrong+": every tenant check in the searcher is wrong in that situation")
}

// c23Unsafe: uses of systemtenant.WithUnsafeContext.
func c23Unsafe(p *an.Prog, r *an.R) {
	wuc := p.Func("internal/tenant/systemtenant", "WithUnsafeContext")
	if !r.Anchor(wuc != nil, "systemtenant.WithUnsafeContext") {
		return
	}
	// inventory: function -> (tenant-data fields it may read, reason)
	type allow struct {
		fields map[string]bool
		why    string
	}
	inventory := map[string]allow{
		"search.mkRankedShard":       {map[string]bool{"Repos": true}, "caches the shard's repository list for selectRepoSet (shard pre-selection); not request specific, read only by the searcher itself"},
		"web.(*Server).serveHealthz": {map[string]bool{}, "health probe: may only report statistics of the probe search"},
	}
	tenantData := map[string]bool{"Files": true, "RepoURLs": true, "LineFragments": true, "Repos": true, "ReposMap": true}
	uses := 0
	for _, f := range p.SSAFuncs() {
		an.Instrs(f, func(b *ssa.BasicBlock, in ssa.Instruction) {
			c, ok := in.(*ssa.Call)
			if !ok || an.StaticCallee(c) != wuc {
				return
			}
			uses++
			fname := an.SSAName(f)
			r.Fn(fname)
			al, listed := inventory[fname]
			if !r.Check(listed, "C23.R3", fname+"/uses-WithUnsafeContext", c.Pos(), "inventoried use: "+al.why,
				"new use of systemtenant.WithUnsafeContext outside the confirmed inventory: a search made with it sees every tenant's repositories") {
				return
			}
			// results of invoke calls that take this context
			for _, ref := range *c.Referrers() {
				call, ok := ref.(*ssa.Call)
				if !ok {
					continue
				}
				var results []ssa.Value
				if tup, ok := call.Type().(*types.Tuple); ok {
					for _, r2 := range *call.Referrers() {
						if ex, ok := r2.(*ssa.Extract); ok {
							if _, isErr := tup.At(ex.Index).Type().Underlying().(*types.Interface); !isErr {
								results = append(results, ex)
							}
						}
					}
				} else {
					results = append(results, call)
				}
				for _, res := range results {
					c23Escape(r, fname, res, al.fields, tenantData)
				}
			}
		})
	}
	r.Floor("C23.R3.uses", 2, uses)
}

func c23Escape(r *an.R, fname string, res ssa.Value, allowed, tenantData map[string]bool) {
	seen := map[ssa.Value]bool{}
	var walk func(v ssa.Value, depth int)
	walk = func(v ssa.Value, depth int) {
		if seen[v] || depth > 6 || v.Referrers() == nil {
			return
		}
		seen[v] = true
		for _, ref := range *v.Referrers() {
			switch x := ref.(type) {
			case *ssa.Return:
				r.Bad("C23.R3", fname+"/unsafe-result/returned", x.Pos(), "a result obtained under the system-tenant context is returned to the caller")
			case *ssa.MakeInterface:
				r.Bad("C23.R3", fname+"/unsafe-result/converted-to-interface", x.Pos(), "a result obtained under the system-tenant context is converted to an interface value (e.g. handed to an encoder or a sender): every tenant's data reaches whoever consumes it")
			case ssa.CallInstruction:
				isArg := false
				for _, a := range x.Common().Args {
					if a == v {
						isArg = true
					}
				}
				if isArg {
					r.Bad("C23.R3", fname+"/unsafe-result/passed-to/"+calleeName(x), x.Pos(), "a result obtained under the system-tenant context is passed on to "+calleeName(x))
				}
			case *ssa.FieldAddr:
				st := an.Deref(x.X.Type()).Underlying().(*types.Struct)
				n := st.Field(x.Field).Name()
				if tenantData[n] {
					r.Check(allowed[n], "C23.R3", fname+"/unsafe-result/reads/"+n, x.Pos(), "inventoried read of "+n,
						"tenant-data field "+n+" of a result obtained under the system-tenant context is read here: it holds every tenant's repositories")
				}
			case *ssa.Field:
				st := x.X.Type().Underlying().(*types.Struct)
				n := st.Field(x.Field).Name()
				if tenantData[n] {
					r.Check(allowed[n], "C23.R3", fname+"/unsafe-result/reads/"+n, x.Pos(), "inventoried read of "+n,
						"tenant-data field "+n+" of a result obtained under the system-tenant context is read here")
				}
			case *ssa.UnOp:
				if x.Op == token.MUL {
					walk(x, depth+1) // struct copy
				}
			case *ssa.Phi:
				walk(x, depth+1)
			}
		}
	}
	walk(res, 0)
	r.OK("C23.R3", fname+"/unsafe-result/analysed", res.Pos(), "uses of the result were inspected")
}

// c23Aligned: the guards above take their facts from repoMetaData[i] and discharge writes of repoListEntry[i] with
// them; that is only right while entry i describes repository i. Every writer of indexData.repoListEntry must
// therefore add exactly one entry per element of repoMetaData, in order: an append (or an assignment at the loop's
// own index) that is a top-level statement of a `range <x>.repoMetaData` loop with no continue/break/goto ahead of
// it, the entry's Repository being that iteration's element.
func c23Aligned(p *an.Prog, r *an.R, rule string) {
	idT := p.Named("index", "indexData")
	if !r.Anchor(idT != nil, "index.indexData") {
		return
	}
	var rle, rmd *types.Var
	for _, f := range an.StructFields(idT) {
		switch f.Name() {
		case "repoListEntry":
			rle = f
		case "repoMetaData":
			rmd = f
		}
	}
	if !r.Anchor(rle != nil && rmd != nil, "indexData.repoListEntry / repoMetaData") {
		return
	}
	isField := func(info *types.Info, e ast.Expr, f *types.Var) bool {
		se, ok := ast.Unparen(e).(*ast.SelectorExpr)
		return ok && info.Selections[se] != nil && info.Selections[se].Obj() == f
	}
	writers := 0
	p.AllDecls(func(fn *types.Func, d *an.DeclInfo) {
		if d.Decl.Body == nil || fn.Pkg() == nil || fn.Pkg() != idT.Obj().Pkg() || strings.HasSuffix(p.Fset.Position(d.Decl.Pos()).Filename, "_test.go") {
			return
		}
		info := d.Pkg.TypesInfo
		key := an.FuncName(fn) + "/repoListEntry-aligned-with-repoMetaData"
		// all assignments whose left side is <x>.repoListEntry or <x>.repoListEntry[i]
		var grow []*ast.AssignStmt
		ast.Inspect(d.Decl.Body, func(n ast.Node) bool {
			as, ok := n.(*ast.AssignStmt)
			if !ok {
				return true
			}
			for i, lh := range as.Lhs {
				if isField(info, lh, rle) {
					// make(...) with length 0, or nil: an empty start
					if i < len(as.Rhs) {
						if c, ok := ast.Unparen(as.Rhs[i]).(*ast.CallExpr); ok && an.IsBuiltin(info, c, "make") {
							if len(c.Args) >= 2 {
								if tv := info.Types[c.Args[1]]; tv.Value != nil && tv.Value.String() == "0" {
									continue
								}
								// make([]T, len(<x>.repoMetaData)): filled by index below
								if lc, ok := ast.Unparen(c.Args[1]).(*ast.CallExpr); ok && an.IsBuiltin(info, lc, "len") && isField(info, lc.Args[0], rmd) {
									continue
								}
							}
						}
						if info.Types[as.Rhs[i]].IsNil() {
							continue
						}
					}
					grow = append(grow, as)
				} else if ix, ok := ast.Unparen(lh).(*ast.IndexExpr); ok && isField(info, ix.X, rle) {
					grow = append(grow, as)
				}
			}
			return true
		})
		if len(grow) == 0 {
			return
		}
		writers++
		// the range loops over repoMetaData of this function
		type loop struct {
			rs       *ast.RangeStmt
			key, val types.Object
		}
		var loops []loop
		ast.Inspect(d.Decl.Body, func(n ast.Node) bool {
			if rs, ok := n.(*ast.RangeStmt); ok && isField(info, rs.X, rmd) {
				l := loop{rs: rs}
				if id, ok := rs.Key.(*ast.Ident); ok {
					l.key = info.ObjectOf(id)
				}
				if id, ok := rs.Value.(*ast.Ident); ok {
					l.val = info.ObjectOf(id)
				}
				loops = append(loops, l)
			}
			return true
		})
		perLoop := map[*ast.RangeStmt]int{}
		for _, as := range grow {
			var in *loop
			topLevel := -1
			for li := range loops {
				for si, st := range loops[li].rs.Body.List {
					if st == ast.Stmt(as) {
						in, topLevel = &loops[li], si
					}
				}
			}
			if in == nil && len(loops) == 0 {
				// the append sits in a helper (`d.addListEntry(md, ..)`): it must be an unconditional top-level statement
				// there, and every call of the helper a top-level statement of a `range repoMetaData` loop with nothing
				// ahead of it that leaves the iteration, the element passed along
				topLevel := false
				for _, st := range d.Decl.Body.List {
					if st == ast.Stmt(as) {
						topLevel = true
					}
				}
				okCalls, nCalls := topLevel, 0
				p.AllDecls(func(cf *types.Func, cd *an.DeclInfo) {
					if cd.Pkg != d.Pkg || cd.Decl.Body == nil || cf == fn {
						return
					}
					ci := cd.Pkg.TypesInfo
					ast.Inspect(cd.Decl.Body, func(m ast.Node) bool {
						rs, ok := m.(*ast.RangeStmt)
						if !ok {
							return true
						}
						for si, st := range rs.Body.List {
							calls := an.CallsTo(ci, st, false, fn)
							if len(calls) == 0 {
								continue
							}
							nCalls++
							_, isExpr := st.(*ast.ExprStmt)
							_, isAssign := st.(*ast.AssignStmt)
							passesElem := false
							var valObj, keyObj types.Object
							if id, ok := rs.Value.(*ast.Ident); ok {
								valObj = ci.ObjectOf(id)
							}
							if id, ok := rs.Key.(*ast.Ident); ok {
								keyObj = ci.ObjectOf(id)
							}
							for _, a := range calls[0].Args {
								if (valObj != nil && an.UsesObj(ci, a, valObj)) || (keyObj != nil && an.UsesObj(ci, a, keyObj)) {
									passesElem = true
								}
							}
							if !isField(ci, rs.X, rmd) || !(isExpr || isAssign) || !passesElem {
								okCalls = false
							}
							for _, before := range rs.Body.List[:si] {
								if stmtLeavesIteration(before) {
									okCalls = false
								}
							}
						}
						return true
					})
					// calls outside any range loop
					total := len(an.CallsTo(ci, cd.Decl.Body, false, fn))
					inLoops := 0
					ast.Inspect(cd.Decl.Body, func(m ast.Node) bool {
						if rs, ok := m.(*ast.RangeStmt); ok {
							inLoops += len(an.CallsTo(ci, rs.Body, false, fn))
							return false
						}
						return true
					})
					if total != inLoops {
						okCalls = false
					}
				})
				if okCalls && nCalls > 0 {
					r.OK(rule, key, as.Pos(), "one entry per element of repoMetaData: the append is the helper's unconditional statement and the helper is called once per iteration of the loop over repoMetaData")
					continue
				}
			}
			if in == nil {
				r.Bad(rule, key, as.Pos(), "indexData.repoListEntry is written outside a `range repoMetaData` loop, or conditionally inside one: entry i may no longer describe repository i, while Search/List take the tombstone flag and the tenant of repoMetaData[i] to decide about repoListEntry[i] - another repository's entry is handed out")
				continue
			}
			perLoop[in.rs]++
			// no way to the next iteration that bypasses the write
			bypass := false
			for _, st := range in.rs.Body.List[:topLevel] {
				depth := 0
				var walk func(n ast.Node)
				walk = func(n ast.Node) {
					ast.Inspect(n, func(m ast.Node) bool {
						switch x := m.(type) {
						case *ast.FuncLit:
							return false
						case *ast.ForStmt, *ast.RangeStmt:
							if m != n {
								depth++
								walk(m)
								depth--
								return false
							}
						case *ast.BranchStmt:
							if x.Tok == token.GOTO || x.Label != nil || (depth == 0 && (x.Tok == token.CONTINUE || x.Tok == token.BREAK)) {
								// break inside a switch/select of the body leaves only that statement; be exact about it
								if x.Tok == token.BREAK && x.Label == nil && inSwitch(st, x) {
									return true
								}
								bypass = true
							}
						}
						return true
					})
				}
				walk(st)
			}
			// the element appended / assigned describes this iteration's repository
			okElem := false
			var elem ast.Expr
			if ix, ok := ast.Unparen(as.Lhs[0]).(*ast.IndexExpr); ok {
				if id, ok := ast.Unparen(ix.Index).(*ast.Ident); ok && info.ObjectOf(id) == in.key && len(as.Rhs) == 1 {
					elem = as.Rhs[0]
				}
			} else if len(as.Rhs) == 1 {
				if c, ok := ast.Unparen(as.Rhs[0]).(*ast.CallExpr); ok && an.IsBuiltin(info, c, "append") && len(c.Args) == 2 && isField(info, c.Args[0], rle) {
					elem = c.Args[1]
				}
			}
			if elem != nil {
				// `var entry RepoListEntry; entry.Repository = md; ...; append(.., entry)`: filled field by field
				if eid, ok := ast.Unparen(elem).(*ast.Ident); ok {
					eobj := info.ObjectOf(eid)
					ast.Inspect(in.rs.Body, func(m ast.Node) bool {
						a2, ok := m.(*ast.AssignStmt)
						if !ok || len(a2.Lhs) != len(a2.Rhs) {
							return true
						}
						for i, lh := range a2.Lhs {
							se, ok := ast.Unparen(lh).(*ast.SelectorExpr)
							if !ok || se.Sel.Name != "Repository" || !isIdentOf(info, se.X, eobj) {
								continue
							}
							if id, ok := ast.Unparen(a2.Rhs[i]).(*ast.Ident); ok && in.val != nil && info.ObjectOf(id) == in.val {
								okElem = true
							}
						}
						return true
					})
				}
				if dd := defOf(info, d.Decl.Body, elem); dd != nil {
					elem = dd
				}
				if cl, ok := ast.Unparen(elem).(*ast.CompositeLit); ok {
					if v := litField(cl, "Repository"); v != nil {
						if id, ok := ast.Unparen(v).(*ast.Ident); ok && in.val != nil && info.ObjectOf(id) == in.val {
							okElem = true
						}
						if ix, ok := ast.Unparen(v).(*ast.IndexExpr); ok && isField(info, ix.X, rmd) {
							if id, ok := ast.Unparen(ix.Index).(*ast.Ident); ok && info.ObjectOf(id) == in.key {
								okElem = true
							}
						}
					}
				}
			}
			switch {
			case bypass:
				r.Bad(rule, key, as.Pos(), "an iteration of the loop over repoMetaData can go on to the next repository (continue/break) without adding its repoListEntry: later entries shift, entry i no longer describes repository i, and Search/List - which test repoMetaData[i] to decide about repoListEntry[i] - hand out another repository's entry")
			case !okElem:
				r.Und(rule, key, as.Pos(), "the entry written to repoListEntry is not recognisably built from this iteration's repoMetaData element (Repository: <range value>)")
			default:
				r.OK(rule, key, as.Pos(), "one entry per element of repoMetaData, in order, built from that element")
			}
		}
		for rs, n := range perLoop {
			if n > 1 {
				r.Bad(rule, key+"/once-per-iteration", rs.Pos(), "more than one entry is added to repoListEntry per element of repoMetaData: the arrays are no longer index-aligned")
			}
		}
	})
	r.Floor(rule+".repoListEntry-writers", 1, writers)
}

// inSwitch: the unlabeled break b sits inside a switch/select nested in st (and so leaves only that statement)
func inSwitch(st ast.Stmt, b *ast.BranchStmt) bool {
	found := false
	var walk func(n ast.Node, in bool)
	walk = func(n ast.Node, in bool) {
		ast.Inspect(n, func(m ast.Node) bool {
			switch m.(type) {
			case *ast.SwitchStmt, *ast.TypeSwitchStmt, *ast.SelectStmt:
				if m != n {
					walk(m, true)
					return false
				}
			}
			if m == ast.Node(b) && in {
				found = true
			}
			return true
		})
	}
	walk(st, false)
	return found
}
