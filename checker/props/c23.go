package props

import (
	"fmt"
	"go/token"
	"go/types"
	"strings"

	"golang.org/x/tools/go/ssa"

	"zverif/checker/an"
)

func init() { register("C23", c23) }

func c23(p *an.Prog, r *an.R, tier string) {
	r.Explanation = "C23 (structural clauses): in indexData.Search and indexData.List every write of repository-derived data into the result (file matches, RepoURLs/LineFragments, repository list entries and map, per-repository statistics) is reached only on paths on which tenant.HasAccess(requestCtx, thatRepository.TenantID) returned true; HasAccess returns true unconditionally only when enforcement is off or the context is the system tenant; results obtained under systemtenant.WithUnsafeContext are not handed to a client. Does NOT decide that query rewriting respects tenancy, nor the wire layer."
	r.Rule("C23.R1", "every result sink in indexData.Search/List with repository-derived data is guarded on all feasible paths by HasAccess(ctx, repo.TenantID)==true for the same repository index (path-sensitive must-fact analysis over SSA)")
	r.Rule("C23.R2", "tenant.HasAccess returns constant true only under !enforceTenant() or systemtenant.Is(ctx); every other return is false or the tenant-id comparison")
	r.Rule("C23.R3", "every non-test use of systemtenant.WithUnsafeContext is inventoried; the result of a search/list made under it is neither returned, passed on, nor are its tenant-data fields read (exceptions listed)")
	c23Guards(p, r, "C23.R1", []string{"tenant.HasAccess"})
	c23HasAccess(p, r)
	c23Unsafe(p, r)
}

// c23Guards is shared with C17: which selects the facts required.
func c23Guards(p *an.Prog, r *an.R, rule string, which []string) {
	hasAccess := p.Func("internal/tenant", "HasAccess")
	if !r.Anchor(hasAccess != nil, "internal/tenant.HasAccess") {
		return
	}
	conseq := map[string]string{
		"tenant.HasAccess": "another tenant's repository data reaches the result",
		"Tombstone":        "a tombstoned repository's data reaches the result",
		"FileTombstones":   "a file whose path is tombstoned for its repository is returned",
	}
	total := 0
	for _, spec := range []struct {
		fn     string
		result *types.Named
		min    int
	}{
		{"(*indexData).Search", p.Named("", "SearchResult"), 3},
		{"(*indexData).List", p.Named("", "RepoList"), 3},
	} {
		f := p.SSAFunc(p.Func("index", spec.fn))
		if !r.Anchor(f != nil && spec.result != nil, "index."+spec.fn) {
			continue
		}
		r.Fn(an.SSAName(f))
		g := newGuardCtx(p, f)
		var ctxParam ssa.Value
		for _, prm := range f.Params {
			if prm.Type().String() == "context.Context" {
				ctxParam = prm
			}
		}
		var facts []guardFact
		for _, w := range which {
			switch w {
			case "tenant.HasAccess":
				facts = append(facts, factHasAccess(hasAccess, ctxParam))
			case "Tombstone":
				facts = append(facts, factField("Tombstone", false))
			case "FileTombstones":
				ff := factFileTombstones()
				ff.only = func(s guardSink) bool { return s.what == "store SearchResult.Files" }
				facts = append(facts, ff)
			}
		}
		sinks := g.resultSinks(spec.result)
		r.Floor(rule+"."+spec.fn+".sinks", spec.min, len(sinks))
		total += len(sinks)
		g.checkGuards(r, rule, sinks, facts, conseq)
	}
	r.Extra[rule+".sinks"] = total
}

func c23HasAccess(p *an.Prog, r *an.R) {
	f := p.SSAFunc(p.Func("internal/tenant", "HasAccess"))
	if !r.Anchor(f != nil && f.Blocks != nil, "internal/tenant.HasAccess body") {
		return
	}
	r.Fn(an.SSAName(f))
	isCallTo := func(v ssa.Value, pkgSuffix, name string) bool {
		c, ok := v.(*ssa.Call)
		if !ok {
			return false
		}
		cal := an.StaticCallee(c)
		return cal != nil && cal.Name() == name && strings.HasSuffix(cal.Pkg().Path(), pkgSuffix)
	}
	eng := &an.FactEngine{Fn: f, Track: func(k an.FKey) bool { return k.Op == token.ILLEGAL }}
	n := 0
	an.Instrs(f, func(b *ssa.BasicBlock, in ssa.Instruction) {
		ret, ok := in.(*ssa.Return)
		if !ok || len(ret.Results) != 1 {
			return
		}
		n++
		key := fmt.Sprintf("internal/tenant.HasAccess/return#%d", n)
		switch v := ret.Results[0].(type) {
		case *ssa.Const:
			if v.Value == nil || v.Value.String() != "true" {
				r.OK("C23.R2", key, ret.Pos(), "returns false")
				return
			}
			bad := 0
			decided := eng.AtBlock(b, func(fs an.Facts) {
				ok := false
				for k, val := range fs {
					if isCallTo(k.X, "internal/tenant", "enforceTenant") && !val {
						ok = true
					}
					if isCallTo(k.X, "systemtenant", "Is") && val {
						ok = true
					}
				}
				if !ok {
					bad++
				}
			})
			if !decided {
				r.Und("C23.R2", key, ret.Pos(), "path bound exceeded")
				return
			}
			r.Check(bad == 0, "C23.R2", key, ret.Pos(), "`return true` only under enforcement-off or system-tenant context",
				"HasAccess can return true without enforcement being off or the context being the system tenant: every tenant check in the searcher is void on that path")
		case *ssa.BinOp:
			// t.ID() == id
			okCmp := v.Op == token.EQL
			usesParam := false
			for _, op := range []ssa.Value{v.X, v.Y} {
				if prm, ok := op.(*ssa.Parameter); ok && prm.Name() == f.Params[1].Name() {
					usesParam = true
				}
			}
			r.Check(okCmp && usesParam, "C23.R2", key, ret.Pos(), "returns the comparison of the context's tenant id with the repository's tenant id",
				"the final return of HasAccess is not `tenantID == id`")
		default:
			r.Bad("C23.R2", key, ret.Pos(), "HasAccess returns a value that is neither a constant nor the tenant-id comparison")
		}
	})
	r.Floor("C23.R2.returns", 4, n)
}

// c23Unsafe: uses of systemtenant.WithUnsafeContext.
func c23Unsafe(p *an.Prog, r *an.R) {
	wuc := p.Func("internal/tenant/systemtenant", "WithUnsafeContext")
	if !r.Anchor(wuc != nil, "systemtenant.WithUnsafeContext") {
		return
	}
	// inventory: function -> (tenant-data fields it may read, reason)
	type allow struct {
		fields map[string]bool
		why    string
	}
	inventory := map[string]allow{
		"search.mkRankedShard":       {map[string]bool{"Repos": true}, "caches the shard's repository list for selectRepoSet (shard pre-selection); not request specific, read only by the searcher itself"},
		"web.(*Server).serveHealthz": {map[string]bool{}, "health probe: may only report statistics of the probe search"},
	}
	tenantData := map[string]bool{"Files": true, "RepoURLs": true, "LineFragments": true, "Repos": true, "ReposMap": true}
	uses := 0
	for _, f := range p.SSAFuncs() {
		an.Instrs(f, func(b *ssa.BasicBlock, in ssa.Instruction) {
			c, ok := in.(*ssa.Call)
			if !ok || an.StaticCallee(c) != wuc {
				return
			}
			uses++
			fname := an.SSAName(f)
			r.Fn(fname)
			al, listed := inventory[fname]
			if !r.Check(listed, "C23.R3", fname+"/uses-WithUnsafeContext", c.Pos(), "inventoried use: "+al.why,
				"new use of systemtenant.WithUnsafeContext outside the confirmed inventory: a search made with it sees every tenant's repositories") {
				return
			}
			// results of invoke calls that take this context
			for _, ref := range *c.Referrers() {
				call, ok := ref.(*ssa.Call)
				if !ok {
					continue
				}
				var results []ssa.Value
				if tup, ok := call.Type().(*types.Tuple); ok {
					for _, r2 := range *call.Referrers() {
						if ex, ok := r2.(*ssa.Extract); ok {
							if _, isErr := tup.At(ex.Index).Type().Underlying().(*types.Interface); !isErr {
								results = append(results, ex)
							}
						}
					}
				} else {
					results = append(results, call)
				}
				for _, res := range results {
					c23Escape(r, fname, res, al.fields, tenantData)
				}
			}
		})
	}
	r.Floor("C23.R3.uses", 2, uses)
}

func c23Escape(r *an.R, fname string, res ssa.Value, allowed, tenantData map[string]bool) {
	seen := map[ssa.Value]bool{}
	var walk func(v ssa.Value, depth int)
	walk = func(v ssa.Value, depth int) {
		if seen[v] || depth > 6 || v.Referrers() == nil {
			return
		}
		seen[v] = true
		for _, ref := range *v.Referrers() {
			switch x := ref.(type) {
			case *ssa.Return:
				r.Bad("C23.R3", fname+"/unsafe-result/returned", x.Pos(), "a result obtained under the system-tenant context is returned to the caller")
			case *ssa.MakeInterface:
				r.Bad("C23.R3", fname+"/unsafe-result/converted-to-interface", x.Pos(), "a result obtained under the system-tenant context is converted to an interface value (e.g. handed to an encoder or a sender): every tenant's data reaches whoever consumes it")
			case ssa.CallInstruction:
				isArg := false
				for _, a := range x.Common().Args {
					if a == v {
						isArg = true
					}
				}
				if isArg {
					r.Bad("C23.R3", fname+"/unsafe-result/passed-to/"+calleeName(x), x.Pos(), "a result obtained under the system-tenant context is passed on to "+calleeName(x))
				}
			case *ssa.FieldAddr:
				st := an.Deref(x.X.Type()).Underlying().(*types.Struct)
				n := st.Field(x.Field).Name()
				if tenantData[n] {
					r.Check(allowed[n], "C23.R3", fname+"/unsafe-result/reads/"+n, x.Pos(), "inventoried read of "+n,
						"tenant-data field "+n+" of a result obtained under the system-tenant context is read here: it holds every tenant's repositories")
				}
			case *ssa.Field:
				st := x.X.Type().Underlying().(*types.Struct)
				n := st.Field(x.Field).Name()
				if tenantData[n] {
					r.Check(allowed[n], "C23.R3", fname+"/unsafe-result/reads/"+n, x.Pos(), "inventoried read of "+n,
						"tenant-data field "+n+" of a result obtained under the system-tenant context is read here")
				}
			case *ssa.UnOp:
				if x.Op == token.MUL {
					walk(x, depth+1) // struct copy
				}
			case *ssa.Phi:
				walk(x, depth+1)
			}
		}
	}
	walk(res, 0)
	r.OK("C23.R3", fname+"/unsafe-result/analysed", res.Pos(), "uses of the result were inspected")
}
