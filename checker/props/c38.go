package props

import (
	"fmt"
	"go/ast"
	"go/types"
	"sort"

	"golang.org/x/tools/go/callgraph"
	"golang.org/x/tools/go/ssa"

	"zverif/checker/an"
)

func init() { register("C38", c38) }

// fields of index.Options that the ingestion path reads but that do not change
// which content or symbols get indexed
var c38LayoutOnly = map[string]string{
	"IndexDir":                "where shards are written (shard names), not what is in them",
	"ShardPrefixOverride":     "shard file naming only",
	"Parallelism":             "number of concurrent shard builds; C10 covers independence of results from it",
	"ShardMax":                "shard size limit; content is only partitioned differently (C10)",
	"IsDelta":                 "build mode; delta builds compare the option hash themselves in Finish",
	"changedOrRemovedFiles":   "delta bookkeeping derived from the commit diff, not an option of the index",
	"ShardMerging":            "how old shards are retired (tombstone vs delete)",
	"HeapProfileTriggerBytes": "diagnostics only",
	"RepositoryDescription":   "compared separately by IndexState (branches with DeepEqual, mutable metadata with MergeMutable)",
	"SubRepositories":         "repository metadata of sub-repositories, stored in RepositoryDescription.SubRepoMap and compared with it",
}

func c38(p *an.Prog, r *an.R, tier string) {
	r.Explanation = "C38 (structural clauses): option-hash completeness. Every field of index.Options that is read on the ingestion path (the code reachable from Builder.Add/AddFile/buildShard/NewBuilder/newShardBuilder that decides which content and symbols are indexed) and is not in the layout-only table is read by HashOptions(); HashOptions() fills every field of the HashOptions struct and GetHash feeds every one of them to the hasher; IndexState can answer 'equal' or 'metadata only' only after the stored option hash was compared with GetHash() and the stored branches were compared with the requested ones; MergeMutable refuses changes of ID, Name and Branches. Does NOT decide which metadata changes are 'metadata-only' semantically, nor the correctness of a custom branch comparator."
	r.Rule("C38.R1", "fields(index.Options) read on the ingestion slice \\ layout-only table ⊆ fields read by Options.HashOptions")
	r.Rule("C38.R2", "HashOptions() sets every field of HashOptions; GetHash passes every field of HashOptions to the hasher")
	r.Rule("C38.R3", "IndexState returns IndexStateEqual/IndexStateMeta only on paths where IndexOptions was compared (equal) with GetHash() and the Branches of the stored and requested repository were compared; MergeMutable returns an error when ID, Name or Branches differ")
	optsT := p.Named("index", "Options")
	hashT := p.Named("index", "HashOptions")
	hashFn := p.Func("index", "(*Options).HashOptions")
	getHash := p.Func("index", "(*Options).GetHash")
	if !r.Anchor(optsT != nil && hashT != nil && hashFn != nil && getHash != nil, "index.Options / HashOptions / GetHash") {
		return
	}
	// ---- ingestion slice
	var roots []*ssa.Function
	for _, n := range []string{"(*Builder).Add", "(*Builder).AddFile", "(*Builder).buildShard", "NewBuilder", "newShardBuilder", "(*Builder).flush"} {
		f := p.SSAFunc(p.Func("index", n))
		if !r.Anchor(f != nil, "index."+n) {
			return
		}
		roots = append(roots, f)
	}
	reached := an.ReachFuncs(p.VTA(), roots, func(e *callgraph.Edge) bool {
		c := e.Callee.Func
		return c.Pkg != nil && an.InModule(c.Pkg.Pkg) && c.Blocks != nil
	})
	r.Floor("C38.R1.ingestion-functions", 60, len(reached))
	readOn := map[string]string{} // field -> first function reading it
	var fns []*ssa.Function
	for f := range reached {
		fns = append(fns, f)
	}
	sort.Slice(fns, func(i, j int) bool { return an.SSAName(fns[i]) < an.SSAName(fns[j]) })
	skipFn := map[string]bool{"index.(*Options).HashOptions": true, "index.(*Options).GetHash": true}
	for _, f := range fns {
		if skipFn[an.SSAName(f)] {
			continue
		}
		an.Instrs(f, func(b *ssa.BasicBlock, in ssa.Instruction) {
			name := ""
			switch x := in.(type) {
			case *ssa.FieldAddr:
				if an.NamedOf(x.X.Type()) == optsT {
					// only reads: the address is loaded from (not merely stored to)
					isRead := false
					for _, ref := range *x.Referrers() {
						if st, ok := ref.(*ssa.Store); ok && st.Addr == x {
							continue
						}
						isRead = true
					}
					if isRead {
						name = an.StructFields(optsT)[x.Field].Name()
					}
				}
			case *ssa.Field:
				if an.NamedOf(x.X.Type()) == optsT {
					name = an.StructFields(optsT)[x.Field].Name()
				}
			}
			if name != "" {
				if _, ok := readOn[name]; !ok {
					readOn[name] = an.SSAName(f)
				}
			}
		})
	}
	hd := p.Decl(hashFn)
	hu := an.FieldUses(hd.Pkg.TypesInfo, hd.Decl.Body, optsT)
	r.Fn(an.FuncName(hashFn))
	var names []string
	for n := range readOn {
		names = append(names, n)
	}
	sort.Strings(names)
	r.Floor("C38.R1.option-fields-read-on-ingestion", 10, len(names))
	for _, n := range names {
		key := "index.Options." + n + "/hashed-or-layout-only"
		if _, ok := hu.Read[n]; ok {
			r.OK("C38.R1", key, hu.Read[n], "read by HashOptions (part of the option hash)")
			continue
		}
		if why, ok := c38LayoutOnly[n]; ok {
			r.OK("C38.R1", key, hd.Decl.Pos(), "layout-only: "+why)
			r.Except("index.Options."+n, why)
			continue
		}
		r.Bad("C38.R1", "index.Options."+n+"/not-in-option-hash", hd.Decl.Pos(),
			fmt.Sprintf("Options.%s is read on the ingestion path (first in %s) but is not part of HashOptions: changing it changes what gets indexed while IndexState still answers 'equal', so incremental indexing skips the repository", n, readOn[n]))
	}
	// ---- R2
	hh := an.FieldUses(hd.Pkg.TypesInfo, hd.Decl.Body, hashT)
	gd := p.Decl(getHash)
	gu := an.FieldUses(gd.Pkg.TypesInfo, gd.Decl.Body, hashT)
	r.Fn(an.FuncName(getHash))
	for _, f := range an.StructFields(hashT) {
		_, set := hh.Written[f.Name()]
		r.Check(set || hh.AllSet, "C38.R2", "index.(*Options).HashOptions/sets/"+f.Name(), hd.Decl.Pos(), "field is filled from the options", "HashOptions() leaves HashOptions."+f.Name()+" at its zero value: the option never influences the hash")
		// fed to the hasher: read inside an argument of a Write call on the hasher
		fed := false
		// GetHash's own body and the bodies of the same-package functions it calls (a digest helper)
		hashBodies := []ast.Node{gd.Decl.Body}
		ast.Inspect(gd.Decl.Body, func(n ast.Node) bool {
			if c, ok := n.(*ast.CallExpr); ok {
				if hf := an.Callee(gd.Pkg.TypesInfo, c); hf != nil && hf.Pkg() == getHash.Pkg() {
					if hfd := p.Decl(hf); hfd != nil && hfd.Decl.Body != nil && hf.Name() != "HashOptions" {
						hashBodies = append(hashBodies, hfd.Decl.Body)
					}
				}
			}
			return true
		})
		for _, hb := range hashBodies {
			ast.Inspect(hb, func(n ast.Node) bool {
				c, ok := n.(*ast.CallExpr)
				if !ok {
					return true
				}
				se, ok := ast.Unparen(c.Fun).(*ast.SelectorExpr)
				if !ok || se.Sel.Name != "Write" {
					return true
				}
				for _, a := range c.Args {
					ast.Inspect(a, func(m ast.Node) bool {
						if s2, ok := m.(*ast.SelectorExpr); ok && s2.Sel.Name == f.Name() {
							if sel := gd.Pkg.TypesInfo.Selections[s2]; sel != nil && sel.Obj() == f {
								fed = true
							}
						}
						return true
					})
				}
				return true
			})
		}
		_ = gu
		r.Check(fed, "C38.R2", "index.(*Options).GetHash/hashes/"+f.Name(), gd.Decl.Pos(), "field is written to the hasher", "GetHash never writes HashOptions."+f.Name()+" to the hasher: changing that option leaves the hash unchanged")
	}
	r.Floor("C38.R2.hash-fields", 5, len(an.StructFields(hashT)))
	// order/multiplicity of list-valued options is significant (LargeFiles: the
	// last matching pattern wins), so nothing on the way into the hash may sort
	// or de-duplicate
	lossy := 0
	for _, hf := range []*types.Func{hashFn, getHash} {
		seen := map[*types.Func]bool{}
		var walk func(fn *types.Func, depth int)
		walk = func(fn *types.Func, depth int) {
			d := p.Decl(fn)
			if d == nil || d.Decl.Body == nil || seen[fn] || depth > 2 {
				return
			}
			seen[fn] = true
			ast.Inspect(d.Decl.Body, func(n ast.Node) bool {
				c, ok := n.(*ast.CallExpr)
				if !ok {
					return true
				}
				cal := an.Callee(d.Pkg.TypesInfo, c)
				if cal == nil || cal.Pkg() == nil {
					return true
				}
				pk := cal.Pkg().Path()
				if (pk == "sort" || pk == "slices" || pk == "maps") && (len(cal.Name()) >= 4 && (cal.Name()[:4] == "Sort" || cal.Name() == "Strings" || cal.Name() == "Slice" || cal.Name() == "Compact" || cal.Name() == "CompactFunc" || cal.Name() == "Stable")) {
					lossy++
					r.Bad("C38.R2", an.FuncName(hf)+"/order-losing-canonicalisation/"+pk+"."+cal.Name(), c.Pos(), "an option value is sorted/de-duplicated on its way into the option hash, but the order of list-valued options is significant (LargeFiles: the last matching pattern wins, '!' negates): two option sets that index different content get the same hash")
				}
				if an.InModule(cal.Pkg()) {
					walk(cal, depth+1)
				}
				return true
			})
		}
		walk(hf, 0)
	}
	if lossy == 0 {
		r.OK("C38.R2", "index.(*Options).HashOptions/no-order-losing-canonicalisation", hd.Decl.Pos(), "option values reach the hasher without being sorted or de-duplicated")
	}
	c38IndexState(p, r, getHash)
}

func c38IndexState(p *an.Prog, r *an.R, getHash *types.Func) {
	f := p.Func("index", "(*Options).IndexState")
	d := p.Decl(f)
	if !r.Anchor(d != nil, "index.(*Options).IndexState") {
		return
	}
	r.Fn(an.FuncName(f))
	info := d.Pkg.TypesInfo
	_ = an.NewG
	idxOpts := p.Field("", "Repository", "IndexOptions")
	branches := p.Field("", "Repository", "Branches")
	eq, _ := p.Obj("index", "IndexStateEqual").(*types.Const)
	meta, _ := p.Obj("index", "IndexStateMeta").(*types.Const)
	if !r.Anchor(idxOpts != nil && branches != nil && eq != nil && meta != nil, "Repository.IndexOptions/Branches, IndexStateEqual/Meta") {
		return
	}
	mentionsField := func(e ast.Node, fld *types.Var) int {
		n := 0
		ast.Inspect(e, func(m ast.Node) bool {
			if se, ok := m.(*ast.SelectorExpr); ok && info.Selections[se] != nil && info.Selections[se].Obj() == fld {
				n++
			}
			return true
		})
		return n
	}
	hashEqual := func(cond ast.Expr, truth bool) bool {
		be, ok := ast.Unparen(cond).(*ast.BinaryExpr)
		if !ok || mentionsField(be, idxOpts) == 0 || len(an.CallsTo(info, be, false, getHash)) == 0 {
			return false
		}
		return (be.Op.String() == "!=" && !truth) || (be.Op.String() == "==" && truth)
	}
	branchesEqual := func(cond ast.Expr, truth bool) bool {
		// a call comparing two Branches values, taken as "equal" on this edge
		c, ok := ast.Unparen(cond).(*ast.CallExpr)
		if !ok || mentionsField(c, branches) < 2 {
			return false
		}
		return truth
	}
	n := 0
	// the classification may have been split off into a method of Options that IndexState returns
	for _, xd := range calleeDecls(p, d) {
		g := an.NewG(info, xd.Decl.Body)
		for _, l := range g.Locs(func(nd ast.Node) bool { _, ok := nd.(*ast.ReturnStmt); return ok }) {
			rs := g.Node(l).(*ast.ReturnStmt)
			if len(rs.Results) == 0 {
				continue
			}
			id, ok := ast.Unparen(rs.Results[0]).(*ast.Ident)
			if !ok {
				continue
			}
			c, _ := info.Uses[id].(*types.Const)
			if c != eq && c != meta {
				continue
			}
			n++
			okH := g.GuardedBy(l, hashEqual, nil)
			okB := g.GuardedBy(l, branchesEqual, nil)
			r.Check(okH, "C38.R3", "index.(*Options).IndexState/return-"+c.Name()+"/after-option-hash-compared", rs.Pos(), "only reached when repo.IndexOptions == o.GetHash()", "IndexState can answer "+c.Name()+" without having compared the stored option hash with GetHash(): a change of build options no longer causes a re-index")
			r.Check(okB, "C38.R3", "index.(*Options).IndexState/return-"+c.Name()+"/after-branches-compared", rs.Pos(), "only reached when the stored and requested Branches compared equal", "IndexState can answer "+c.Name()+" without having compared the stored branches with the requested ones: new commits no longer cause a re-index")
		}
	}
	r.Floor("C38.R3.equal-meta-returns", 2, n)
	// MergeMutable
	mm := p.Func("", "(*Repository).MergeMutable")
	md := p.Decl(mm)
	if !r.Anchor(md != nil, "zoekt.(*Repository).MergeMutable") {
		return
	}
	r.Fn(an.FuncName(mm))
	minfo := md.Pkg.TypesInfo
	for _, fname := range []string{"ID", "Name", "Branches"} {
		fld := p.Field("", "Repository", fname)
		found := false
		for _, xd := range calleeDecls(p, md) {
			if xd != md {
				// a helper that checks the immutable fields: MergeMutable must hand its error on
				hf, _ := xd.Pkg.TypesInfo.Defs[xd.Decl.Name].(*types.Func)
				propagated := false
				ast.Inspect(md.Decl.Body, func(n ast.Node) bool {
					is, ok := n.(*ast.IfStmt)
					if !ok || is.Init == nil {
						return true
					}
					as, ok := is.Init.(*ast.AssignStmt)
					if !ok || len(as.Rhs) != 1 || len(an.CallsTo(minfo, as.Rhs[0], false, hf)) == 0 {
						return true
					}
					errObj := minfo.ObjectOf(as.Lhs[len(as.Lhs)-1].(*ast.Ident))
					for _, st := range is.Body.List {
						if rs, ok := st.(*ast.ReturnStmt); ok && len(rs.Results) > 0 && isIdentOf(minfo, rs.Results[len(rs.Results)-1], errObj) {
							propagated = true
						}
					}
					return true
				})
				if !propagated {
					continue
				}
			}
			mg := an.NewG(minfo, xd.Decl.Body)
			for _, b := range mg.C.Blocks {
				cond := an.CondOf(b)
				if cond == nil {
					continue
				}
				cnt := 0
				ast.Inspect(cond, func(m ast.Node) bool {
					if se, ok := m.(*ast.SelectorExpr); ok && minfo.Selections[se] != nil && minfo.Selections[se].Obj() == fld {
						cnt++
					}
					return true
				})
				if cnt < 2 {
					continue
				}
				// the "differs" edge must return a non-nil error: first node of then-branch region returns errors.New
				then := b.Succs[0]
				for _, nd := range then.Nodes {
					if rs, ok := nd.(*ast.ReturnStmt); ok && len(rs.Results) >= 1 && !minfo.Types[rs.Results[len(rs.Results)-1]].IsNil() {
						found = true
					}
				}
			}
		}
		r.Check(found, "C38.R3", "zoekt.(*Repository).MergeMutable/immutable/"+fname, md.Decl.Pos(), "a difference in "+fname+" is refused with an error (forces a re-index)", "MergeMutable no longer refuses a change of "+fname+": it is applied as a metadata-only update without re-indexing")
	}
}
