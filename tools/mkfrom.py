#!/usr/bin/env python3
"""mkfrom.py <base.diff> <PROP> <name> <expect> <note> <file> <<< "OLD\n####\nNEW"
Builds a mutant on top of a behaviour-preserving refactoring: applies base.diff to a scratch copy of /repo's HEAD,
replaces OLD by NEW in <file>, and stores the combined diff against HEAD as checker/mutants/<PROP>-<name>.patch."""
import sys,os,subprocess,shutil,json
base,prop,name,expect,note,file=sys.argv[1:7]
old,new=sys.stdin.read().split('\n####\n')
new=new.rstrip('\n') if new.strip() else ''
S='/tmp/mkfrom-scratch'
shutil.rmtree(S,ignore_errors=True); os.makedirs(S+'/a'); os.makedirs(S+'/b')
for d in ('a','b'):
    subprocess.run(f'git -C /repo archive HEAD | tar -x -C {S}/{d}',shell=True,check=True)
subprocess.run(['patch','-p1','-s','-f','--no-backup-if-mismatch','-i',os.path.abspath(base)],cwd=S+'/b',check=True)
p=f'{S}/b/{file}'
s=open(p).read()
assert s.count(old)==1,('OLD occurs',s.count(old))
open(p,'w').write(s.replace(old,new))
out=subprocess.run(['diff','-ruN','a','b'],cwd=S,capture_output=True,text=True).stdout
files=[l[6:].split('\t')[0] for l in out.splitlines() if l.startswith('+++ b/')]
open(f'/verif/checker/mutants/{prop}-{name}.patch','w').write(out)
json.dump({"property":prop,"expect":expect,"note":note,"files":files},open(f'/verif/checker/mutants/{prop}-{name}.json','w'),indent=1)
shutil.rmtree(S)
print('wrote',prop+'-'+name,files)
