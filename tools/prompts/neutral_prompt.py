import json,sys
group=sys.argv[1]; ids=sys.argv[2:]
props=[json.loads(l) for l in open('/verif/properties.jsonl')]
props=[p for p in props if p['id'] in ids]
wt="/tmp/neutral/"+group
out="/tmp/neutral/out3/"+group
done=open("/tmp/neutral/done-"+group+".txt").read()
print(f"""You are helping test static-analysis tooling for the open-source Go project sourcegraph/zoekt (a trigram-indexed code search engine). Your job is the OPPOSITE of bug seeding: produce BEHAVIOUR-PRESERVING REFACTORINGS of the code that implements certain mechanisms. The tooling under test must stay silent on such refactorings; your patches are used to find out whether it does. You have a private scratch git worktree of the repository at {wt}.

For EACH of the properties listed below, produce TWO independent small refactoring patches (1-40 changed lines each) to the non-test Go code that implements the property's mechanisms (the functions named under 'Mechanisms' / files under 'Files'). A refactoring must keep the observable behaviour EXACTLY the same for every input (same results, same errors, same side effects and their order, same concurrency/locking behaviour). Pick from edits like these, and vary them across patches:
- route a value through a new local variable, or inline a local
- extract a few statements into a helper function/method in the same package (that does the same thing), or inline a small helper
- invert an if/else, replace an early `continue`/`return` by a nested if (or vice versa), merge two adjacent guards with || or split a compound condition
- write a comparison differently (`len(x) == 0` as `len(x) < 1`, `a > b` as `b < a`, `!a && !b` as `!(a || b)`), `x += y` as `x = x + y`
- change the loop form (range vs index loop) when it is obviously equivalent, reorder two statements that are obviously independent
- switch <-> if/else-if chain, reorder switch cases (when there is no fallthrough and cases are disjoint)
- rename locals/receivers/parameters, move a declaration closer to its use, replace a closure by a named local function or the reverse
- replace a struct literal by field-by-field assignment (or the reverse) when no reader can observe the intermediate state
Do NOT change behaviour in any corner case, do NOT 'fix' anything, do NOT change public API signatures, do NOT touch test files, generated files (*.pb.go) or docs.

PROPERTIES (the mechanisms to refactor):
""")
for p in props:
    print(f"- {p['id']}: {p['title']}\n  Statement: {p['statement']}\n  Files: {', '.join(p['anchors']['files'])}\n  Mechanisms: {json.dumps(p['anchors']['mechanism'])}\n")
print("ALREADY DONE IN AN EARLIER ROUND (choose DIFFERENT functions or clearly different kinds of edit; prefer functions of the listed mechanisms that were not touched yet, and prefer structural edits: extracting a helper function or method, inlining a helper, converting a closure to a named function, moving a block into an else branch or out of it, replacing a loop by an equivalent one, splitting a long function in two, introducing an intermediate struct or variable, changing the order of independent checks):\n"+done+"\n")
print(f"""
REQUIREMENTS
1. Each patch is independent (applies alone to a clean checkout of the worktree's commit with `git apply`).
2. With the patch applied: `go build ./...` succeeds and the tests of every package you touched pass (`go test -vet=off -count=1 ./<pkg>/`). You do NOT need to run the whole suite.
3. Save each patch with `git diff > {out}/<PROP>-<n>.diff` (n = 1, 2), then `git checkout -- .` before starting the next one. NEVER use `git stash` (it is shared between all worktrees of this repository). Never commit.
4. Also write {out}/<PROP>-<n>.txt with one or two lines: which function(s) you refactored and what kind of edit it was.
5. If for some property you cannot find a safe refactoring of a second site, one patch is fine. Quality (truly behaviour-preserving, touching the listed mechanism code, not a trivial comment/whitespace change) matters more than quantity.

ENVIRONMENT
- No network. Always `export GOFLAGS=-mod=mod GOPROXY=off` before go commands. Do NOT set GOSUMDB or GOTOOLCHAIN.
- Work ONLY inside {wt} and write deliverables to {out}/. Never read or write /verif, never modify /repo (the main checkout).
- Be frugal with disk; do not create extra copies of the repo.
When done, leave the worktree CLEAN and reply with a short list of the patches you produced (property, function, kind of edit).""")
