import json,sys
pid=sys.argv[1]
p=[json.loads(l) for l in open('/verif/properties.jsonl') if json.loads(l)['id']==pid][0]
print(f"""You are helping test a verification effort for the open-source Go project sourcegraph/zoekt (a trigram-indexed code search engine). Your job: act as a careful 'bug seeder'. You are given ONE semantic property of zoekt and a private scratch git worktree of the repository at {"/tmp/seed/"+pid}. Produce ONE realistic source change to zoekt (non-test Go files) that each BREAK the property, while the code still compiles and the project's existing test suite still passes.

THE PROPERTY ({p['id']}: {p['title']})
Statement: {p['statement']}
Quantifier: {p['quantifier']['text']}
Why tests can't settle it: {p['why_tests_cant']}
Files where the mechanism lives: {', '.join(p['anchors']['files'])}
Mechanisms meant to make it hold: {json.dumps(p['anchors']['mechanism'])}

REQUIREMENTS FOR EACH CHANGE
1. It is a plausible edit a developer could make (a refactor gone subtly wrong, an "optimisation", a dropped check, an error swallowed, a reordered pair of operations, a new field handled in one place but not its sibling, a cache, etc.), small (typically 1-30 lines), touching only non-test .go files of zoekt (or doc files if the property is about documentation).
2. It must need something SPECIFIC to manifest: a particular interleaving, a crash/fault at a particular point, a multi-step sequence of operations, an unusual input, or two cooperating sites that each look fine alone. NOT something ordinary use or the existing tests would expose at once.
3. With the change applied: `go build ./...` succeeds and the existing test suite passes. Run at least the tests of every package you touched plus packages that depend on it; before finishing run the whole suite: `cd {"/tmp/seed/"+pid} && go test -mod=mod -vet=off -count=1 ./... 2>&1 | tail -60` (takes ~2-3 minutes; all packages must be ok).
4. Provide a DEMONSTRATION: a new Go test file (name it zz_seed_{pid.lower()}_e_test.go, placed in the appropriate package directory of the worktree) or a small program, that FAILS with your change applied and PASSES on the unchanged code. Verify both directions yourself (save your change with `git diff > some.diff` and use `git apply -R some.diff` / `git apply some.diff`; NEVER use `git stash`: the stash is shared between all worktrees of this repository and other people are working in sibling worktrees).
5. STYLE OF CHANGE WANTED IN THIS ROUND: avoid simply deleting the single most obvious guard/check that implements the property. Prefer breaks that are harder to see: a change inside a helper function or a sibling code path that handles the same data (the second of two readers/writers, the streaming variant next to the batch variant, the error path next to the success path), a condition that is weakened or inverted for one case only (off-by-one, `<` vs `<=`, `&&` vs `||`, a wrong variable of the same type), an operation moved before/after the point where it is safe, a value computed slightly wrongly (wrong offset base, wrong unit, wrong key), state that is updated in one place but not in the place that mirrors it, or a cache/early-return that skips the work in a special case.
6. Make exactly one change; you have about 20 minutes in total, so pick the site quickly, run the touched packages first and the full suite once.

ENVIRONMENT
- No network. Always `export GOFLAGS=-mod=mod GOPROXY=off` before go commands. Do NOT set GOSUMDB or GOTOOLCHAIN.
- Work ONLY inside {"/tmp/seed/"+pid} (your worktree) and write deliverables to {"/tmp/seed/out/"+pid}/. Never read or write /verif, never modify /repo (the main checkout), never commit anything.
- Be frugal with disk; do not create extra copies of the repo.

DELIVERABLES in {"/tmp/seed/out/"+pid}/ (for change 'e'):
- e/patch.diff   : `git diff` of ONLY the source change (no demo test inside), applicable with `git apply` to a clean checkout of the same commit.
- e/<demo test file> : the demonstration test (note in meta which directory it belongs in).
- e/meta.json    : {{"property":"{pid}","summary":"what was changed","why_breaks":"how it violates the property","needs_to_manifest":"the specific interleaving/fault/sequence/input needed","demo":{{"file":"<name>","dir":"<package dir relative to repo root>","run":"<go test command>"}},"ran":["commands you ran and their outcome"]}}
When done, leave the worktree CLEAN (git checkout -- . ; remove untracked files) and reply with a brief summary of each change (files/functions touched, mechanism, how to run the demo).""")
