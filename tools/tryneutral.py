#!/usr/bin/env python3
"""tryneutral.py <dir-with-*.diff> : applies each behaviour-preserving refactoring to a scratch copy of /repo (outside /repo and /verif),
runs all checks on it and prints every VIOLATED/UNDECIDED line (each is a false alarm to be corrected in the machinery)."""
import sys,os,subprocess,glob,shutil,json
d=sys.argv[1]
scratch='/tmp/tn-scratch-%d'%os.getpid(); repo=scratch+'/repo'; vdir=scratch+'/verif'
os.makedirs(vdir+'/evidence',exist_ok=True)
shutil.copy('/verif/known_findings.json',vdir)
res={}
for f in sorted(glob.glob(d+'/*.diff')):
    # from the committed state, so that a seed matrix running in /repo's working tree does not leak in
    shutil.rmtree(repo,ignore_errors=True); os.makedirs(repo)
    subprocess.run('git -C /repo archive HEAD | tar -x -C '+repo,shell=True,check=True)
    ap=subprocess.run(['patch','-p1','-s','-f','--no-backup-if-mismatch','-i',f],cwd=repo,capture_output=True,text=True)
    name=os.path.basename(f)
    if ap.returncode!=0:
        print(name,'PATCH DOES NOT APPLY',ap.stdout[:100]); res[name]='noapply'; continue
    out=subprocess.run([os.environ.get('ZCHECK','/verif/bin/zcheck'),'-all','-repo',repo,'-verif',vdir],capture_output=True,text=True).stdout
    bad=[l.strip() for l in out.splitlines() if l.lstrip().startswith(('VIOLATED','UNDECIDED')) or 'LOAD FAILED' in l]
    res[name]=bad
    print(name,'silent' if not bad else f'{len(bad)} ALARM(S)')
    for b in bad[:6]: print('   ',b[:260])
shutil.rmtree(scratch,ignore_errors=True)
json.dump(res,open(d+'/RESULT.json','w'),indent=1)
