#!/usr/bin/env python3
"""Applies every confirmed seeded change to /repo (one at a time), runs all checks on it (zcheck -all), undoes it,
and records which checks report a violation. Writes seeded/MATRIX.json and seeded/MATRIX.md.
With arguments (seed names, e.g. C33-e C34-c) only those seeds are re-run; the rows of the others are kept from MATRIX.json."""
import json,os,subprocess,glob,re,shutil,sys
V='/verif'; R=os.environ.get('SEEDMATRIX_REPO','/repo')  # a scratch git worktree of /repo can stand in (e.g. while a self-test rsyncs /repo)
tmpv='/tmp/seedmatrix-verif'
os.makedirs(tmpv+'/evidence',exist_ok=True)
shutil.copy(V+'/known_findings.json',tmpv)
shutil.copy(V+'/bin/zcheck',tmpv+'/zcheck')  # a private copy: rebuilding the checker while the matrix runs must not change it
assert subprocess.run(['git','-C',R,'diff','--quiet']).returncode==0, "/repo dirty"
rows=[]
only=set(sys.argv[1:])
kept={r['seed']:r for r in json.load(open(V+'/seeded/MATRIX.json'))} if only else {}
for d in sorted(glob.glob(V+'/seeded/C*')):
    name=os.path.basename(d)
    if only and name not in only:
        if name in kept: rows.append(kept[name])
        continue
    prop=name.split('-')[0]
    patch=d+'/patch.diff'
    used='patch.diff'
    if subprocess.run(['git','-C',R,'apply','--check',patch],capture_output=True).returncode!=0:
        alt=d+'/patch_rebased_on_fixes.diff'
        if os.path.exists(alt) and subprocess.run(['patch','-p1','--dry-run','-s','-f','-d',R,'-i',alt],capture_output=True).returncode==0:
            patch=alt; used='patch_rebased_on_fixes.diff'
        else:
            rows.append({"seed":name,"property":prop,"applies":False,"caught_by":[],"own_check_catches":None}); continue
    if used=='patch.diff':
        subprocess.run(['git','-C',R,'apply',patch],check=True)
    else:
        subprocess.run(['patch','-p1','-s','-f','-d',R,'-i',patch],check=True)
    try:
        out=subprocess.run([tmpv+'/zcheck','-all','-repo',R,'-verif',tmpv],capture_output=True,text=True).stdout
    finally:
        subprocess.run(['git','-C',R,'checkout','--','.'],check=True)
        subprocess.run(['git','-C',R,'clean','-fdq'],check=True)
    caught={}
    for line in out.splitlines():
        m=re.match(r'\s+(VIOLATED|UNDECIDED) (\S+) (.+?) at \S+ \[',line)
        if m:
            p=m.group(2).split('.')[0]
            if not p.startswith('C'): p='floor-or-anchor'
            caught.setdefault(p,[]).append(m.group(2)+' '+m.group(3))
    if 'LOAD FAILED' in out: caught['load']=['type/load error']
    rows.append({"seed":name,"property":prop,"applies":True,"patch":used,"caught_by":sorted(caught),"own_check_catches":prop in caught,"constructs":caught})
    print(name,'->',sorted(caught))
json.dump(rows,open(V+'/seeded/MATRIX.json','w'),indent=1)
with open(V+'/seeded/MATRIX.md','w') as f:
    f.write("| seed | breaks | own check | caught by | first reported construct |\n|---|---|---|---|---|\n")
    for r in rows:
        if not r['applies']:
            f.write(f"| {r['seed']} | {r['property']} | n/a | patch no longer applies on the repaired tree | |\n"); continue
        first=''
        if r['caught_by']:
            k=r['property'] if r['own_check_catches'] else r['caught_by'][0]
            first=r['constructs'][k][0]
        f.write(f"| {r['seed']} | {r['property']} | {'yes' if r['own_check_catches'] else 'no'} | {', '.join(r['caught_by']) or '-'} | {first} |\n")
own=sum(1 for r in rows if r['own_check_catches']); anyc=sum(1 for r in rows if r['caught_by']); app=sum(1 for r in rows if r['applies'])
print(f"{len(rows)} seeds, {app} apply, {own} caught by own check, {anyc} caught by some check")
