#!/usr/bin/env python3
"""mkmutant.py PROP NAME EXPECT NOTE FILE  (reads OLD and NEW blocks from stdin separated by a line '====')
Creates checker/mutants/PROP-NAME.patch (+ .json) by replacing OLD with NEW in /repo/FILE (in a scratch copy).
Several FILE edits: repeat blocks separated by '####' lines, each starting with a 'FILE: path' line."""
import sys,os,subprocess,tempfile,json,shutil
prop,name,expect,note=sys.argv[1:5]
blocks=sys.stdin.read().split('\n####\n')
tmp=tempfile.mkdtemp(prefix='mkmut-')
try:
    a=os.path.join(tmp,'a'); b=os.path.join(tmp,'b')
    files=[]
    for blk in blocks:
        first,rest=blk.split('\n',1)
        assert first.startswith('FILE: '),first
        f=first[6:].strip()
        old,new=rest.split('\n====\n')
        new=new.rstrip('\n')+'\n' if new.strip() else ''
        old=old.rstrip('\n')+'\n'
        for d in (a,b):
            os.makedirs(os.path.dirname(os.path.join(d,f)),exist_ok=True)
            if not os.path.exists(os.path.join(d,f)):
                shutil.copy(os.path.join('/repo',f),os.path.join(d,f))
        s=open(os.path.join(b,f)).read()
        if s.count(old)!=1:
            sys.exit(f"OLD block occurs {s.count(old)} times in {f}")
        open(os.path.join(b,f),'w').write(s.replace(old,new))
        files.append(f)
    out=subprocess.run(['diff','-ruN','a','b'],cwd=tmp,capture_output=True,text=True).stdout
    dst=f"/verif/checker/{'neutral' if os.environ.get('NEUTRAL') else 'mutants'}/{prop}-{name}"
    open(dst+'.patch','w').write(out)
    json.dump({"property":prop,"expect":expect,"note":note,"files":files},open(dst+'.json','w'),indent=1)
    print("wrote",dst+'.patch',len(out.splitlines()),"lines")
finally:
    shutil.rmtree(tmp)
