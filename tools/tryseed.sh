#!/bin/bash
# tryseed.sh <patch.diff> <PROP> : applies the patch to /repo, runs the quick check, undoes the patch.
patch=$1; prop=$2
cp /verif/known_findings.json /tmp/tryseed-verif/ 2>/dev/null; cd /repo || exit 2
if ! git diff --quiet; then echo "/repo is dirty"; exit 2; fi
if ! git apply --check "$patch" 2>/dev/null; then echo "PATCH DOES NOT APPLY: $patch"; exit 3; fi
git apply "$patch"
/verif/bin/zcheck -property $prop -verif /tmp/tryseed-verif 2>&1 | cut -c1-${COLS:-300} | head -${LINES_MAX:-12}
git checkout -- . ; git status --short | head -3
