#!/usr/bin/env python3
"""Regenerates /verif/MANIFEST.json from tools/claims.json (per-property claim texts) and properties.jsonl."""
import json,os
V='/verif'
props=[json.loads(l) for l in open(f'{V}/properties.jsonl')]
claims=json.load(open(f'{V}/tools/claims.json'))
checks=[];na=[]
for p in props:
    pid=p['id']
    c=claims.get(pid)
    if c and c.get('claimed'):
        checks.append({
          "property_id":pid,
          "quick_cmd":f"./bin/zcheck -repo /repo -property {pid} -tier quick",
          "thorough_cmd":f"./bin/zcheck -repo /repo -property {pid} -tier thorough",
          "evidence_file":f"/verif/evidence/{pid}.json",
          "replay_cmd_template":f"./bin/zcheck -repo /repo -property {pid} -tier quick  # re-runs all obligations; the failed ones are listed in {{path}}",
          "engine":"zcheck",
          "level_claimed":{"category":"other","text":c['text'],"design_ref":c.get('design_ref',f"DESIGN.md section 4, {pid}")},
          "level_note":c['note'],
          "technique":c['technique']})
    else:
        na.append({"property_id":pid,"reason":(c or {}).get('reason',"check not built yet (see DESIGN.md section 4 for the plan)")})
m={"version":1,
 "setup_cmd":"cd checker && env -u GOWORK -u GOSUMDB GOFLAGS=-mod=mod GOPROXY=off go build -o ../bin/zcheck ./cmd/zcheck",
 "hooks":{"guard":"verif","enable":"none needed: static analysis reads /repo's source; there are no hook commits","baseline_off_cmd":"cd /repo && go test -mod=mod -vet=off -count=1 -timeout 25m ./...","source_commits":[],"add_only":True},
 "engines":[{"name":"zcheck","path":"checker/","serves_properties":[c['property_id'] for c in checks],"kind_free_text":"custom static analyser over go/packages + go/types + go/cfg + go/ssa + VTA/CHA call graphs (x/tools v0.29.0); one rule set per property; loads /repo's current working tree on every run; nothing in /repo is executed"}],
 "checks":checks,
 "notes":"Static analysis only. Every check decides structural clauses (necessary conditions) of its property, level 'other'; what is and is not decided is stated per check and in DESIGN.md section 4. known_findings.json lists genuine defects (known / fixed). thorough = quick + GOARCH=386 configuration + mutant self-test (checker/mutants).",
 "not_applicable":na}
json.dump(m,open(f'{V}/MANIFEST.json','w'),indent=1)
print(len(checks),"claimed,",len(na),"not applicable")
