#!/bin/bash
# confirm_seed.sh <outdir e.g. /tmp/seed/out/C07/a> <name e.g. C07-a>
# Confirms a seeded change against /repo HEAD in a scratch worktree:
#  demo passes without the patch, fails with it; build ok; full suite (without demo) passes with it.
# On success copies it to /verif/seeded/<name>/ and appends what was run to meta.json ("confirmed").
set -u
src=$1; name=$2
export GOFLAGS=-mod=mod GOPROXY=off; unset GOWORK GOSUMDB
wt=/tmp/cs-$name
log=/tmp/seed/confirm-$name.log
: > $log
cleanup(){ git -C /repo worktree remove --force $wt >/dev/null 2>&1; rm -rf $wt; }
cleanup
git -C /repo worktree add -q --detach $wt HEAD || exit 2
demo=$(python3 -c "import json;m=json.load(open('$src/meta.json'));print(m['demo']['file'])")
ddir=$(python3 -c "import json;m=json.load(open('$src/meta.json'));print(m['demo']['dir'])")
run=$(python3 -c "import json;m=json.load(open('$src/meta.json'));print(m['demo']['run'])")
tname=$(grep -o 'func Test[A-Za-z0-9_]*' $src/$demo | head -1 | sed 's/func //')
cp $src/$demo $wt/$ddir/
cd $wt
demo_cmd="go test -vet=off -count=1 -run ^${tname} ./$ddir/"
echo "== demo on unchanged: $demo_cmd" >> $log
if ! $demo_cmd >> $log 2>&1; then echo "RESULT $name: demo FAILS on unchanged tree"; cleanup; exit 1; fi
if ! git apply --check $src/patch.diff 2>>$log; then echo "RESULT $name: patch does not apply to current HEAD"; cleanup; exit 1; fi
git apply $src/patch.diff
echo "== build" >> $log
if ! go build ./... >> $log 2>&1; then echo "RESULT $name: build fails"; cleanup; exit 1; fi
echo "== demo with patch" >> $log
if $demo_cmd >> $log 2>&1; then echo "RESULT $name: demo PASSES with patch (not a breakage)"; cleanup; exit 1; fi
rm $wt/$ddir/$demo
echo "== full suite with patch" >> $log
go test -vet=off -count=1 -timeout 25m ./... > /tmp/seed/suite-$name.log 2>&1
failed=$(grep -E '^(FAIL|---)' /tmp/seed/suite-$name.log | grep '^FAIL' | awk '{print $2}' | grep / | sort -u)
still=""
for p in $failed; do
  echo "== retry $p" >> $log
  ok=0; for try in 1 2 3; do if go test -vet=off -count=1 $p >> $log 2>&1; then ok=1; break; fi; sleep 5; done; [ $ok = 1 ] || still="$still $p"
done
if [ -n "$still" ]; then echo "RESULT $name: suite fails with patch:$still"; cleanup; exit 1; fi
mkdir -p /verif/seeded/$name
cp $src/patch.diff $src/$demo /verif/seeded/$name/
python3 - <<P
import json
m=json.load(open('$src/meta.json'))
m['confirmed']={"against":"$(git -C /repo rev-parse --short HEAD)","ran":["$demo_cmd  (unchanged: pass; with patch: fail)","go build ./... (with patch: ok)","go test -vet=off -count=1 ./... (with patch, demo removed: all ok; load-sensitive packages retried up to three times: '$(echo $failed | tr '\n' ' ')')"]}
json.dump(m,open('/verif/seeded/$name/meta.json','w'),indent=1)
P
echo "RESULT $name: CONFIRMED"
cleanup
