package index

// Demonstration of the KNOWN finding C08 (not repaired): the case-insensitive
// substring path verifies candidates with unicode.ToLower equality, the regexp
// engine folds with simple-fold orbits. Copy into /repo/index:
//   go test -run TestKnownFindingC08 ./index/
// FAILS on the current code by design.

import (
	"context"
	"testing"

	"github.com/sourcegraph/zoekt"
	"github.com/sourcegraph/zoekt/query"
)

func TestKnownFindingC08FoldMismatch(t *testing.T) {
	b, err := NewShardBuilder(&zoekt.Repository{Name: "r"})
	if err != nil {
		t.Fatal(err)
	}
	b.Add(Document{Name: "f.txt", Content: []byte("xx sss yy\n")})
	s := searcherForTest(t, b)
	count := func(q query.Q) int {
		res, err := s.Search(context.Background(), q, &zoekt.SearchOptions{})
		if err != nil {
			t.Fatal(err)
		}
		return len(res.Files)
	}
	lit := count(&query.Substring{Pattern: "ſſſ", CaseSensitive: false, Content: true})
	re, err := query.Parse(`content:ſſſ{1} case:no`)
	if err != nil {
		t.Fatal(err)
	}
	rx := count(re)
	if lit != rx {
		t.Fatalf("case-insensitive literal ſſſ finds %d files, the equivalent regexp %v finds %d (content: sss)", lit, re, rx)
	}
}
