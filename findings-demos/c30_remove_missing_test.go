package main

// Demonstration for the C30.R4 finding: MaybeRemoveMissing identifies entries
// by item.opts.RepoID. Copy into /repo/cmd/zoekt-sourcegraph-indexserver:
//   go test -run TestFindingC30RemoveMissing ./cmd/zoekt-sourcegraph-indexserver/
// Fails before the fix: commit, passes after.

import (
	"testing"
	"time"

	"github.com/sourcegraph/log/logtest"
)

func TestFindingC30RemoveMissing(t *testing.T) {
	q := NewQueue(time.Second, time.Minute, logtest.Scoped(t))
	// SetIndexed for a repository the queue has never seen creates an item whose opts are zero.
	q.SetIndexed(IndexOptions{RepoID: 5, Name: "five"}, indexStateSuccess)
	q.AddOrUpdate(IndexOptions{RepoID: 7, Name: "seven"})
	removed := q.MaybeRemoveMissing([]uint32{7}) // only 7 still exists
	tracked := 0
	q.Iterate(func(*IndexOptions) { tracked++ })
	if tracked != 1 {
		t.Fatalf("after being told that only repository 7 exists the queue still tracks %d repositories (removed: %v)", tracked, removed)
	}
}
