package archive

import (
	"archive/tar"
	"os"
	"path/filepath"
	"testing"

	"github.com/sourcegraph/zoekt/index"
)

// Demonstration for the C15 finding "indexing an archive without regular
// members dereferences the never-created builder".
func TestFindingC15EmptyArchive(t *testing.T) {
	dir := t.TempDir()
	p := filepath.Join(dir, "empty.tar")
	f, err := os.Create(p)
	if err != nil {
		t.Fatal(err)
	}
	w := tar.NewWriter(f)
	// only a directory entry
	if err := w.WriteHeader(&tar.Header{Name: "repo/", Typeflag: tar.TypeDir, Mode: 0o755}); err != nil {
		t.Fatal(err)
	}
	w.Close()
	f.Close()

	defer func() {
		if r := recover(); r != nil {
			t.Fatalf("Index panicked on an archive that holds only a directory: %v", r)
		}
	}()
	err = Index(Options{Archive: p, Name: "repo", Branch: "HEAD"}, index.Options{IndexDir: filepath.Join(dir, "idx")})
	t.Logf("Index returned %v", err)
}
