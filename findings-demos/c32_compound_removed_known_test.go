package main

import (
	"os"
	"testing"
	"time"
)

// Demonstration for the C32 known finding: cleanup deletes a whole compound
// shard - with the assigned repositories in it - when an unassigned repository
// in that shard has to go and the tombstone route is not taken.

// (1) shard merging disabled: moveAll's "HACK" branch removes the compound shard.
func TestKnownC32CompoundRemovedWhenMergingOff(t *testing.T) {
	dir := t.TempDir()
	fn := createCompoundShard(t, dir, []uint32{1, 2})
	// repository 1 is assigned, repository 2 is not
	cleanup(dir, []uint32{1}, time.Now(), false)
	if _, err := os.Stat(fn); err != nil {
		t.Fatalf("cleanup removed the compound shard that holds the assigned repository 1: %v", err)
	}
}
