package index

// Demonstration for the C35.R1 finding "Explode reports success although an
// exploded shard could not be renamed into place (the compound shard is
// already deleted)". Copy into /repo/index and run
//   go test -run TestFindingC35ExplodeRename ./index/
// Fails before the fix: commit, passes after.

import (
	"os"
	"path/filepath"
	"testing"

	"github.com/sourcegraph/zoekt"
)

func TestFindingC35ExplodeRename(t *testing.T) {
	dir := t.TempDir()
	var files []IndexFile
	var names []string
	for i, name := range []string{"repoA", "repoB"} {
		opts := Options{IndexDir: dir, RepositoryDescription: zoekt.Repository{Name: name, ID: uint32(i + 1)}}
		opts.SetDefaults()
		b, err := NewBuilder(opts)
		if err != nil {
			t.Fatal(err)
		}
		b.AddFile("f.txt", []byte("hello world"))
		if err := b.Finish(); err != nil {
			t.Fatal(err)
		}
		p := opts.FindAllShards()[0]
		names = append(names, p)
		f, _ := os.Open(p)
		inf, err := NewIndexFile(f)
		if err != nil {
			t.Fatal(err)
		}
		files = append(files, inf)
	}
	tmp, dst, err := Merge(dir, files...)
	if err != nil {
		t.Fatal(err)
	}
	for _, n := range names {
		os.Remove(n)
	}
	if err := os.Rename(tmp, dst); err != nil {
		t.Fatal(err)
	}
	// make the destination of repoB's exploded shard un-renamable: a non-empty directory
	o := Options{IndexDir: dir, RepositoryDescription: zoekt.Repository{Name: "repoB", ID: 2}}
	blocked := o.shardNameVersion(IndexFormatVersion, 0)
	if err := os.MkdirAll(filepath.Join(blocked, "x"), 0o755); err != nil {
		t.Fatal(err)
	}
	err = Explode(dir, dst)
	if _, statErr := os.Stat(dst); statErr == nil {
		t.Skip("compound shard still present; scenario not reached")
	}
	if err == nil {
		t.Fatal("Explode reported success, but repoB's shard was not installed and the compound shard is gone: repoB is lost")
	}
}
