package index

// Demonstrations for the C12 findings in Builder.Finish. Copy into /repo/index:
//   go test -run TestFindingC12 ./index/
// Both fail before the fix: commit, pass after.

import (
	"os"
	"path/filepath"
	"strings"
	"testing"

	"github.com/sourcegraph/zoekt"
)

// R3: a failed rename of the new shard must not be followed by the removal of the old shard.
func TestFindingC12FailedRenameKeepsOldShard(t *testing.T) {
	dir := t.TempDir()
	opts := Options{IndexDir: dir, RepositoryDescription: zoekt.Repository{Name: "repo", ID: 1}}
	opts.SetDefaults()
	b, err := NewBuilder(opts)
	if err != nil {
		t.Fatal(err)
	}
	b.AddFile("old.txt", []byte("old content"))
	if err := b.Finish(); err != nil {
		t.Fatal(err)
	}
	old := opts.FindAllShards()
	if len(old) != 1 {
		t.Fatalf("old shards: %v", old)
	}
	b, err = NewBuilder(opts)
	if err != nil {
		t.Fatal(err)
	}
	b.AddFile("new.txt", []byte("new content"))
	b.flush()
	b.building.Wait()
	for tmp := range b.finishedShards {
		os.Remove(tmp) // the temporary shard vanishes (e.g. a concurrent *.tmp cleanup)
	}
	if err := b.Finish(); err == nil {
		t.Fatal("Finish reported success although the new shard could not be installed")
	}
	if _, err := os.Stat(old[0]); err != nil {
		t.Fatalf("the new shard could not be installed, and the old shard was deleted as well: the repository is gone (%v)", err)
	}
}

// R5: a rename failure must not be forgotten because a later SetTombstone succeeded.
func TestFindingC12TombstoneOverwritesError(t *testing.T) {
	dir := t.TempDir()
	var files []IndexFile
	for i, name := range []string{"repoA", "repoB"} {
		o := Options{IndexDir: dir, RepositoryDescription: zoekt.Repository{Name: name, ID: uint32(i + 1)}}
		o.SetDefaults()
		b, _ := NewBuilder(o)
		b.AddFile("f.txt", []byte("hello"))
		if err := b.Finish(); err != nil {
			t.Fatal(err)
		}
		p := o.FindAllShards()[0]
		f, _ := os.Open(p)
		inf, _ := NewIndexFile(f)
		files = append(files, inf)
		defer os.Remove(p)
	}
	tmp, dst, err := Merge(dir, files...)
	if err != nil {
		t.Fatal(err)
	}
	matches, _ := filepath.Glob(filepath.Join(dir, "repo*.zoekt"))
	for _, m := range matches {
		os.Remove(m)
	}
	os.Rename(tmp, dst)
	// re-index repoA with shard merging: Finish tombstones repoA in the compound shard
	o := Options{IndexDir: dir, ShardMerging: true, RepositoryDescription: zoekt.Repository{Name: "repoA", ID: 1}}
	o.SetDefaults()
	b, err := NewBuilder(o)
	if err != nil {
		t.Fatal(err)
	}
	b.AddFile("f.txt", []byte("hello again"))
	b.flush()
	b.building.Wait()
	for tmp := range b.finishedShards {
		os.Remove(tmp)
	}
	err = b.Finish()
	if err == nil {
		names, _ := filepath.Glob(filepath.Join(dir, "*"))
		t.Fatalf("Finish reported success although the new shard was never installed; dir: %s", strings.Join(names, " "))
	}
}
