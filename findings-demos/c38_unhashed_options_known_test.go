package index

// Demonstration of the KNOWN findings C38.R1 (not repaired): TrigramMax,
// ScipCTagsPath and LanguageMap influence what gets indexed but are not part of
// the option hash. Copy into /repo/index:
//   go test -run TestKnownFindingC38 ./index/
// FAILS on the current code by design (it asserts the property).

import (
	"testing"

	"github.com/sourcegraph/zoekt"
	"github.com/sourcegraph/zoekt/internal/ctags"
)

func TestKnownFindingC38UnhashedOptions(t *testing.T) {
	dir := t.TempDir()
	opts := Options{IndexDir: dir, RepositoryDescription: zoekt.Repository{Name: "repo", ID: 1}}
	opts.SetDefaults()
	b, err := NewBuilder(opts)
	if err != nil {
		t.Fatal(err)
	}
	b.AddFile("a.txt", []byte("abcdefghijklmnopqrstuvwxyz"))
	if err := b.Finish(); err != nil {
		t.Fatal(err)
	}
	if st, _ := opts.IndexState(); st != IndexStateEqual {
		t.Fatalf("baseline state %v", st)
	}
	// control: a hashed option is noticed
	o := opts
	o.SizeMax = 5
	if st, _ := o.IndexState(); st != IndexStateOption {
		t.Fatalf("SizeMax change: state %v", st)
	}
	// TrigramMax decides which documents are stored as 'too many trigrams'
	o = opts
	o.TrigramMax = 3
	if st, _ := o.IndexState(); st == IndexStateEqual {
		t.Errorf("TrigramMax 20000 -> 3: IndexState = %q, the repository would be skipped although a.txt would now be stored as NOT-INDEXED", st)
	}
	o = opts
	o.ScipCTagsPath = "/some/other/scip-ctags"
	if st, _ := o.IndexState(); st == IndexStateEqual {
		t.Errorf("ScipCTagsPath changed: IndexState = %q (CTagsPath, its sibling, is hashed)", st)
	}
	o = opts
	o.LanguageMap = ctags.LanguageMap{"go": ctags.ScipCTags}
	if st, _ := o.IndexState(); st == IndexStateEqual {
		t.Errorf("LanguageMap changed (which symbol parser runs per language): IndexState = %q", st)
	}
}
