package main

import (
	"errors"
	"os"
	"testing"

	"github.com/sourcegraph/zoekt/index"
)

// Demonstration for the C32 finding "vacuum deletes a compound shard, with all
// the live repositories in it, when the merge that should rewrite it fails".
func TestFindingC32VacuumFailedMerge(t *testing.T) {
	tmpDir := t.TempDir()
	fn := createCompoundShard(t, tmpDir, []uint32{1, 2, 3, 4})
	if err := index.SetTombstone(fn, 2); err != nil {
		t.Fatal(err)
	}

	mockMerger = func() error { return errors.New("merge failed: disk full") }
	defer func() { mockMerger = nil }()

	if _, err := removeTombstones(fn); err == nil {
		t.Fatal("removeTombstones reported success although the merge failed")
	}
	if _, err := os.Stat(fn); err != nil {
		t.Fatalf("the merge failed, nothing replaced the compound shard, yet it was deleted with its 3 live repositories: %v", err)
	}
}
