package index

// Demonstration of the KNOWN finding C12.R6 (not repaired): the shards of one
// repository are installed by independent renames, so stopping between two
// renames (a kill, or here: a fault in the second rename) leaves a mixture of
// new and old shards that a searcher loads.  Copy into /repo/index:
//   go test -run TestKnownFindingC12Mixture ./index/
// This test FAILS on the current code by design (it asserts the property).

import (
	"os"
	"sort"
	"strings"
	"testing"

	"github.com/sourcegraph/zoekt"
)

func TestKnownFindingC12Mixture(t *testing.T) {
	dir := t.TempDir()
	opts := Options{IndexDir: dir, ShardMax: 20, RepositoryDescription: zoekt.Repository{Name: "repo", ID: 1}}
	opts.SetDefaults()
	build := func(gen string, breakSecond bool) error {
		b, err := NewBuilder(opts)
		if err != nil {
			t.Fatal(err)
		}
		b.AddFile("a.txt", []byte(gen+" aaaaaaaaaaaaaaaaaaaaaaaa"))
		b.AddFile("b.txt", []byte(gen+" bbbbbbbbbbbbbbbbbbbbbbbb"))
		if breakSecond {
			b.flush()
			b.building.Wait()
			var tmps []string
			for tmp := range b.finishedShards {
				tmps = append(tmps, tmp)
			}
			sort.Strings(tmps)
			os.Remove(tmps[len(tmps)-1]) // the installation stops before the last shard
		}
		return b.Finish()
	}
	if err := build("old", false); err != nil {
		t.Fatal(err)
	}
	if n := len(opts.FindAllShards()); n < 2 {
		t.Skipf("need a multi-shard repository, got %d shards", n)
	}
	_ = build("new", true) // reports an error, fine; what matters is what is on disk now
	gens := map[string]bool{}
	for _, s := range opts.FindAllShards() {
		f, _ := os.Open(s)
		inf, _ := NewIndexFile(f)
		d, err := NewSearcher(inf)
		if err != nil {
			t.Fatal(err)
		}
		id := d.(*indexData)
		for i := range id.fileBranchMasks {
			c, _ := id.readContents(uint32(i))
			gens[strings.Fields(string(c))[0]] = true
		}
	}
	if len(gens) > 1 {
		t.Fatalf("the index directory holds a mixture of generations %v for one repository", gens)
	}
}
