package index

// Demonstration for the C17.R1 finding "setTombstone reports success when the
// rename of the .meta file failed". Copy into /repo/index and run
//   go test -run TestFindingC17SetTombstoneRename ./index/
// Fails before the fix: commit, passes after.

import (
	"os"
	"path/filepath"
	"testing"

	"github.com/sourcegraph/zoekt"
)

func TestFindingC17SetTombstoneRename(t *testing.T) {
	dir := t.TempDir()
	shard := filepath.Join(dir, "x_v16.00000.zoekt")
	// make the rename target a non-empty directory so that os.Rename fails
	if err := os.MkdirAll(filepath.Join(shard+".meta", "sub"), 0o755); err != nil {
		t.Fatal(err)
	}
	mockRepos = []*zoekt.Repository{{ID: 1, Name: "r"}}
	defer func() { mockRepos = nil }()
	err := SetTombstone(shard, 1)
	if err == nil {
		t.Fatalf("SetTombstone reported success although the .meta file could not be installed")
	}
}
