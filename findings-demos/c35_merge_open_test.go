package main

// Demonstration for the C35.R1 finding "zoekt-merge-index merge reports
// success (empty output, exit 0) when an input shard cannot be opened".
// Copy into /repo/cmd/zoekt-merge-index and run
//   go test -run TestFindingC35MergeOpen ./cmd/zoekt-merge-index/

import (
	"path/filepath"
	"testing"
)

func TestFindingC35MergeOpen(t *testing.T) {
	dir := t.TempDir()
	out, err := merge(dir, []string{filepath.Join(dir, "does-not-exist_v16.00000.zoekt")})
	if err == nil {
		t.Fatalf("merge reported success (output %q) although its input shard cannot be opened", out)
	}
}
