package zoekt_test

// Demonstration for the C26 findings: the compact binary decoders panic / loop
// / allocate unboundedly on short garbage. Copy into /repo (package zoekt_test):
//   go test -run TestFindingC26 .
// Fails (panics) before the fix: commit, passes after.

import (
	"testing"
	"time"

	"github.com/sourcegraph/zoekt"
	"github.com/sourcegraph/zoekt/query"
)

func TestFindingC26Decoders(t *testing.T) {
	huge := []byte{0xff, 0xff, 0xff, 0xff, 0xff, 0xff, 0xff, 0xff, 0x3f} // uvarint 2^62-ish
	neg := []byte{0xff, 0xff, 0xff, 0xff, 0xff, 0xff, 0xff, 0xff, 0xff, 0x01} // uvarint 2^64-1 -> int(x) == -1
	cases := map[string]func() error{
		"ReposMap: 2^62 entries announced": func() error {
			var m zoekt.ReposMap
			return m.UnmarshalBinary(append([]byte{2}, huge...))
		},
		"ReposMap: negative string length": func() error {
			var m zoekt.ReposMap
			in := append([]byte{2, 1, 1, 7, 1, 0, 1}, neg...)
			return m.UnmarshalBinary(in)
		},
		"FileNameSet: negative string length": func() error {
			var s query.FileNameSet
			return s.UnmarshalBinary(append([]byte{1, 1}, neg...))
		},
		"FileNameSet: 2^62 strings announced": func() error {
			var s query.FileNameSet
			return s.UnmarshalBinary(append([]byte{1}, huge...))
		},
		"BranchesRepos: 2^62 entries announced": func() error {
			var b query.BranchesRepos
			return b.UnmarshalBinary(append([]byte{1}, huge...))
		},
		"ReposMap: truncated varint accepted": func() error {
			var m zoekt.ReposMap
			err := m.UnmarshalBinary([]byte{2, 0x80})
			if err == nil {
				t.Errorf("truncated varint decoded without error to %v", m)
			}
			return nil
		},
	}
	for name, f := range cases {
		done := make(chan string, 1)
		go func() {
			defer func() {
				if r := recover(); r != nil {
					done <- "panic: " + fmtAny(r)
				}
			}()
			_ = f()
			done <- ""
		}()
		select {
		case msg := <-done:
			if msg != "" {
				t.Errorf("%s: %s", name, msg)
			}
		case <-time.After(10 * time.Second):
			t.Errorf("%s: decoder does not return (loops/allocates on a 10-byte input)", name)
		}
	}
}

func fmtAny(v any) string {
	if e, ok := v.(error); ok {
		return e.Error()
	}
	if s, ok := v.(string); ok {
		return s
	}
	return "?"
}
