package main

import (
	"bytes"
	"crypto/sha256"
	"fmt"
	"os"
	"path/filepath"
	"regexp"
	"sort"
	"strings"
	"testing"
)

// snapshotDir returns name -> content hash for every entry of dir.
func c33kSnapshotDir(t *testing.T, dir string) map[string]string {
	t.Helper()
	result := map[string]string{}
	entries, err := os.ReadDir(dir)
	if err != nil {
		t.Fatal(err)
	}
	for _, entry := range entries {
		data, err := os.ReadFile(filepath.Join(dir, entry.Name()))
		if err != nil {
			t.Fatal(err)
		}
		result[entry.Name()] = fmt.Sprintf("%x", sha256.Sum256(data))
	}
	return result
}

var (
	c33kWouldRemove = regexp.MustCompile(`(?m)^Would remove (\S+) `)
	c33kWouldIndex  = regexp.MustCompile(`(?m)^Would index "([^"]+)" `)
	c33kRemoving    = regexp.MustCompile(`(?m)^Removing (\S+) `)
	c33kIndexed     = regexp.MustCompile(`(?m)^Indexed "([^"]+)" `)
)

func c33kMatches(re *regexp.Regexp, s string) []string {
	var result []string
	for _, m := range re.FindAllStringSubmatch(s, -1) {
		result = append(result, m[1])
	}
	sort.Strings(result)
	return result
}

// c33kCheckFaithful runs the preview and then the same command with -f and
// checks that the preview changed nothing and announced exactly what -f did.
func c33kCheckFaithful(t *testing.T, indexDir string, roots ...string) {
	t.Helper()
	args := append([]string{"-index", indexDir, "-disable_ctags", "-submodules=false"}, roots...)

	before := c33kSnapshotDir(t, indexDir)
	var preview bytes.Buffer
	if err := execute(args, &preview, &bytes.Buffer{}); err != nil {
		t.Fatal(err)
	}
	after := c33kSnapshotDir(t, indexDir)
	if fmt.Sprint(before) != fmt.Sprint(after) {
		t.Fatalf("preview changed the index directory:\nbefore %v\nafter  %v", before, after)
	}

	forceArgs := append([]string{"-f"}, args...)
	var forced bytes.Buffer
	if err := execute(forceArgs, &forced, &bytes.Buffer{}); err != nil {
		t.Fatal(err)
	}
	final := c33kSnapshotDir(t, indexDir)

	// What -f really did, judged from the directory contents.
	var removed, written []string
	for name := range after {
		if _, ok := final[name]; !ok {
			removed = append(removed, filepath.Join(indexDir, name))
		}
	}
	for name, hash := range final {
		if name == lockFileName {
			continue
		}
		if after[name] != hash {
			written = append(written, name)
		}
	}
	sort.Strings(removed)
	sort.Strings(written)

	announcedRemovals := c33kMatches(c33kWouldRemove, preview.String())
	announcedIndexing := c33kMatches(c33kWouldIndex, preview.String())
	performedRemovals := c33kMatches(c33kRemoving, forced.String())
	performedIndexing := c33kMatches(c33kIndexed, forced.String())

	if strings.Join(announcedRemovals, "\n") != strings.Join(performedRemovals, "\n") {
		t.Errorf("preview announced removals %v, -f performed %v", announcedRemovals, performedRemovals)
	}
	if strings.Join(announcedIndexing, "\n") != strings.Join(performedIndexing, "\n") {
		t.Errorf("preview announced indexing of %v, -f indexed %v", announcedIndexing, performedIndexing)
	}
	// Every shard file that disappeared without being rewritten must have been announced.
	for _, path := range removed {
		announced := false
		for _, a := range announcedRemovals {
			if a == path || a+".meta" == path {
				announced = true
			}
		}
		if !announced && len(announcedIndexing) == 0 {
			t.Errorf("-f deleted %s which the preview did not announce", path)
		}
	}
	if len(written) > 0 && len(announcedIndexing) == 0 {
		t.Errorf("-f wrote %v but the preview announced no indexing", written)
	}
	if t.Failed() {
		t.Logf("preview output:\n%s\n-f output:\n%s", preview.String(), forced.String())
	}
}

// A repository is moved, unchanged, to another root and keeps its root-relative name: the shard of the old
// source is pruned, and the repository has to be indexed from its new place.
func TestC33MovedRepositoryKeepsName(t *testing.T) {
	base, err := filepath.EvalSymlinks(t.TempDir())
	if err != nil {
		t.Fatal(err)
	}
	rootA, rootB := filepath.Join(base, "a"), filepath.Join(base, "b")
	createGitRepository(t, filepath.Join(rootA, "team", "repo"))
	if err := os.MkdirAll(filepath.Join(rootB, "team"), 0o755); err != nil {
		t.Fatal(err)
	}
	indexDir := t.TempDir()
	c33kCheckFaithful(t, indexDir, rootA)
	if err := os.Rename(filepath.Join(rootA, "team", "repo"), filepath.Join(rootB, "team", "repo")); err != nil {
		t.Fatal(err)
	}
	c33kCheckFaithful(t, indexDir, rootB)
	c33kCheckFaithful(t, indexDir, rootB)
}
