package index

// Demonstration for the C09.R5/C12 finding "ShardBuilder.Write drops the error
// of its final buffered flush". Copy into /repo/index and run
//   go test -run TestFindingC09WriteFlush ./index/
// Fails before the fix: commit, passes after.

import (
	"errors"
	"testing"

	"github.com/sourcegraph/zoekt"
)

type failingWriter struct{}

func (failingWriter) Write(p []byte) (int, error) { return 0, errors.New("disk full") }

func TestFindingC09WriteFlush(t *testing.T) {
	b, err := NewShardBuilder(&zoekt.Repository{Name: "r"})
	if err != nil {
		t.Fatal(err)
	}
	if err := b.Add(Document{Name: "f", Content: []byte("hello world")}); err != nil {
		t.Fatal(err)
	}
	if err := b.Write(failingWriter{}); err == nil {
		t.Fatal("Write reported success although every write to the underlying writer failed")
	}
}
