package search

// Demonstration for the C11 findings. Copy into /repo/search and run
//   go test -run TestFindingC11 ./search/
// Before the fix: commits the first test dies with a panic (or hangs / runs
// out of memory) on some single-byte corruption; after them every corruption
// ends in a load error or a served shard.

import (
	"bytes"
	"context"
	"os"
	"path/filepath"
	"testing"
	"time"

	"github.com/sourcegraph/zoekt"
	"github.com/sourcegraph/zoekt/index"
	"github.com/sourcegraph/zoekt/query"
)

func TestFindingC11CorruptShardLoad(t *testing.T) {
	dir := t.TempDir()
	opts := index.Options{IndexDir: dir, RepositoryDescription: zoekt.Repository{Name: "repo", ID: 1}}
	opts.SetDefaults()
	b, err := index.NewBuilder(opts)
	if err != nil {
		t.Fatal(err)
	}
	for i := 0; i < 5; i++ {
		b.AddFile(string(rune('a'+i))+".txt", bytes.Repeat([]byte("hello world\n"), 10+i))
	}
	if err := b.Finish(); err != nil {
		t.Fatal(err)
	}
	shard := opts.FindAllShards()[0]
	orig, err := os.ReadFile(shard)
	if err != nil {
		t.Fatal(err)
	}
	bad := filepath.Join(dir, "bad_v16.00000.zoekt")
	try := func(mut []byte, what string) {
		if err := os.WriteFile(bad, mut, 0o600); err != nil {
			t.Fatal(err)
		}
		done := make(chan string, 1)
		go func() {
			defer func() {
				if r := recover(); r != nil {
					done <- "PANIC: " + what
				}
			}()
			s, err := loadShard(bad)
			if err == nil {
				_, _ = searchOneShard(context.Background(), s, &query.Substring{Pattern: "hello"}, &zoekt.SearchOptions{})
				s.Close()
			}
			done <- ""
		}()
		select {
		case msg := <-done:
			if msg != "" {
				t.Fatalf("loading a corrupt shard panicked instead of failing: %s", msg)
			}
		case <-time.After(20 * time.Second):
			t.Fatalf("loading/searching a corrupt shard hangs: %s", what)
		}
	}
	for off := 0; off < len(orig); off++ {
		for _, v := range []byte{0xff, 0x80} {
			if orig[off] == v {
				continue
			}
			mut := append([]byte(nil), orig...)
			mut[off] = v
			try(mut, "byte "+string(rune('0'+off%10))+" at offset set")
		}
	}
}
