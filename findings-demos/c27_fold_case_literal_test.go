package index

import (
	"context"
	"testing"

	"github.com/sourcegraph/zoekt"
	"github.com/sourcegraph/zoekt/query"
)

// Demonstration for the C27 finding "the literal shortcut of RegexpQuery drops
// the fold-case flag": the regexp (?i)foo matches foo, Foo and FOO, the query
// built from it matched only FOO.
func TestFindingC27FoldCaseLiteral(t *testing.T) {
	b := testShardBuilder(t, nil,
		Document{Name: "lower", Content: []byte("foo")},
		Document{Name: "upper", Content: []byte("FOO")},
		Document{Name: "mixed", Content: []byte("Foo")},
	)
	s := searcherForTest(t, b)
	q, err := query.Parse("(?i)foo")
	if err != nil {
		t.Fatal(err)
	}
	res, err := s.Search(context.Background(), q, &zoekt.SearchOptions{})
	if err != nil {
		t.Fatal(err)
	}
	if len(res.Files) != 3 {
		var names []string
		for _, f := range res.Files {
			names = append(names, f.FileName)
		}
		t.Fatalf("query %v for the regexp (?i)foo found %v, want all of lower, upper, mixed", q, names)
	}
}
