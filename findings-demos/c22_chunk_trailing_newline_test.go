package index

import (
	"context"
	"strings"
	"testing"

	"github.com/sourcegraph/zoekt"
	"github.com/sourcegraph/zoekt/query"
)

// Demonstration for the C22 finding "a chunk shortened by the match display
// limit keeps a line that no remaining range (or context) covers whenever the
// chunk's content ends in a newline".
func TestFindingC22ChunkTrailingNewline(t *testing.T) {
	content := "x1\nx2\nx3\nother\n"
	b := testShardBuilder(t, nil, Document{Name: "f", Content: []byte(content)})
	s := searcherForTest(t, b)
	res, err := s.Search(context.Background(), &query.Substring{Pattern: "x"}, &zoekt.SearchOptions{ChunkMatches: true, NumContextLines: 1})
	if err != nil {
		t.Fatal(err)
	}
	files := SortAndTruncateFiles(res.Files, &zoekt.SearchOptions{ChunkMatches: true, MaxMatchDisplayCount: 2})
	if len(files) != 1 || len(files[0].ChunkMatches) != 1 {
		t.Fatalf("unexpected shape %+v", files)
	}
	cm := files[0].ChunkMatches[0]
	if len(cm.Ranges) != 2 {
		t.Fatalf("want 2 ranges, got %d", len(cm.Ranges))
	}
	lines := strings.Split(strings.TrimSuffix(string(cm.Content), "\n"), "\n")
	if len(lines) != 3 {
		t.Fatalf("chunk cut to ranges on lines 1-2 with one line of context carries %d lines, want 3: %q", len(lines), cm.Content)
	}
}
