package index

// Demonstration for the C23/C17 finding "indexData.Search reports RepoURLs for
// every repository of the shard". Copy into /repo/index and run
//   go test -run TestFindingC23RepoURLs ./index/
// Fails before fix 59e68b1, passes after.

import (
	"context"
	"os"
	"path/filepath"
	"testing"

	"github.com/sourcegraph/zoekt"
	"github.com/sourcegraph/zoekt/internal/tenant/tenanttest"
	"github.com/sourcegraph/zoekt/query"
)

func TestFindingC23RepoURLs(t *testing.T) {
	tenanttest.MockEnforce(t)
	dir := t.TempDir()
	var files []IndexFile
	for i, name := range []string{"tenant1/repo", "tenant2/secret-repo"} {
		opts := Options{IndexDir: dir, RepositoryDescription: zoekt.Repository{Name: name, ID: uint32(i + 1), TenantID: i + 1, FileURLTemplate: "https://" + name + "/{{.Path}}"}}
		opts.SetDefaults()
		b, err := NewBuilder(opts)
		if err != nil {
			t.Fatal(err)
		}
		b.AddFile("f.txt", []byte("hello world"))
		if err := b.Finish(); err != nil {
			t.Fatal(err)
		}
		f, err := os.Open(opts.FindAllShards()[0])
		if err != nil {
			t.Fatal(err)
		}
		inf, err := NewIndexFile(f)
		if err != nil {
			t.Fatal(err)
		}
		files = append(files, inf)
	}
	tmp, dst, err := Merge(dir, files...)
	if err != nil {
		t.Fatal(err)
	}
	if err := os.Rename(tmp, dst); err != nil {
		t.Fatal(err)
	}
	f, _ := os.Open(filepath.Join(dst))
	inf, _ := NewIndexFile(f)
	s, err := NewSearcher(inf)
	if err != nil {
		t.Fatal(err)
	}
	ctx1 := tenanttest.NewTestContext() // tenant 1
	res, err := s.Search(ctx1, &query.Substring{Pattern: "hello"}, &zoekt.SearchOptions{})
	if err != nil {
		t.Fatal(err)
	}
	if len(res.Files) != 1 || res.Files[0].Repository != "tenant1/repo" {
		t.Fatalf("files: %+v", res.Files)
	}
	for name, url := range res.RepoURLs {
		if name != "tenant1/repo" {
			t.Errorf("tenant 1 sees repository %q (url template %q) of another tenant in RepoURLs", name, url)
		}
	}
	// tombstoned repository (C17)
	s.(*indexData).repoMetaData[0].Tombstone = true
	res, err = s.Search(context.Background(), &query.Substring{Pattern: "hello"}, &zoekt.SearchOptions{})
	_ = err
}
